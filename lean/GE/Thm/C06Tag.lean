/-
C06, tag level — `update_refines`: the in-place update of the shadow tree equals a fresh creation.

Over the model `GE/Model/TagSem.lean` of the bookkeeping of generated code + `ProcGenWrapper` (text and attribute
guards, `wx:if` branch keys, `<block>`, lists without a key matched by position): if

* the update-path tree covers the difference between the old and the new data (`cov U D0 D1`),
* guards are sound (`Law.guard`: covered change ∧ guard false ⇒ same value — the statement `guard_sound` proves
  about the dependency analysis), list expressions come with a covering tree (`Law.tree`), and a list's tree
  gives, for a position whose index is unchanged, a tree that covers the change of the item at that position
  (`Law.child`: the meaning the framework's tree builder gives to a node),

then updating any node tree that renders the template under the old data (whenever its nodes were created)
yields a node tree that renders it under the new data — so, forgetting creation times, exactly the tree a fresh
creation builds (`update_refines`), after any number of updates (`updates_refine`).

When the whole data tree is `true` the generated code re-evaluates every binding and hands lists the tree `undefined` (they are then
matched by position whatever their keys); this case is the instance of the theorem in which `cov` holds of everything.

`Law.child` is where finding D67 came from: for an object list the position → field-name map can change, and the
real code handed `tree[new field name]` to a node that showed another field's item.  The model (and the repaired
code) tell such a node `true`.
-/
import GE.Model.TagSem
import GE.Thm.C06Rlm

namespace GE.TagSem

variable {E V T : Type}

/-- the scope trees cover the changes of the scope variables, one by one -/
def CovL (cov : T → V → V → Prop) : List T → List V → List V → Prop
  | [], [], [] => True
  | t :: ts, a :: as, b :: bs => cov t a b ∧ CovL cov ts as bs
  | _, _, _ => False

theorem CovL.append {cov : T → V → V → Prop} : ∀ {ts : List T} {as bs : List V} {ts' : List T} {as' bs' : List V},
    CovL cov ts as bs → CovL cov ts' as' bs' → CovL cov (ts ++ ts') (as ++ as') (bs ++ bs')
  | [], [], [], _, _, _, _, h => h
  | t :: ts, a :: as, b :: bs, _, _, _, h, h' => ⟨h.1, CovL.append h.2 h'⟩
  | [], _ :: _, _, _, _, _, h, _ => by simp [CovL] at h
  | [], [], _ :: _, _, _, _, h, _ => by simp [CovL] at h
  | _ :: _, [], _, _, _, _, h, _ => by simp [CovL] at h
  | _ :: _, _ :: _, [], _, _, _, h, _ => by simp [CovL] at h

/-- what the bookkeeping assumes about guards and trees -/
structure Law (s : Sem E V T) (cov : T → V → V → Prop) : Prop where
  cov_all : ∀ a b, cov s.all a b
  cov_none : ∀ a, cov s.none a a
  same_eq : ∀ a b, s.same a b = true → a = b
  guard : ∀ e D0 D1 sc0 sc1 U su, cov U D0 D1 → CovL cov su sc0 sc1 → s.dirty e U su = false → s.eval e D0 sc0 = s.eval e D1 sc1
  tree : ∀ e D0 D1 sc0 sc1 U su, cov U D0 D1 → CovL cov su sc0 sc1 → cov (s.treeOf e U su) (s.eval e D0 sc0) (s.eval e D1 sc1)
  /-- the subtree at an index covers the change of the item that has this index (position in an array, field name in an object) -/
  child : ∀ L l0 l1, cov L l0 l1 → ∀ a0 a1 x, (a0, x) ∈ s.items l0 → (a1, x) ∈ s.items l1 → cov (s.child L x) a0 a1
  /-- a tree that is `undefined` covers no more than `none` does … -/
  none_cov : ∀ t a b, s.isNone t = true → cov t a b → cov s.none a b
  /-- … and when it is the tree of a list, every position keeps its item (with the usual reading of `cov` the list is unchanged; when the
  whole data tree is `true` — every guard fires, the generated code hands lists `undefined` — `cov` holds of everything) -/
  none_items : ∀ L l0 l1, s.isNone L = true → cov L l0 l1 → ∀ (i : Nat) a0 a1 x,
    (s.items l0)[i]? = some (a0, x) → (s.items l1)[i]? = some (a1, x) → cov s.none a0 a1
  /-- an index whose subtree is absent or leaves the key field alone existed before, with the same key -/
  key_kept : ∀ key L l0 l1, cov L l0 l1 → s.isNone L = false → ∀ a1 x, (a1, x) ∈ s.items l1 →
    (subMark s key (s.child L x) = .none ∨ subMark s key (s.child L x) = .sub false) →
    ∃ a0, (a0, x) ∈ s.items l0 ∧ s.rawKey key a0 = s.rawKey key a1
  /-- a tree none of whose children is `true` or marks the key field leaves indexes and keys as they were -/
  keys_stable : ∀ key L l0 l1, cov L l0 l1 → s.isAll L = false → s.isNone L = false → s.anyMarked key L = false →
    (s.items l0).map (fun p => (s.rawKey key p.1, p.2)) = (s.items l1).map (fun p => (s.rawKey key p.1, p.2))
  /-- the tree handed to a sub-template covers the change of its data object -/
  mk_cov : ∀ (fs : List (String × E)) D0 D1 sc0 sc1 U su, cov U D0 D1 → CovL cov su sc0 sc1 →
    cov (s.mkTree U (fs.map fun a => (a.1, s.treeOf a.2 U su))) (s.mkObj (evalAttrs s D0 sc0 fs)) (s.mkObj (evalAttrs s D1 sc1 fs))

/-! ## creation renders -/

theorem mkItems_renders {p : V → V → Nodes V → Prop} (now : Nat) (mk : V → V → Nodes V) (h : ∀ a x, p a x (mk a x)) :
    ∀ its : List (V × V), rendersItems p its (mkItems now mk its)
  | [] => trivial
  | (a, x) :: r => ⟨rfl, h a x, mkItems_renders now mk h r⟩

mutual
theorem create_renders (s : Sem E V T) (now : Nat) (D : V) (sc : List V) : ∀ t : Tpl E, renders s D sc t (create s now D sc t)
  | .text _ => rfl
  | .elem _ _ ch => ⟨rfl, rfl, createL_renders s now D sc ch⟩
  | .block inc ch => createL_renders s now D (if inc then [] else sc) ch
  | .cond bs => ⟨rfl, createBr_renders s now D sc bs _ 1⟩
  | .loop _ body => mkItems_renders now _ (fun a x => createL_renders s now D (sc ++ [a, x]) body) _
  | .loopK _ _ body => ⟨rfl, mkItems_renders now _ (fun a x => createL_renders s now D (sc ++ [a, x]) body) _⟩
  | .tref _ _ cases => ⟨rfl, createT_renders s now _ cases _⟩
theorem createL_renders (s : Sem E V T) (now : Nat) (D : V) (sc : List V) : ∀ ts : Tpls E, rendersL s D sc ts (createL s now D sc ts)
  | .nil => trivial
  | .cons t r => ⟨create_renders s now D sc t, createL_renders s now D sc r⟩
theorem createBr_renders (s : Sem E V T) (now : Nat) (D : V) (sc : List V) : ∀ (bs : Branches E) (k i : Nat),
    rendersBr s D sc bs k i (createBr s now D sc bs k i)
  | .last he els, k, i => by
    simp only [rendersBr, createBr]
    split
    · exact createL_renders s now D sc els
    · rfl
  | .cons _ body r, k, i => by
    simp only [rendersBr, createBr]
    split
    · exact createL_renders s now D sc body
    · exact createBr_renders s now D sc r k (i + 1)
theorem createT_renders (s : Sem E V T) (now : Nat) (D : V) : ∀ (cs : TCases E) (sel : Option String),
    rendersT s D cs sel (createT s now D cs sel)
  | .nil, _ => rfl
  | .cons name body r, sel => by
    simp only [rendersT, createT]
    split
    · exact createL_renders s now D [] body
    · exact createT_renders s now D r sel
end

/-! ## update renders -/

theorem updAttrs_eq (s : Sem E V T) {cov : T → V → V → Prop} (law : Law s cov) {D0 D1 : V} {sc0 sc1 : List V} {U : T} {su : List T}
    (hU : cov U D0 D1) (hsu : CovL cov su sc0 sc1) : ∀ attrs : List (String × E),
    updAttrs s D1 sc1 U su attrs (evalAttrs s D0 sc0 attrs) = evalAttrs s D1 sc1 attrs
  | [] => rfl
  | a :: r => by
    simp only [evalAttrs, List.map_cons, updAttrs]
    have ih := updAttrs_eq s law hU hsu r
    simp only [evalAttrs] at ih
    rw [ih]
    cases hd : s.dirty a.2 U su with
    | true => simp
    | false => simp [law.guard a.2 D0 D1 sc0 sc1 U su hU hsu hd]

theorem zipItems_renders (s : Sem E V T) {cov : T → V → V → Prop} (law : Law s cov) (now : Nat) (treeAt : V → T)
    (upd : V → V → T → T → Nodes V → Nodes V) (mk : V → V → Nodes V) (P0 P1 : V → V → Nodes V → Prop)
    (hupd : ∀ a0 x0 a1 x1 ti tx och, cov ti a0 a1 → cov tx x0 x1 → P0 a0 x0 och → P1 a1 x1 (upd a1 x1 ti tx och))
    (hmk : ∀ a x, P1 a x (mk a x)) :
    ∀ (its1 its0 : List (V × V)) (oitems : Items V),
      (∀ (i : Nat) a0 a1 x, its0[i]? = some (a0, x) → its1[i]? = some (a1, x) → cov (treeAt x) a0 a1) →
      rendersItems P0 its0 oitems → rendersItems P1 its1 (zipItems s now treeAt upd mk its1 oitems)
  | [], _, _, _, _ => by simp [zipItems, rendersItems]
  | (a1, x1) :: r1, its0, .nil, _, h0 => by
    simp only [zipItems]
    refine ⟨rfl, hmk a1 x1, ?_⟩
    exact zipItems_renders s law now treeAt upd mk P0 P1 hupd hmk r1 [] .nil (fun i a0 a1 x h => by simp at h) trivial
  | (a1, x1) :: r1, [], .cons b ox och orest, _, h0 => by simp [rendersItems] at h0
  | (a1, x1) :: r1, (a0, x0) :: r0, .cons b ox och orest, hpos, h0 => by
    obtain ⟨hox, hp0, hrest⟩ := h0
    simp only [zipItems]
    refine ⟨rfl, ?_, ?_⟩
    · cases hs : s.same x1 ox with
      | true =>
        have hx : x1 = ox := law.same_eq _ _ hs
        have hx0 : x0 = x1 := by rw [hx, hox]
        simp only [Bool.not_true, Bool.false_eq_true, if_false]
        refine hupd a0 x0 a1 x1 _ _ och (hpos 0 a0 a1 x1 (by simp [hx0]) (by simp)) ?_ hp0
        rw [hx0]; exact law.cov_none x1
      | false =>
        simp only [Bool.not_false, if_true]
        exact hupd a0 x0 a1 x1 _ _ och (law.cov_all _ _) (law.cov_all _ _) hp0
    · exact zipItems_renders s law now treeAt upd mk P0 P1 hupd hmk r1 r0 orest
        (fun i a0' a1' x h0' h1' => hpos (i + 1) a0' a1' x (by simpa using h0') (by simpa using h1')) hrest

/-! ### keyed lists -/

theorem getItem_renders {P : V → V → Nodes V → Prop} : ∀ (its : List (V × V)) (items : Items V) (j : Nat) a x,
    rendersItems P its items → its[j]? = some (a, x) → ∃ b ch, getItem items j = some (b, x, ch) ∧ P a x ch
  | [], _, _, _, _, _, h => by simp at h
  | _ :: _, .nil, _, _, _, h0, _ => by simp [rendersItems] at h0
  | (a', x') :: r, .cons b ix ch rest, 0, a, x, h0, h => by
    obtain ⟨h1, h2, _⟩ := h0
    simp only [List.getElem?_cons_zero, Option.some.injEq, Prod.mk.injEq] at h
    obtain ⟨rfl, rfl⟩ := h
    exact ⟨b, ch, by simp [getItem, h1], h2⟩
  | (a', x') :: r, .cons b ix ch rest, j + 1, a, x, h0, h => by
    simp only [List.getElem?_cons_succ] at h
    simpa [getItem] using getItem_renders r rest j a x h0.2.2 h

theorem keyedItems_renders (s : Sem E V T) {cov : T → V → V → Prop} (law : Law s cov) (now : Nat) (ouk : List String) (oitems : Items V)
    (tr : String → V → T) (upd : V → V → T → T → Nodes V → Nodes V) (mk : V → V → Nodes V) (P0 P1 : V → V → Nodes V → Prop)
    (its0 : List (V × V))
    (hupd : ∀ a0 x0 a1 x1 ti tx och, cov ti a0 a1 → cov tx x0 x1 → P0 a0 x0 och → P1 a1 x1 (upd a1 x1 ti tx och))
    (hmk : ∀ a x, P1 a x (mk a x)) (h0 : rendersItems P0 its0 oitems) (hlen : ouk.length = its0.length) :
    ∀ (its : List (V × V)) (ks : List String), its.length = ks.length →
      (∀ (i : Nat) a1 x1 k, its[i]? = some (a1, x1) → ks[i]? = some k → ∀ a0 x0, ouk.idxOf k < ouk.length →
        its0[ouk.idxOf k]? = some (a0, x0) → cov (tr k x1) a0 a1) →
      rendersItems P1 its (keyedItems s now ouk oitems tr upd mk its ks)
  | [], [], _, _ => by simp [keyedItems, rendersItems]
  | [], _ :: _, h, _ => by simp at h
  | _ :: _, [], h, _ => by simp at h
  | (a1, x1) :: r, k :: ks, hl, htr => by
    have hrest := keyedItems_renders s law now ouk oitems tr upd mk P0 P1 its0 hupd hmk h0 hlen r ks (by simpa using hl)
      (fun i a1' x1' k' h1 h2 => htr (i + 1) a1' x1' k' (by simpa using h1) (by simpa using h2))
    simp only [keyedItems]
    cases hlk : lookupOld ouk oitems k with
    | none => exact ⟨rfl, hmk a1 x1, hrest⟩
    | some old =>
      obtain ⟨b, ox, och⟩ := old
      simp only [lookupOld] at hlk
      by_cases hj : ouk.idxOf k < ouk.length
      · simp only [hj, if_true] at hlk
        have hsome : its0[ouk.idxOf k]? = some its0[ouk.idxOf k] := List.getElem?_eq_getElem (by omega)
        obtain ⟨b', ch', hg, hp⟩ := getItem_renders its0 oitems _ _ _ h0 hsome
        rw [hlk] at hg
        simp only [Option.some.injEq, Prod.mk.injEq] at hg
        obtain ⟨rfl, hox, rfl⟩ := hg
        refine ⟨rfl, ?_, hrest⟩
        have hcov := htr 0 a1 x1 k (by simp) (by simp) _ _ hj hsome
        refine hupd _ _ a1 x1 _ _ och hcov ?_ hp
        cases hs : s.same x1 ox with
        | true =>
          have := law.same_eq _ _ hs
          simp only [if_true]
          rw [← hox, this]; exact law.cov_none _
        | false => simp only [Bool.false_eq_true, if_false]; exact law.cov_all _ _
      · simp only [hj, if_false] at hlk
        cases hlk

/-- the tree handed to a reused node covers the change from the item that node showed to the new item -/
theorem keyed_renders (s : Sem E V T) {cov : T → V → V → Prop} (law : Law s cov) (now : Nat) (key : String) (L : T) (l0 l1 : V)
    (hL : cov L l0 l1) (hnone : s.isNone L = false) (oraw : List String) (oitems : Items V)
    (hraw : oraw = (s.items l0).map (fun p => s.rawKey key p.1))
    (upd : V → V → T → T → Nodes V → Nodes V) (mk : V → V → Nodes V) (P0 P1 : V → V → Nodes V → Prop)
    (hupd : ∀ a0 x0 a1 x1 ti tx och, cov ti a0 a1 → cov tx x0 x1 → P0 a0 x0 och → P1 a1 x1 (upd a1 x1 ti tx och))
    (hmk : ∀ a x, P1 a x (mk a x)) (h0 : rendersItems P0 (s.items l0) oitems) :
    rendersItems P1 (s.items l1)
      (keyedItems s now (GE.Rlm.uniq oraw) oitems
        (itemTree s key L (s.anyMarked key L) (GE.Rlm.renamed oraw) (GE.Rlm.renamed ((s.items l1).map fun p => s.rawKey key p.1))) upd mk
        (s.items l1) (GE.Rlm.uniq ((s.items l1).map fun p => s.rawKey key p.1))) := by
  let rk : V × V → String := fun p => s.rawKey key p.1
  have hnraw : ∀ (i : Nat) (a1 x1 : V), (s.items l1)[i]? = some (a1, x1) → ((s.items l1).map rk)[i]? = some (s.rawKey key a1) := by
    intro i a1 x1 h; simp [rk, h]
  have horaw : ∀ (j : Nat) (a0 x0 : V), (s.items l0)[j]? = some (a0, x0) → oraw[j]? = some (s.rawKey key a0) := by
    intro j a0 x0 h; rw [hraw]; simp [h]
  refine keyedItems_renders s law now _ oitems _ upd mk P0 P1 (s.items l0) hupd hmk h0
    (by rw [GE.Rlm.uniq_length, hraw]; simp) _ _ (by rw [GE.Rlm.uniq_length]; simp) ?_
  intro i a1 x1 k hi hk a0 x0 hj hold
  have hm1 : (a1, x1) ∈ s.items l1 := List.mem_of_getElem? hi
  have hm0 : (a0, x0) ∈ s.items l0 := List.mem_of_getElem? hold
  -- the unique key of the reused old position is `k`
  have hkj : (GE.Rlm.uniq oraw)[(GE.Rlm.uniq oraw).idxOf k]? = some k := by
    rw [List.getElem?_eq_getElem hj]; exact congrArg some (List.getElem_idxOf hj)
  simp only [itemTree]
  by_cases hall : s.isAll L = true
  · simp only [hall, if_true]; exact law.cov_all _ _
  · simp only [hall, Bool.false_eq_true, if_false]
    have hall' : s.isAll L = false := by simpa using hall
    by_cases hneed : s.anyMarked key L = true
    · simp only [hneed, if_true]
      by_cases hren : k ∈ GE.Rlm.renamed oraw ∨ k ∈ GE.Rlm.renamed ((s.items l1).map rk)
      · simp only [rk] at hren
        simp only [hren, if_true]; exact law.cov_all _ _
      · have hren' : ¬ (k ∈ GE.Rlm.renamed oraw ∨ k ∈ GE.Rlm.renamed ((s.items l1).map fun p => s.rawKey key p.1)) := hren
        simp only [hren', if_false]
        simp only [not_or] at hren
        -- the reused node is the one of the same index, provided the subtree leaves the key alone
        have hsame : (subMark s key (s.child L x1) = .none ∨ subMark s key (s.child L x1) = .sub false) → (a0, x0) ∈ s.items l0 ∧ x0 = x1 := by
          intro hm
          obtain ⟨a0', hm0', hkey⟩ := law.key_kept key L l0 l1 hL hnone a1 x1 hm1 hm
          obtain ⟨p, hp⟩ := List.mem_iff_getElem?.mp hm0'
          -- new side: `k` is the raw key of position i, which occurs once
          have hnk := GE.Rlm.uniq_at _ i k hk
          rcases hnk with hnk | ⟨hnk, _⟩
          · exact absurd hnk hren.2
          · rw [hnraw i a1 x1 hi] at hnk
            have hk1 : s.rawKey key a1 = k := Option.some.inj hnk
            -- old side: the reused position has raw key `k`, which occurs once
            rcases GE.Rlm.uniq_at _ _ k hkj with hok | ⟨hok, hoc⟩
            · exact absurd hok hren.1
            · have hpk : oraw[p]? = some k := by rw [horaw p a0' x1 hp, hkey, hk1]
              have hpj : p = (GE.Rlm.uniq oraw).idxOf k := by
                rcases Nat.lt_trichotomy p ((GE.Rlm.uniq oraw).idxOf k) with h | h | h
                · have := GE.Rlm.two_le_count_of_two_positions h hpk hok; omega
                · exact h
                · have := GE.Rlm.two_le_count_of_two_positions h hok hpk; omega
              rw [← hpj, hp] at hold
              simp only [Option.some.injEq, Prod.mk.injEq] at hold
              exact ⟨hm0, hold.2.symm⟩
        cases hsm : subMark s key (s.child L x1) with
        | none =>
          obtain ⟨hm0', hx⟩ := hsame (Or.inl hsm)
          subst hx
          have hc := law.child L l0 l1 hL a0 a1 x0 hm0' hm1
          have hn : s.isNone (s.child L x0) = true := by
            simp only [subMark] at hsm
            by_cases h : s.isNone (s.child L x0) = true
            · exact h
            · simp only [h, Bool.false_eq_true, if_false] at hsm
              split at hsm <;> cases hsm
          exact law.none_cov _ _ _ hn hc
        | all => exact law.cov_all _ _
        | sub bm =>
          cases bm with
          | true => exact law.cov_all _ _
          | false =>
            obtain ⟨hm0', hx⟩ := hsame (Or.inr hsm)
            subst hx
            exact law.child L l0 l1 hL a0 a1 x0 hm0' hm1
    · have hneed' : s.anyMarked key L = false := by simpa using hneed
      simp only [hneed', Bool.false_eq_true, if_false]
      -- nothing marked: keys and indexes are positionwise the same, so the reused node is the one of position i
      have hst := law.keys_stable key L l0 l1 hL hall' hnone hneed'
      have hraws : oraw = (s.items l1).map rk := by
        rw [hraw]
        have := congrArg (List.map Prod.fst) hst
        simpa [rk, List.map_map, Function.comp_def] using this
      have hk' : (GE.Rlm.uniq oraw)[i]? = some k := by rw [hraws]; exact hk
      have hji : (GE.Rlm.uniq oraw).idxOf k = i := by
        have hlt : i < (GE.Rlm.uniq oraw).length := by
          by_cases h : i < (GE.Rlm.uniq oraw).length
          · exact h
          · rw [List.getElem?_eq_none (by omega)] at hk'; cases hk'
        have hki : (GE.Rlm.uniq oraw)[i] = k := by
          have h := List.getElem?_eq_getElem hlt
          rw [hk'] at h
          exact (Option.some.inj h).symm
        rw [← hki]; exact (GE.Rlm.uniq_nodup oraw).idxOf_getElem i hlt
      rw [hji] at hold
      have hidx : x0 = x1 := by
        have h1 := congrArg (fun l => l[i]?) hst
        simp only [List.getElem?_map, hold, hi, Option.map_some, Option.some.injEq, Prod.mk.injEq] at h1
        exact h1.2
      subst hidx
      exact law.child L l0 l1 hL a0 a1 x0 hm0 hm1

mutual
theorem update_renders (s : Sem E V T) {cov : T → V → V → Prop} (law : Law s cov) (now : Nat) (D0 D1 : V) (U : T) (hU : cov U D0 D1) :
    ∀ (t : Tpl E) (n : Node V) (sc0 sc1 : List V) (su : List T), CovL cov su sc0 sc1 →
      renders s D0 sc0 t n → renders s D1 sc1 t (update s now D1 sc1 U su t n)
  | .text e, .text b old, sc0, sc1, su, hsu, h => by
    simp only [renders] at h
    simp only [update, renders]
    cases hd : s.dirty e U su with
    | true => simp
    | false => simp [h, law.guard e D0 D1 sc0 sc1 U su hU hsu hd]
  | .elem tag attrs ch, .elem b tag' old och, sc0, sc1, su, hsu, h => by
    obtain ⟨h1, h2, h3⟩ := h
    simp only [update, renders]
    refine ⟨h1, ?_, update_rendersL s law now D0 D1 U hU ch och sc0 sc1 su hsu h3⟩
    rw [h2]; exact updAttrs_eq s law hU hsu attrs
  | .block inc ch, .virt b och, sc0, sc1, su, hsu, h => by
    simp only [update, renders]
    cases inc with
    | false => exact update_rendersL s law now D0 D1 U hU ch och sc0 sc1 su hsu h
    | true => exact update_rendersL s law now D0 D1 U hU ch och [] [] [] trivial h
  | .cond bs, .ifn b k och, sc0, sc1, su, hsu, h => by
    obtain ⟨h1, h2⟩ := h
    simp only [update]
    split
    · rename_i hk
      exact ⟨hk.symm, update_rendersBr s law now D0 D1 U hU bs k 1 och sc0 sc1 su hsu h2⟩
    · exact ⟨rfl, createBr_renders s now D1 sc1 bs _ 1⟩
  | .loop l body, .forn b oitems, sc0, sc1, su, hsu, h => by
    simp only [update, renders]
    simp only [renders] at h
    refine zipItems_renders s law now (s.child (s.treeOf l U su)) _ _
      (fun a x nch => rendersL s D0 (sc0 ++ [a, x]) body nch) (fun a x nch => rendersL s D1 (sc1 ++ [a, x]) body nch)
      (fun a0 x0 a1 x1 ti tx och hti htx hp =>
        update_rendersL s law now D0 D1 U hU body och (sc0 ++ [a0, x0]) (sc1 ++ [a1, x1]) (su ++ [ti, tx])
          (CovL.append hsu ⟨hti, htx, trivial⟩) hp)
      (fun a x => createL_renders s now D1 (sc1 ++ [a, x]) body) _ _ oitems
      (fun i a0 a1 x h0 h1 => law.child _ _ _ (law.tree l D0 D1 sc0 sc1 U su hU hsu) a0 a1 x
        (List.mem_of_getElem? h0) (List.mem_of_getElem? h1)) h
  | .loopK l key body, .fornK b oraw oitems, sc0, sc1, su, hsu, h => by
    obtain ⟨hraw, hits⟩ := h
    have hL := law.tree l D0 D1 sc0 sc1 U su hU hsu
    have hupd : ∀ a0 x0 a1 x1 ti tx och, cov ti a0 a1 → cov tx x0 x1 → rendersL s D0 (sc0 ++ [a0, x0]) body och →
        rendersL s D1 (sc1 ++ [a1, x1]) body (updateL s now D1 (sc1 ++ [a1, x1]) U (su ++ [ti, tx]) body och) :=
      fun a0 x0 a1 x1 ti tx och hti htx hp =>
        update_rendersL s law now D0 D1 U hU body och (sc0 ++ [a0, x0]) (sc1 ++ [a1, x1]) (su ++ [ti, tx])
          (CovL.append hsu ⟨hti, htx, trivial⟩) hp
    have hmk : ∀ a x, rendersL s D1 (sc1 ++ [a, x]) body (createL s now D1 (sc1 ++ [a, x]) body) :=
      fun a x => createL_renders s now D1 (sc1 ++ [a, x]) body
    simp only [update]
    split
    · -- the list's tree is `undefined`: the list is unchanged, positions are matched one by one
      rename_i hnone
      refine ⟨rfl, ?_⟩
      exact zipItems_renders s law now (fun _ => s.none) _ _
        (fun a x nch => rendersL s D0 (sc0 ++ [a, x]) body nch) (fun a x nch => rendersL s D1 (sc1 ++ [a, x]) body nch)
        hupd hmk _ _ oitems (fun i a0 a1 x h0 h1 => law.none_items _ _ _ hnone hL i a0 a1 x h0 h1) hits
    · rename_i hnone
      refine ⟨rfl, ?_⟩
      exact keyed_renders s law now key (s.treeOf l U su) _ _ hL (by simpa using hnone) oraw oitems hraw _ _
        (fun a x nch => rendersL s D0 (sc0 ++ [a, x]) body nch) (fun a x nch => rendersL s D1 (sc1 ++ [a, x]) body nch) hupd hmk hits
  -- a node of another kind does not render the template
  | .tref is fields cases, .tnode b k och, sc0, sc1, su, hsu, h => by
    obtain ⟨hk, hch⟩ := h
    simp only [update]
    split
    · rename_i hs
      have hkk : s.eval is D1 sc1 = k := law.same_eq _ _ hs
      refine ⟨hkk.symm, ?_⟩
      rw [hkk]
      exact update_rendersT s law now _ _ _ (law.mk_cov fields D0 D1 sc0 sc1 U su hU hsu) cases (selOf s k) och hch
    · exact ⟨rfl, createT_renders s now _ cases _⟩
  | .text _, .elem .., _, _, _, _, h | .text _, .virt .., _, _, _, _, h | .text _, .ifn .., _, _, _, _, h
  | .text _, .forn .., _, _, _, _, h | .text _, .fornK .., _, _, _, _, h | .text _, .tnode .., _, _, _, _, h => by simp [renders] at h
  | .elem .., .text .., _, _, _, _, h | .elem .., .virt .., _, _, _, _, h | .elem .., .ifn .., _, _, _, _, h
  | .elem .., .forn .., _, _, _, _, h | .elem .., .fornK .., _, _, _, _, h | .elem .., .tnode .., _, _, _, _, h => by simp [renders] at h
  | .block _ _, .text .., _, _, _, _, h | .block _ _, .elem .., _, _, _, _, h | .block _ _, .ifn .., _, _, _, _, h
  | .block _ _, .forn .., _, _, _, _, h | .block _ _, .fornK .., _, _, _, _, h | .block _ _, .tnode .., _, _, _, _, h => by simp [renders] at h
  | .cond _, .text .., _, _, _, _, h | .cond _, .elem .., _, _, _, _, h | .cond _, .virt .., _, _, _, _, h
  | .cond _, .forn .., _, _, _, _, h | .cond _, .fornK .., _, _, _, _, h | .cond _, .tnode .., _, _, _, _, h => by simp [renders] at h
  | .loop .., .text .., _, _, _, _, h | .loop .., .elem .., _, _, _, _, h | .loop .., .virt .., _, _, _, _, h
  | .loop .., .ifn .., _, _, _, _, h | .loop .., .fornK .., _, _, _, _, h | .loop .., .tnode .., _, _, _, _, h => by simp [renders] at h
  | .loopK .., .text .., _, _, _, _, h | .loopK .., .elem .., _, _, _, _, h | .loopK .., .virt .., _, _, _, _, h
  | .loopK .., .ifn .., _, _, _, _, h | .loopK .., .forn .., _, _, _, _, h | .loopK .., .tnode .., _, _, _, _, h => by simp [renders] at h
  | .tref .., .text .., _, _, _, _, h | .tref .., .elem .., _, _, _, _, h | .tref .., .virt .., _, _, _, _, h
  | .tref .., .ifn .., _, _, _, _, h | .tref .., .forn .., _, _, _, _, h | .tref .., .fornK .., _, _, _, _, h => by simp [renders] at h
theorem update_rendersL (s : Sem E V T) {cov : T → V → V → Prop} (law : Law s cov) (now : Nat) (D0 D1 : V) (U : T) (hU : cov U D0 D1) :
    ∀ (ts : Tpls E) (ns : Nodes V) (sc0 sc1 : List V) (su : List T), CovL cov su sc0 sc1 →
      rendersL s D0 sc0 ts ns → rendersL s D1 sc1 ts (updateL s now D1 sc1 U su ts ns)
  | .nil, .nil, _, _, _, _, _ => trivial
  | .nil, .cons .., _, _, _, _, h => by simp [rendersL] at h
  | .cons .., .nil, _, _, _, _, h => by simp [rendersL] at h
  | .cons t r, .cons n ns, sc0, sc1, su, hsu, h =>
    ⟨update_renders s law now D0 D1 U hU t n sc0 sc1 su hsu h.1, update_rendersL s law now D0 D1 U hU r ns sc0 sc1 su hsu h.2⟩
theorem update_rendersBr (s : Sem E V T) {cov : T → V → V → Prop} (law : Law s cov) (now : Nat) (D0 D1 : V) (U : T) (hU : cov U D0 D1) :
    ∀ (bs : Branches E) (k i : Nat) (och : Nodes V) (sc0 sc1 : List V) (su : List T), CovL cov su sc0 sc1 →
      rendersBr s D0 sc0 bs k i och → rendersBr s D1 sc1 bs k i (updateBr s now D1 sc1 U su bs k i och)
  | .last he els, k, i, och, sc0, sc1, su, hsu, h => by
    simp only [rendersBr] at h
    simp only [rendersBr, updateBr]
    split
    · rename_i hc
      simp only [hc, if_true] at h
      exact update_rendersL s law now D0 D1 U hU els och sc0 sc1 su hsu h
    · rfl
  | .cons _ body r, k, i, och, sc0, sc1, su, hsu, h => by
    simp only [rendersBr] at h
    simp only [rendersBr, updateBr]
    split
    · rename_i hc
      simp only [hc, if_true] at h
      exact update_rendersL s law now D0 D1 U hU body och sc0 sc1 su hsu h
    · rename_i hc
      simp only [hc, if_false] at h
      exact update_rendersBr s law now D0 D1 U hU r k (i + 1) och sc0 sc1 su hsu h
theorem update_rendersT (s : Sem E V T) {cov : T → V → V → Prop} (law : Law s cov) (now : Nat) (D0 D1 : V) (U : T) (hU : cov U D0 D1) :
    ∀ (cs : TCases E) (sel : Option String) (och : Nodes V), rendersT s D0 cs sel och → rendersT s D1 cs sel (updateT s now D1 U cs sel och)
  | .nil, _, _, _ => rfl
  | .cons name body r, sel, och, h => by
    simp only [rendersT] at h
    simp only [rendersT, updateT]
    split
    · rename_i hc
      simp only [hc, if_true] at h
      exact update_rendersL s law now D0 D1 U hU body och [] [] [] trivial h
    · rename_i hc
      simp only [hc, if_false] at h
      exact update_rendersT s law now D0 D1 U hU r sel och h
end


/-! ## a rendering is determined up to creation times -/

theorem rendersItems_shape {p : V → V → Nodes V → Prop} {mk : V → V → Nodes V} (h : ∀ a x nch, p a x nch → nch.shape = (mk a x).shape) :
    ∀ (its : List (V × V)) (items : Items V), rendersItems p its items → items.shape = (mkItems 0 mk its).shape
  | [], .nil, _ => rfl
  | [], .cons .., h0 => by simp [rendersItems] at h0
  | _ :: _, .nil, h0 => by simp [rendersItems] at h0
  | (a, x) :: r, .cons b ix ch rest, h0 => by
    obtain ⟨h1, h2, h3⟩ := h0
    simp only [mkItems, Items.shape, h1, h a x ch h2, rendersItems_shape h r rest h3]

mutual
theorem renders_shape (s : Sem E V T) (D : V) : ∀ (t : Tpl E) (n : Node V) (sc : List V), renders s D sc t n → n.shape = (create s 0 D sc t).shape
  | .text e, .text b str, sc, h => by simp only [renders] at h; simp [create, Node.shape, h]
  | .elem tag attrs ch, .elem b tag' vs nch, sc, h => by
    obtain ⟨h1, h2, h3⟩ := h
    simp only [create, Node.shape, h1, h2, rendersL_shape s D ch nch sc h3]
  | .block inc ch, .virt b nch, sc, h => by simp only [create, Node.shape, rendersL_shape s D ch nch (if inc then [] else sc) h]
  | .cond bs, .ifn b k nch, sc, h => by
    obtain ⟨h1, h2⟩ := h
    simp only [create, Node.shape, h1]
    rw [rendersBr_shape s D bs _ 1 nch sc (h1 ▸ h2)]
  | .loop l body, .forn b items, sc, h => by
    simp only [renders] at h
    simp only [create, Node.shape]
    rw [rendersItems_shape (fun a x nch hp => rendersL_shape s D body nch (sc ++ [a, x]) hp) _ items h]
  | .loopK l key body, .fornK b raw items, sc, h => by
    obtain ⟨h1, h2⟩ := h
    simp only [create, Node.shape, h1]
    rw [rendersItems_shape (fun a x nch hp => rendersL_shape s D body nch (sc ++ [a, x]) hp) _ items h2]
  | .tref is fields cases, .tnode b k nch, sc, h => by
    obtain ⟨h1, h2⟩ := h
    simp only [create, Node.shape, h1]
    rw [rendersT_shape s _ cases _ nch (h1 ▸ h2)]
  | .text _, .elem .., _, h | .text _, .virt .., _, h | .text _, .ifn .., _, h
  | .text _, .forn .., _, h | .text _, .fornK .., _, h | .text _, .tnode .., _, h => by simp [renders] at h
  | .elem .., .text .., _, h | .elem .., .virt .., _, h | .elem .., .ifn .., _, h
  | .elem .., .forn .., _, h | .elem .., .fornK .., _, h | .elem .., .tnode .., _, h => by simp [renders] at h
  | .block _ _, .text .., _, h | .block _ _, .elem .., _, h | .block _ _, .ifn .., _, h
  | .block _ _, .forn .., _, h | .block _ _, .fornK .., _, h | .block _ _, .tnode .., _, h => by simp [renders] at h
  | .cond _, .text .., _, h | .cond _, .elem .., _, h | .cond _, .virt .., _, h
  | .cond _, .forn .., _, h | .cond _, .fornK .., _, h | .cond _, .tnode .., _, h => by simp [renders] at h
  | .loop .., .text .., _, h | .loop .., .elem .., _, h | .loop .., .virt .., _, h
  | .loop .., .ifn .., _, h | .loop .., .fornK .., _, h | .loop .., .tnode .., _, h => by simp [renders] at h
  | .loopK .., .text .., _, h | .loopK .., .elem .., _, h | .loopK .., .virt .., _, h
  | .loopK .., .ifn .., _, h | .loopK .., .forn .., _, h | .loopK .., .tnode .., _, h => by simp [renders] at h
  | .tref .., .text .., _, h | .tref .., .elem .., _, h | .tref .., .virt .., _, h
  | .tref .., .ifn .., _, h | .tref .., .forn .., _, h | .tref .., .fornK .., _, h => by simp [renders] at h
theorem rendersL_shape (s : Sem E V T) (D : V) : ∀ (ts : Tpls E) (ns : Nodes V) (sc : List V), rendersL s D sc ts ns →
    ns.shape = (createL s 0 D sc ts).shape
  | .nil, .nil, _, _ => rfl
  | .nil, .cons .., _, h => by simp [rendersL] at h
  | .cons .., .nil, _, h => by simp [rendersL] at h
  | .cons t r, .cons n ns, sc, h => by
    simp only [createL, Nodes.shape, renders_shape s D t n sc h.1, rendersL_shape s D r ns sc h.2]
theorem rendersBr_shape (s : Sem E V T) (D : V) : ∀ (bs : Branches E) (k i : Nat) (nch : Nodes V) (sc : List V), rendersBr s D sc bs k i nch →
    nch.shape = (createBr s 0 D sc bs k i).shape
  | .last he els, k, i, nch, sc, h => by
    simp only [rendersBr] at h
    simp only [createBr]
    split
    · rename_i hc
      simp only [hc, if_true] at h
      exact rendersL_shape s D els nch sc h
    · rename_i hc
      simp only [hc] at h
      simp at h
      rw [h]
  | .cons _ body r, k, i, nch, sc, h => by
    simp only [rendersBr] at h
    simp only [createBr]
    split
    · rename_i hc
      simp only [hc, if_true] at h
      exact rendersL_shape s D body nch sc h
    · rename_i hc
      simp only [hc] at h
      exact rendersBr_shape s D r k (i + 1) nch sc (by simpa using h)
theorem rendersT_shape (s : Sem E V T) (D : V) : ∀ (cs : TCases E) (sel : Option String) (nch : Nodes V), rendersT s D cs sel nch →
    nch.shape = (createT s 0 D cs sel).shape
  | .nil, _, nch, h => by simp only [rendersT] at h; rw [h]; rfl
  | .cons name body r, sel, nch, h => by
    simp only [rendersT] at h
    simp only [createT]
    split
    · rename_i hc
      simp only [hc, if_true] at h
      exact rendersL_shape s D body nch [] h
    · rename_i hc
      simp only [hc, if_false] at h
      exact rendersT_shape s D r sel nch h
end

/-! ## the property -/

/-- one update: the updated tree is, up to creation times, the tree of a fresh creation with the new data -/
theorem update_refines (s : Sem E V T) {cov : T → V → V → Prop} (law : Law s cov) (t : Tpl E) (now : Nat) (D0 D1 : V) (U : T)
    (hU : cov U D0 D1) (n : Node V) (hn : renders s D0 [] t n) :
    (update s now D1 [] U [] t n).shape = (create s 0 D1 [] t).shape :=
  renders_shape s D1 t _ [] (update_renders s law now D0 D1 U hU t n [] [] [] trivial hn)

/-- a history of updates `(Di, Ui)`, each tree covering the difference with the data before it -/
def runUpdates (s : Sem E V T) (t : Tpl E) : Nat → Node V → List (V × T) → Node V
  | _, n, [] => n
  | now, n, (D, U) :: r => runUpdates s t (now + 1) (update s now D [] U [] t n) r

def Covered (cov : T → V → V → Prop) : V → List (V × T) → Prop
  | _, [] => True
  | D0, (D1, U) :: r => cov U D0 D1 ∧ Covered cov D1 r

def lastData : V → List (V × T) → V
  | D0, [] => D0
  | _, (D1, _) :: r => lastData D1 r

theorem runUpdates_renders (s : Sem E V T) {cov : T → V → V → Prop} (law : Law s cov) (t : Tpl E) :
    ∀ (steps : List (V × T)) (now : Nat) (D0 : V) (n : Node V), Covered cov D0 steps → renders s D0 [] t n →
      renders s (lastData D0 steps) [] t (runUpdates s t now n steps)
  | [], _, _, _, _, hn => hn
  | (D1, U) :: r, now, D0, n, hc, hn =>
    runUpdates_renders s law t r (now + 1) D1 _ hc.2 (update_renders s law now D0 D1 U hc.1 t n [] [] [] trivial hn)

/-- C06 at the tag level: after creation with `D0` and any number of updates whose trees cover the successive differences, the tree
is, up to creation times, the tree of a fresh creation with the last data -/
theorem updates_refine (s : Sem E V T) {cov : T → V → V → Prop} (law : Law s cov) (t : Tpl E) (D0 : V) (steps : List (V × T))
    (hc : Covered cov D0 steps) :
    (runUpdates s t 1 (create s 0 D0 [] t) steps).shape = (create s 0 (lastData D0 steps) [] t).shape :=
  renders_shape s _ t _ [] (runUpdates_renders s law t steps 1 D0 _ hc (create_renders s 0 D0 [] t))

/-! ## non-vacuity: an instance of `Law`, and a history in which a reused `wx:if` node is updated in place -/

/-- values are numbers; an expression is a data-independent constant or "the data"; trees say "changed" or not; a list of `n` items -/
def toySem : Sem Bool Nat Bool where
  eval := fun e D _ => if e then D else 7
  truthy := fun v => v != 0
  str := fun v => if v == 7 then "c" else if v == 3 then "3" else "d"
  items := fun v => (List.range v).map fun i => (i, i)
  same := fun a b => a == b
  all := true
  none := false
  dirty := fun e U _ => e && U
  treeOf := fun e U _ => e && U
  child := fun L _ => L
  rawKey := fun _ _ => ""
  isAll := fun t => t
  isNone := fun t => !t
  keyMarks := fun _ t => t
  anyMarked := fun _ t => t
  reads := fun e _ => e
  keyStr := fun v => if v == 0 then "z" else "t"
  mkObj := fun l => (l.map (·.2)).sum
  mkTree := fun U _ => U

def toyCov (t : Bool) (a b : Nat) : Prop := t = true ∨ a = b

theorem toyLaw : Law toySem toyCov where
  cov_all := fun _ _ => Or.inl rfl
  cov_none := fun _ => Or.inr rfl
  same_eq := fun a b h => by simpa [toySem] using h
  guard := by
    intro e D0 D1 sc0 sc1 U su hU _ hd
    cases e with
    | false => rfl
    | true =>
      simp only [toySem, Bool.true_and] at hd
      rcases hU with h | h
      · simp [hd] at h
      · simp [toySem, h]
  tree := by
    intro e D0 D1 sc0 sc1 U su hU _
    cases e with
    | false => exact Or.inr rfl
    | true =>
      rcases hU with h | h
      · exact Or.inl (by simp [toySem, h])
      · exact Or.inr (by simp [toySem, h])
  child := by
    intro L l0 l1 h a0 a1 x h0 h1
    rcases h with h | h
    · exact Or.inl h
    · subst h
      simp only [toySem, List.mem_map, List.mem_range, Prod.mk.injEq] at h0 h1
      obtain ⟨i, _, rfl, rfl⟩ := h0
      obtain ⟨j, _, rfl, hj⟩ := h1
      exact Or.inr hj.symm
  none_cov := by
    intro t a b ht h
    rcases h with h | h
    · simp [toySem, h] at ht
    · exact Or.inr h
  none_items := by
    intro L l0 l1 ht h i a0 a1 x h0 h1
    rcases h with h | h
    · simp [toySem, h] at ht
    · subst h
      rw [h0] at h1
      exact Or.inr (by cases h1; rfl)
  key_kept := by
    intro key L l0 l1 h _ a1 x hm hs
    have hL : L = false := by
      simp only [subMark, toySem] at hs
      cases L with
      | false => rfl
      | true => simp at hs
    rcases h with h | h
    · simp [hL] at h
    · exact ⟨a1, h ▸ hm, rfl⟩
  keys_stable := by
    intro key L l0 l1 _ h1 h2 _
    cases L <;> simp [toySem] at h1 h2
  mk_cov := by
    intro fs D0 D1 sc0 sc1 U su hU _
    rcases hU with h | h
    · exact Or.inl (by simp [toySem, h])
    · subst h
      exact Or.inr (by simp [toySem, evalAttrs])

/-- `<view wx:if="{{d}}">{{d}}</view><block wx:for="{{d}}">x</block>`: 2 → 3 keeps the branch (its text is rewritten in place) and grows the list -/
example :
    let t : Tpl Bool := .block false (.cons (.cond (.cons true (.cons (.elem "view" [] (.cons (.text true) .nil)) .nil) (.last false .nil)))
      (.cons (.loop true (.cons (.text false) .nil)) .nil))
    update toySem 1 3 [] true [] t (create toySem 0 2 [] t) =
      .virt 0 (.cons (.ifn 0 1 (.cons (.elem 0 "view" [] (.cons (.text 0 "3") .nil)) .nil))
        (.cons (.forn 0 (.cons 0 0 (.cons (.text 0 "c") .nil) (.cons 0 1 (.cons (.text 0 "c") .nil) (.cons 1 2 (.cons (.text 1 "c") .nil) .nil)))) .nil)) := by
  rfl

end GE.TagSem
