"""C19 — stylesheet source maps point each output token at its source token (DESIGN.md §9 C19)."""
from . import csscheck

THEOREMS = ["GE.CssOut.utf16_len_invariant", "GE.CssOut.dst_col_exact", "GE.CssOut.entries_nondecreasing", "GE.CssOut.output_shape_ok"]


def run(chk):
    chk.rule = ("generated multi-line stylesheets with multi-byte characters and every rewrite kind x option sets; (1) model vs implementation: "
                "source positions and names of every source-map entry of both outputs; (2) oracle: for each entry the token at the generated "
                "column corresponds to the token at the source position, names carry the original spelling, entries non-decreasing, map survives JSON")
    chk.trusted = csscheck.TRUSTED
    chk.assumptions = ["utf16_len_invariant / dst_col_exact: the column recorded for a token equals the UTF-16 length of everything written before "
                       "it, for every sequence of writes (GE/Model/CssOutput.lean; that StylesheetOutputWriter has this shape is the extracted "
                       "obligation output_shape_ok); source positions are tied by correspondence; PARTIAL: serde/sourcemap crate's VLQ encoding is trusted, "
                       "checked by the oracle's JSON round trip"]
    csscheck.run_property(chk, "C19", "GE.Thm.C19", THEOREMS, 600, 10000)


def replay(chk, path):
    return csscheck.replay(chk, "C19", path)
