use crate::codec::*;
use glass_easel_template_compiler as tc;
use glass_easel_stylesheet_compiler as sc;

pub fn dispatch(fs: &[String]) -> String {
    let op = fs.get(0).map(|s| s.as_str()).unwrap_or("");
    let a = |i: usize| fs.get(i).map(|s| s.as_str()).unwrap_or("");
    match op {
        "path_normalize" => esc(&tc::verif_hooks::path_normalize(a(1))),
        "path_resolve" => esc(&tc::verif_hooks::path_resolve(a(1), a(2))),
        "var_name" => esc(&tc::verif_hooks::get_var_name(a(1).parse().unwrap())),
        "lit_str" => esc(&tc::verif_hooks::gen_lit_str(a(1))),
        "dash_camel" => esc(&tc::verif_hooks::dash_to_camel(a(1))),
        "esc_body" => esc(&tc::verif_hooks::escape_html_body(a(1))),
        "esc_quote" => esc(&tc::verif_hooks::escape_html_quote(a(1))),
        "entity" => match tc::verif_hooks::entities_decode(a(1)) {
            Some(s) => format!("some\t{}", esc(&s)),
            None => "none".to_string(),
        },
        "next_var_name" => {
            let (n, id) = tc::verif_hooks::next_var_name(a(1).parse().unwrap());
            format!("{}\t{}", esc(&n), id)
        }
        "lit_str_range" => {
            let lo: u32 = a(1).parse().unwrap();
            let hi: u32 = a(2).parse().unwrap();
            let mut outs = vec![];
            for v in lo..hi {
                if let Some(c) = char::from_u32(v) {
                    outs.push(tc::verif_hooks::gen_lit_str(&format!("{}{}{}", a(3), c, a(4))));
                }
            }
            esc(&outs.join("\u{1f}"))
        }
        "expr" => expr_op(a(1), a(2), a(3) == "1"),
        "subexprs" => {
            let (e, _w, _i, _p) = tc::verif_hooks::verif_parse_expr(a(1), false);
            match e {
                None => "none".to_string(),
                Some(e) => esc(&e.sub_expressions().map(|x| crate::dump::expr(x, false)).collect::<Vec<_>>().join("\u{1f}")),
            }
        }
        "convert" => {
            let (e, _w, _i, _p) = tc::verif_hooks::verif_parse_expr(a(1), false);
            match e {
                None => "none".to_string(),
                Some(mut e) => {
                    let names: Vec<&str> = a(2).split(',').filter(|x| !x.is_empty()).collect();
                    tc::verif_hooks::verif_convert_scopes(&mut e, &names);
                    esc(&crate::dump::expr(&e, false))
                }
            }
        }
        "bmc" => {
            let ops: Vec<&str> = fs[1..].iter().map(|x| x.as_str()).collect();
            let (adds, mut fields) = tc::verif_hooks::verif_run_collector(&ops);
            fields.sort();
            format!(
                "{}\t{}",
                adds.iter().map(|x| x.map(|v| v.to_string()).unwrap_or("-".to_string())).collect::<Vec<_>>().join(","),
                fields.iter().map(|(k, n)| format!("{}:{}", esc(k), n)).collect::<Vec<_>>().join(",")
            )
        }
        "css" => crate::cssops::css(a(1), a(2)),
        "css_septable" => crate::cssops::septable(),
        "group" => group(a(1)),
        "writer_trace" => writer_trace(a(1), a(2), a(3)),
        "total" => total(a(1), a(2), a(3), a(4) == "1"),
        "expr_str" => {
            // the real stringifier on the single binding `{{ src }}` (text node): what is printed between the braces
            use tc::stringify::Stringify;
            let text = format!("{{{{ {} }}}}", a(1));
            let (template, _ps) = tc::parse::parse("p", &text);
            let mut st = tc::stringify::Stringifier::new(String::new(), "p", &text);
            template.stringify_write(&mut st).unwrap();
            let (out, _) = st.finish();
            match out.strip_prefix("{{").and_then(|x| x.strip_suffix("}}")) {
                Some(x) => esc(x),
                None => format!("not-a-single-binding\t{}", esc(&out)),
            }
        }
        "static_value" => {
            // the text/attribute value parser on plain text: the decoded static string (`dynamic` if it contains a binding)
            let (v, _w, _i, _p) = tc::verif_hooks::verif_parse_value(a(1));
            match v {
                tc::parse::tag::Value::Static { value, .. } => esc(&value),
                _ => "dynamic".to_string(),
            }
        }
        "mix_value" => {
            // the real value parser on `src`: its pieces (static text / binding with the printed expression), and the real value printer
            use tc::parse::expr::Expression;
            use tc::parse::tag::Value;
            use tc::stringify::Stringify;
            fn print_expr(e: &Expression, src: &str) -> String {
                let mut st = tc::stringify::Stringifier::new(String::new(), "p", src);
                e.stringify_write(&mut st).unwrap();
                st.finish().0
            }
            fn is_piece(e: &Expression) -> bool {
                match e {
                    Expression::ToStringWithoutUndefined { .. } | Expression::LitStr { .. } => true,
                    Expression::Plus { left, right, .. } => is_piece(left) && is_piece(right),
                    _ => false,
                }
            }
            fn pieces(e: &Expression, src: &str, out: &mut Vec<String>) {
                match e {
                    Expression::LitStr { value, .. } => out.push(format!("T{}", value)),
                    Expression::ToStringWithoutUndefined { value, .. } => out.push(format!("B{}", print_expr(value, src))),
                    Expression::Plus { left, right, .. } if is_piece(left) && is_piece(right) => {
                        pieces(left, src, out);
                        pieces(right, src, out);
                    }
                    other => out.push(format!("B{}", print_expr(other, src))),
                }
            }
            let src = a(1);
            let (v, _w, _i, _p) = tc::verif_hooks::verif_parse_value(src);
            let mut out = vec![];
            match &v {
                Value::Static { value, .. } => {
                    if !value.is_empty() {
                        out.push(format!("T{}", value));
                    }
                }
                // (a value that is one string literal binding, `{{ " " }}`, is told apart from static text: piece `L`)
                Value::Dynamic { expression, .. } => match &**expression {
                    Expression::LitStr { value, .. } => out.push(format!("L{}", value)),
                    e => pieces(e, src, &mut out),
                },
                _ => out.push("?".to_string()),
            }
            let mut st = tc::stringify::Stringifier::new(String::new(), "p", src);
            v.stringify_write(&mut st).unwrap();
            format!("{}\t{}", esc(&out.join("\u{1}")), esc(&st.finish().0))
        }
        "positions" => {
            // steps: comma separated: `0` = next(), `w` = skip_whitespace(), n = skip_bytes(n)
            let steps: Vec<usize> = a(2)
                .split(',')
                .filter(|x| !x.is_empty())
                .map(|x| if x == "w" { usize::MAX } else { x.parse().unwrap_or(0) })
                .collect();
            tc::verif_hooks::verif_positions(a(1), &steps)
                .iter()
                .map(|(p, i)| format!("{}:{}:{}", p.line, p.utf16_col, i))
                .collect::<Vec<_>>()
                .join(" ")
        }
        "ast_locs" => crate::astdump::ast_locs(a(1)),
        "tmpl_scopes" => crate::scopedump::tmpl_scopes(a(1)),
        "tag_tree" => crate::treedump::tag_tree(a(1)),
        "strmap" => crate::astdump::strmap(a(1), a(2) == "1"),
        _ => "bad-op".to_string(),
    }
}

use serde_json::{json, Value};

fn level_num(l: tc::parse::ParseErrorLevel) -> u8 {
    l as u8
}

pub fn warn_json(w: &tc::parse::ParseError) -> Value {
    json!([
        w.path,
        w.code(),
        level_num(w.level()),
        w.location.start.line,
        w.location.start.utf16_col,
        w.location.end.line,
        w.location.end.utf16_col,
        w.kind.to_string()
    ])
}

/// `group` op: field 1 is JSON {"files":[[path,src]..],"scripts":[[path,src]..],"extra":str?,"dev":bool?}
pub fn group(req: &str) -> String {
    let v: Value = serde_json::from_str(req).expect("bad json");
    let mut g = if v["dev"].as_bool().unwrap_or(false) {
        tc::TmplGroup::new_dev()
    } else {
        tc::TmplGroup::new()
    };
    let mut warnings = vec![];
    let mut paths = vec![];
    for f in v["files"].as_array().unwrap_or(&vec![]) {
        let p = f[0].as_str().unwrap();
        let s = f[1].as_str().unwrap();
        for w in g.add_tmpl(p, s) {
            warnings.push(warn_json(&w));
        }
        paths.push(p.to_string());
    }
    for f in v["scripts"].as_array().unwrap_or(&vec![]) {
        g.add_script(f[0].as_str().unwrap(), f[1].as_str().unwrap());
    }
    if let Some(x) = v["extra"].as_str() {
        g.set_extra_runtime_script(x);
    }
    // groups to import (each {"files":[..],"scripts":[..]}), built separately and merged with import_group
    for sub in v["imports"].as_array().unwrap_or(&vec![]) {
        let mut sg = tc::TmplGroup::new();
        for f in sub["files"].as_array().unwrap_or(&vec![]) {
            let p = f[0].as_str().unwrap();
            for w in sg.add_tmpl(p, f[1].as_str().unwrap()) {
                warnings.push(warn_json(&w));
            }
            paths.push(p.to_string());
        }
        for f in sub["scripts"].as_array().unwrap_or(&vec![]) {
            sg.add_script(f[0].as_str().unwrap(), f[1].as_str().unwrap());
        }
        g.import_group(&sg);
    }
    let mut per = serde_json::Map::new();
    let mut deps = serde_json::Map::new();
    let mut sdeps = serde_json::Map::new();
    let mut strs = serde_json::Map::new();
    let mut inline = serde_json::Map::new();
    for p in paths.iter() {
        per.insert(
            p.clone(),
            match g.get_tmpl_gen_object(p) {
                Ok(s) => json!(s),
                Err(e) => json!({"err": e.message}),
            },
        );
        if let Ok(d) = g.direct_dependencies(p) {
            deps.insert(p.clone(), json!(d.collect::<Vec<_>>()));
        }
        if let Ok(d) = g.script_dependencies(p) {
            sdeps.insert(p.clone(), json!(d.collect::<Vec<_>>()));
        }
        if let Ok(d) = g.inline_script_module_names(p) {
            let names: Vec<String> = d.map(|x| x.to_string()).collect();
            let mut m = serde_json::Map::new();
            for n in names.iter() {
                if let Ok(c) = g.inline_script_content(p, n) {
                    m.insert(n.clone(), json!(c));
                }
            }
            inline.insert(p.clone(), Value::Object(m));
        }
        strs.insert(p.clone(), json!(g.stringify_tmpl(p)));
    }
    let e = |r: Result<String, tc::TmplError>| match r {
        Ok(s) => json!(s),
        Err(e) => json!({"err": e.message}),
    };
    let out = json!({
        "warnings": warnings,
        "order": g.list_template_trees().map(|(k, _)| k.to_string()).collect::<Vec<_>>(),
        "per": per,
        "deps": deps,
        "script_deps": sdeps,
        "inline_modules": inline,
        "stringify": strs,
        "gen_groups": e(g.get_tmpl_gen_object_groups()),
        "wx_groups": e(g.get_wx_gen_object_groups()),
        "runtime": g.get_runtime_string(),
        "globals": e(g.export_globals()),
        "all_scripts": e(g.export_all_scripts()),
    });
    out.to_string()
}


/// `total` op (C01): everything the compilers do with one text, timed per stage.
/// fields: template path, source text, stylesheet options (JSON), dev flag.
/// answer: `ok` then `key=value` pairs: warnings, output bytes, microseconds per stage, peak RSS in KiB.
pub fn total(path: &str, src: &str, css_opts: &str, dev: bool) -> String {
    use std::time::Instant;
    let t0 = Instant::now();
    let mut g = if dev { tc::TmplGroup::new_dev() } else { tc::TmplGroup::new() };
    let nw = g.add_tmpl(path, src).len();
    let t1 = Instant::now();
    let mut bytes = 0usize;
    let mut errs = 0usize;
    let mut count = |r: Result<String, tc::TmplError>| match r {
        Ok(s) => bytes += s.len(),
        Err(_) => errs += 1,
    };
    count(g.get_tmpl_gen_object(path));
    count(g.get_tmpl_gen_object_groups());
    count(g.get_wx_gen_object_groups());
    count(g.export_globals());
    count(g.export_all_scripts());
    bytes += g.get_runtime_string().len();
    let t2 = Instant::now();
    let mut sbytes = 0usize;
    if let Some(s) = g.stringify_tmpl(path) {
        sbytes += s.len();
        // the printed text goes through the parser once more (C14's round trip is also total)
        let mut g2 = tc::TmplGroup::new();
        g2.add_tmpl(path, &s);
        if let Some(s2) = g2.stringify_tmpl(path) {
            sbytes += s2.len();
        }
    }
    let t3 = Instant::now();
    let opts = crate::cssops::parse_options(css_opts);
    let trans = sc::StyleSheetTransformer::from_css(path, src, opts);
    let cw = trans.warnings().count();
    let (n, l) = trans.output_and_low_priority_output();
    let mut nb = Vec::new();
    n.write(&mut nb).unwrap();
    let mut lb = Vec::new();
    l.write(&mut lb).unwrap();
    let mut sm = Vec::new();
    n.extract_source_map().to_writer(&mut sm).ok();
    let t4 = Instant::now();
    let rss = std::fs::read_to_string("/proc/self/status")
        .ok()
        .and_then(|s| {
            s.lines()
                .find(|l| l.starts_with("VmHWM:"))
                .and_then(|l| l.split_whitespace().nth(1).map(|x| x.to_string()))
        })
        .unwrap_or_else(|| "0".to_string());
    format!(
        "ok warnings={} errs={} gen_bytes={} str_bytes={} css_warnings={} css_bytes={} us_parse={} us_gen={} us_str={} us_css={} rss_kib={}",
        nw,
        errs,
        bytes,
        sbytes,
        cw,
        nb.len() + lb.len() + sm.len(),
        (t1 - t0).as_micros(),
        (t2 - t1).as_micros(),
        (t3 - t2).as_micros(),
        (t4 - t3).as_micros(),
        rss
    )
}

fn warns_compact(ws: &[tc::parse::ParseError]) -> String {
    let mut o = String::from("[");
    for (i, w) in ws.iter().enumerate() {
        if i > 0 {
            o.push(',');
        }
        o.push_str(&format!(
            "{}@{}:{}-{}:{}",
            w.code(),
            w.location.start.line,
            w.location.start.utf16_col,
            w.location.end.line,
            w.location.end.utf16_col
        ));
    }
    o.push(']');
    o
}

/// `expr`: parse `src` with the real expression parser, dump the AST, and run the real generator on it.
/// scopes: comma list of `<has_tree 0|1>:<lvalue kind 0..4>`; data fields `s<i>` become scope refs.
fn expr_op(src: &str, scopes: &str, prefer_obj: bool) -> String {
    let (e, warns, idx, pos) = tc::verif_hooks::verif_parse_expr(src, prefer_obj);
    let mut out = vec![];
    let scs: Vec<tc::verif_hooks::VerifScope> = scopes
        .split(',')
        .filter(|x| !x.is_empty())
        .map(|x| {
            let mut it = x.split(':');
            tc::verif_hooks::VerifScope {
                has_update_path_tree: it.next() == Some("1"),
                lvalue: it.next().and_then(|v| v.parse().ok()).unwrap_or(0),
            }
        })
        .collect();
    match e {
        None => {
            out.push("none".to_string());
            out.push(warns_compact(&warns));
            out.push(format!("{} {} {}", idx, pos.line, pos.utf16_col));
        }
        Some(mut e) => {
            crate::dump::convert_scopes(&mut e, scs.len());
            out.push(esc(&crate::dump::expr(&e, false)));
            out.push(warns_compact(&warns));
            out.push(format!("{} {} {}", idx, pos.line, pos.utf16_col));
            match tc::verif_hooks::proc_gen_expr(&e, &scs) {
                Ok(pieces) => {
                    for p in pieces {
                        out.push(esc(&p));
                    }
                }
                Err(e) => out.push(format!("generr {}", esc(&e.message))),
            }
        }
    }
    out.join("\t")
}


/// `writer_trace` op: field 1 is the JSON of `group`, field 2 a template path, field 3 the artefact (`obj` | `wx` | `all`);
/// answers the artefact text and the JavaScript writer operations recorded while it was generated (hook `writer_trace_*`).
pub fn writer_trace(req: &str, path: &str, what: &str) -> String {
    let v: Value = serde_json::from_str(req).expect("bad json");
    let mut g = if v["dev"].as_bool().unwrap_or(false) { tc::TmplGroup::new_dev() } else { tc::TmplGroup::new() };
    for f in v["files"].as_array().unwrap_or(&vec![]) {
        let _ = g.add_tmpl(f[0].as_str().unwrap(), f[1].as_str().unwrap());
    }
    for f in v["scripts"].as_array().unwrap_or(&vec![]) {
        g.add_script(f[0].as_str().unwrap(), f[1].as_str().unwrap());
    }
    if let Some(x) = v["extra"].as_str() {
        g.set_extra_runtime_script(x);
    }
    tc::verif_hooks::writer_trace_start();
    let r = match what {
        "wx" => g.get_wx_gen_object_groups(),
        "all" => g.get_tmpl_gen_object_groups(),
        _ => g.get_tmpl_gen_object(path),
    };
    let tr = tc::verif_hooks::writer_trace_take();
    match r {
        Ok(s) => format!(
            "ok\t{}\t{}",
            esc(&s),
            esc(&tr.iter().map(|(t, p)| format!("{} {}", t, p)).collect::<Vec<_>>().join("\u{1f}"))
        ),
        Err(e) => format!("err\t{}", esc(&e.message)),
    }
}
