#!/bin/sh
# usage: tools/seed10.sh <Cxx> <n> <slot> [extra check ids] — round 12, like tools/seed9.sh with /tmp/s12-<Cxx>
set -u
PID="$1"; N="$2"; SLOT="$3"; shift 3
P=/tmp/s12-$PID/seeded.$N.diff
WT=/tmp/wtb$SLOT
if [ ! -d "$WT" ]; then git -C /repo worktree add --detach "$WT" HEAD >/dev/null 2>&1 || exit 2; fi
cd "$WT" && git reset -q --hard && git checkout -q --detach "$(git -C /repo rev-parse HEAD)" && git reset -q --hard || exit 2
git apply "$P" || { echo "$PID-$N patch does not apply"; exit 2; }
T=$(CARGO_NET_OFFLINE=true CARGO_TARGET_DIR=/tmp/wtb$SLOT-target cargo test --workspace --no-fail-fast --offline 2>&1 | grep -E "^test result" | awk '{p+=$4; f+=$6} END {print p " passed / " f " failed"}')
git reset -q --hard
echo "$PID-$N suite: $T"
/verif/tools/benign_scratch.sh "$P" "$SLOT" $PID "$@" 2>&1 | sed "s/^/$PID-$N check: /"
