import GE.Model.Path
/-!
Model of how a compiled template file finds the templates a `<template is>` may name
(`Template::to_proc_gen` in `proc_gen/tag.rs` and the object operations the emitted JavaScript performs):

    var H={}                                   // this file's templates
    H["name"]=…  (one per <template name>, in source order)    H[""]=… (the main template, last)
    I = P => { if(!S){ S=Object.assign({}, (G[p1]||{})._, …, (G[pn]||{})._, H); delete S[""] }  return S[P] }

`p1 … pn` are the `<import src>` targets in source order, each resolved against the importing file's path
(`path::resolve`, `GE/Model/Path.lean`) after the optional `.wxml` suffix was removed once by the parser;
`G[p]._` is the `H` of the file registered under `p`.

JavaScript objects are association lists with "latest write first": `set` conses, `get` takes the first match.
-/
namespace GE.Link

abbrev Obj (T : Type) := List (String × T)

def get {T} (o : Obj T) (k : String) : Option T := (o.find? (fun e => e.1 == k)).map (·.2)
def set {T} (o : Obj T) (k : String) (v : T) : Obj T := (k, v) :: o
/-- `Object.assign(o, src)`: every write `src` has seen is replayed oldest first, so for each key the current value of `src` is the one
written last — the same object, as far as `get` can tell, as writing each own property once in insertion order -/
def assign {T} (o src : Obj T) : Obj T := src.reverse.foldl (fun o e => set o e.1 e.2) o
def delete {T} (o : Obj T) (k : String) : Obj T := o.filter (fun e => e.1 != k)

/-- a file: its `<template name>` definitions in source order and its main template -/
structure File (T : Type) where
  defs : List (String × T)
  main : T

/-- `H` of a file -/
def hOf {T} (f : File T) : Obj T := set (f.defs.foldl (fun o e => set o e.1 e.2) []) "" f.main

/-- the parser removes the optional suffix once -/
def stripSuffix (s suffix : List Char) : List Char :=
  if suffix.isSuffixOf s then s.take (s.length - suffix.length) else s

/-- one `,(G[p]||{})._` argument of the `Object.assign` -/
def mergeStep {T} (G : String → Option (File T)) (o : Obj T) (p : String) : Obj T :=
  match G p with
  | some f => assign o (hOf f)
  | none => o

/-- `S` for a file registered under `path` with these `<import src>` values (as written) -/
def tableOf {T} (G : String → Option (File T)) (path : String) (self : File T) (importSrcs : List String) : Obj T :=
  let targets := importSrcs.map fun s => String.ofList (GE.Path.resolve path.toList (stripSuffix s.toList ".wxml".toList))
  let merged := targets.foldl (mergeStep G) []
  delete (assign merged (hOf self)) ""

/-- what `<template is=P>` instantiates -/
def lookup {T} (G : String → Option (File T)) (path : String) (self : File T) (importSrcs : List String) (P : String) : Option T :=
  get (tableOf G path self importSrcs) P

end GE.Link
