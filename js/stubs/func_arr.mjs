// Stub of glass-easel/src/func_arr.ts
export { safeCallback } from './backend.mjs'
