"""C09 — class prefixing hits every class selector and nothing else (DESIGN.md §9 C09)."""
from . import csscheck

THEOREMS = [
    "GE.Css.rule_rewrite_exact",
    "GE.Css.convRpx_wrote",
    "GE.Css.convCls_wrote",
    "GE.Css.qualLoop_wrote",
    "GE.Css.no_prefix_no_change",
    "GE.Css.not_class_unchanged",
    "GE.Css.class_prefixed_once",
]


def focus(r, o):
    # most cases have a prefix (the rewrite under test); one in five has none (nothing may change)
    if o["class_prefix"] is None and r.chance(4, 5):
        o["class_prefix"] = r.choice(["p", "", "é中", "pre-fix"])


def run(chk):
    chk.rule = ("generated stylesheets (nested rule-bearing at-rules, selector functions to depth 3, every token kind) x option sets; "
                "(1) token tree through the Lean model vs the implementation's outputs; (2) oracle: set of rewritten identifiers == identifiers "
                "immediately after a `.` delimiter in selector context, sign comments exactly there; non-trivial = stylesheet containing a class selector")
    chk.trusted = csscheck.TRUSTED
    chk.assumptions = ["the theorems (rule_rewrite_exact …) are about one style rule and the blocks nested in it: every identifier is written "
                       "exactly once, in order, prefixed iff it immediately follows `.` in selector context, and no other token kind changes; "
                       "sheet_idents (GE/Thm/C09Sheet.lean) lifts this to the WHOLE stylesheet model `transform` (no import sign): the identifiers of both outputs "
                       "are exactly those of the fuel-free reading `goI` of the token tree — class positions in style-rule selectors and in the "
                       "parenthesised / functional blocks of at-rule preludes, at any depth, in every rule nested inside any rule-bearing at-rule; "
                       "loose prelude identifiers, at-keywords, declaration blocks and calc() untouched; `:host` rules carry the chain's identifiers. "
                       "PARTIAL: with an import sign the whole-sheet theorem is not stated; sign comments are covered per rule and by the oracle"]
    csscheck.run_property(chk, "C09", "GE.Thm.C09", THEOREMS, 700, 12000, focus=focus,
                          nontrivial=lambda o, css, res: "." in css)
    failed, log = chk.prove("GE.Thm.C09Sheet", ["GE.Css.sheet_idents", "GE.Css.rules_sheetI", "GE.Css.qualRule_sheetI", "GE.Css.atLoop_sheetI",
                                                "GE.Css.writeLow_idents"])
    for t in failed:
        chk.violation("proof", f"obligation {t} no longer checks", theorem=t, log=log[-3000:])


def replay(chk, path):
    return csscheck.replay(chk, "C09", path)
