/-
C06, keyed lists — what `RangeListManager.diff` tells a reused node is enough.

`marking_sound`: for a keyed list whose update tree is an object over positions, if the tree marks every
position whose key changed (`KeysAgree`: an unmarked position, or one whose subtree leaves the key field
alone, has the key it had), then every item of the new list that is NOT told `true` and gets a node of the
old list gets the node of the SAME position — so its own subtree (or nothing) describes exactly its change.
The facts used about `updateKeys` are proved for every list of keys: keys that occur once are kept
(`uniq_single`), the renamed keys are exactly those of repeated keys, and the keys made unique are
pairwise distinct (`uniq_nodup`).

This is the statement that finding D62 violated (renamed keys were looked up in the wrong map, so items whose
unique key had moved to another node were told nothing); the model reflects the repaired code and is
compared with the real class on random keyed lists in every run (`corr:rlm`).
-/
import GE.Model.Rlm
import Std.Data.String.ToNat

namespace GE.Rlm

/-! ## lists of keys -/

theorem count_pos_of_mem {k : String} : ∀ {l : List String}, k ∈ l → 0 < count k l
  | x :: r, h => by
    simp only [count]
    by_cases hx : x = k
    · simp [hx]; omega
    · have : k ∈ r := by
        cases h with
        | head => exact absurd rfl hx
        | tail _ h => exact h
      have := count_pos_of_mem this
      simp [hx]; omega

theorem setAt_length (l : List String) (i : Nat) (v : String) : (setAt l i v).length = l.length := by simp [setAt]

theorem renameGroup_length (key : String) : ∀ (ps : List Nat) (inc : Nat) (used out : List String),
    (renameGroup key ps inc used out).2.length = out.length
  | [], _, _, _ => rfl
  | i :: r, inc, used, out => by simp [renameGroup, renameGroup_length key r, setAt_length]

theorem renameAll_length (keys : List String) : ∀ (gs used out : List String), (renameAll keys gs used out).2.length = out.length
  | [], _, _ => rfl
  | g :: r, used, out => by simp [renameAll, renameAll_length keys r, renameGroup_length]

theorem uniq_length (keys : List String) : (uniq keys).length = keys.length := by simp [uniq, renameAll_length]

/-- positions that a group does not contain are left alone -/
theorem renameGroup_other (key : String) (i : Nat) : ∀ (ps : List Nat) (inc : Nat) (used out : List String), i ∉ ps →
    (renameGroup key ps inc used out).2[i]? = out[i]?
  | [], _, _, _, _ => rfl
  | j :: r, inc, used, out, h => by
    simp only [List.mem_cons, not_or] at h
    simp only [renameGroup]
    rw [renameGroup_other key i r _ _ _ h.2]
    simp [setAt, List.getElem?_set, Ne.symm h.1]

theorem mem_positions {k : String} {keys : List String} {i : Nat} : i ∈ positions k keys ↔ keys[i]? = some k := by
  simp only [positions, List.mem_filter, List.mem_range, decide_eq_true_eq]
  constructor
  · exact fun h => h.2
  · intro h
    refine ⟨?_, h⟩
    by_cases hlt : i < keys.length
    · exact hlt
    · simp [List.getElem?_eq_none (by omega : keys.length ≤ i)] at h

theorem renameAll_other (keys : List String) (i : Nat) : ∀ (gs used out : List String),
    (∀ g ∈ gs, keys[i]? ≠ some g) → (renameAll keys gs used out).2[i]? = out[i]?
  | [], _, _, _ => rfl
  | g :: r, used, out, h => by
    simp only [renameAll]
    rw [renameAll_other keys i r _ _ (fun g' hg' => h g' (List.mem_cons_of_mem _ hg'))]
    exact renameGroup_other g i _ _ _ _ (fun hm => h g (List.mem_cons_self) (mem_positions.mp hm))

/-! ## the groups are exactly the repeated keys -/

theorem count_cons (k x : String) (r : List String) : count k (x :: r) = (if x = k then 1 else 0) + count k r := rfl

theorem count_zero_of_not_mem {k : String} : ∀ {l : List String}, k ∉ l → count k l = 0
  | [], _ => rfl
  | x :: r, h => by
    simp only [List.mem_cons, not_or] at h
    simp [count, Ne.symm h.1, count_zero_of_not_mem h.2]

theorem sharedInOrder_sound : ∀ (keys seen acc : List String) (k : String), k ∈ sharedInOrder keys seen acc →
    k ∈ acc ∨ (k ∈ seen ∧ 1 ≤ count k keys) ∨ 2 ≤ count k keys
  | [], _, _, _, h => Or.inl h
  | x :: r, seen, acc, k, h => by
    simp only [sharedInOrder] at h
    by_cases hs : x ∈ seen
    · simp only [hs, if_true] at h
      by_cases ha : x ∈ acc
      · simp only [ha, if_true] at h
        rcases sharedInOrder_sound r seen acc k h with h1 | h1 | h1
        · exact Or.inl h1
        · exact Or.inr (Or.inl ⟨h1.1, by rw [count_cons]; omega⟩)
        · exact Or.inr (Or.inr (by rw [count_cons]; omega))
      · simp only [ha, if_false] at h
        rcases sharedInOrder_sound r seen (acc ++ [x]) k h with h1 | h1 | h1
        · simp only [List.mem_append, List.mem_singleton] at h1
          rcases h1 with h1 | rfl
          · exact Or.inl h1
          · exact Or.inr (Or.inl ⟨hs, by rw [count_cons]; simp⟩)
        · exact Or.inr (Or.inl ⟨h1.1, by rw [count_cons]; omega⟩)
        · exact Or.inr (Or.inr (by rw [count_cons]; omega))
    · simp only [hs, if_false] at h
      rcases sharedInOrder_sound r (x :: seen) acc k h with h1 | h1 | h1
      · exact Or.inl h1
      · rcases List.mem_cons.mp h1.1 with rfl | hm
        · exact Or.inr (Or.inr (by rw [count_cons]; simp; omega))
        · exact Or.inr (Or.inl ⟨hm, by rw [count_cons]; omega⟩)
      · exact Or.inr (Or.inr (by rw [count_cons]; omega))

theorem sharedInOrder_acc : ∀ (keys seen acc : List String) (k : String), k ∈ acc → k ∈ sharedInOrder keys seen acc
  | [], _, _, _, h => h
  | x :: r, seen, acc, k, h => by
    simp only [sharedInOrder]
    by_cases hs : x ∈ seen
    · simp only [hs, if_true]
      by_cases ha : x ∈ acc
      · simp only [ha, if_true]; exact sharedInOrder_acc r seen acc k h
      · simp only [ha, if_false]; exact sharedInOrder_acc r seen (acc ++ [x]) k (by simp [h])
    · simp only [hs, if_false]; exact sharedInOrder_acc r (x :: seen) acc k h

theorem sharedInOrder_complete : ∀ (keys seen acc : List String) (k : String),
    ((k ∈ seen ∧ 1 ≤ count k keys) ∨ 2 ≤ count k keys) → k ∈ sharedInOrder keys seen acc
  | [], _, _, _, h => by simp [count] at h
  | x :: r, seen, acc, k, h => by
    simp only [sharedInOrder]
    by_cases hxk : x = k
    · subst hxk
      by_cases hs : x ∈ seen
      · simp only [hs, if_true]
        by_cases ha : x ∈ acc
        · simp only [ha, if_true]; exact sharedInOrder_acc r seen acc x ha
        · simp only [ha, if_false]; exact sharedInOrder_acc r seen (acc ++ [x]) x (by simp)
      · simp only [hs, if_false]
        apply sharedInOrder_complete r (x :: seen) acc x
        rcases h with h | h
        · exact absurd h.1 hs
        · rw [count_cons] at h; simp at h
          exact Or.inl ⟨by simp, by omega⟩
    · have hc : count k (x :: r) = count k r := by rw [count_cons]; simp [hxk]
      rw [hc] at h
      by_cases hs : x ∈ seen
      · simp only [hs, if_true]
        by_cases ha : x ∈ acc
        · simp only [ha, if_true]; exact sharedInOrder_complete r seen acc k h
        · simp only [ha, if_false]; exact sharedInOrder_complete r seen (acc ++ [x]) k h
      · simp only [hs, if_false]
        apply sharedInOrder_complete r (x :: seen) acc k
        rcases h with h | h
        · exact Or.inl ⟨List.mem_cons_of_mem _ h.1, h.2⟩
        · exact Or.inr h

theorem mem_insertSorted (n : Nat) (s : String) : ∀ (l : List (Nat × String)) (x : Nat × String),
    x ∈ insertSorted n s l ↔ x = (n, s) ∨ x ∈ l
  | [], x => by simp [insertSorted]
  | (m, t) :: r, x => by
    simp only [insertSorted]
    by_cases h : n < m
    · simp [h]
    · simp only [h, if_false, List.mem_cons, mem_insertSorted n s r x]
      constructor
      · rintro (h1 | h1 | h1)
        · exact Or.inr (Or.inl h1)
        · exact Or.inl h1
        · exact Or.inr (Or.inr h1)
      · rintro (h1 | h1 | h1)
        · exact Or.inr (Or.inl h1)
        · exact Or.inl h1
        · exact Or.inr (Or.inr h1)

theorem mem_foldl_idx : ∀ (sh : List String) (acc : List (Nat × String)) (k : String),
    (∃ n, (n, k) ∈ sh.foldl (fun acc k => match arrayIndex? k with | some n => insertSorted n k acc | none => acc) acc) ↔
      (∃ n, (n, k) ∈ acc) ∨ (k ∈ sh ∧ (arrayIndex? k).isSome)
  | [], acc, k => by simp
  | x :: r, acc, k => by
    simp only [List.foldl_cons]
    rw [mem_foldl_idx r]
    cases hx : arrayIndex? x with
    | none =>
      simp only [List.mem_cons]
      constructor
      · rintro (h | h)
        · exact Or.inl h
        · exact Or.inr ⟨Or.inr h.1, h.2⟩
      · rintro (h | ⟨h1 | h1, h2⟩)
        · exact Or.inl h
        · subst h1; simp [hx] at h2
        · exact Or.inr ⟨h1, h2⟩
    | some n =>
      simp only [mem_insertSorted, List.mem_cons, Prod.mk.injEq]
      constructor
      · rintro (⟨m, (⟨_, rfl⟩ | h)⟩ | h)
        · exact Or.inr ⟨Or.inl rfl, by simp [hx]⟩
        · exact Or.inl ⟨m, h⟩
        · exact Or.inr ⟨Or.inr h.1, h.2⟩
      · rintro (⟨m, h⟩ | ⟨h1 | h1, h2⟩)
        · exact Or.inl ⟨m, Or.inr h⟩
        · subst h1; exact Or.inl ⟨n, Or.inl ⟨rfl, rfl⟩⟩
        · exact Or.inr ⟨h1, h2⟩

theorem mem_groupOrder (keys : List String) (k : String) : k ∈ groupOrder keys ↔ 2 ≤ count k keys := by
  have hsh : k ∈ sharedInOrder keys [] [] ↔ 2 ≤ count k keys := by
    constructor
    · intro h
      rcases sharedInOrder_sound keys [] [] k h with h | h | h
      · simp at h
      · simp at h
      · exact h
    · intro h; exact sharedInOrder_complete keys [] [] k (Or.inr h)
  simp only [groupOrder, List.mem_append, List.mem_map, List.mem_filter]
  constructor
  · rintro (⟨⟨n, k'⟩, h, rfl⟩ | ⟨h, _⟩)
    · have := (mem_foldl_idx (sharedInOrder keys [] []) [] k').mp ⟨n, h⟩
      simp at this
      exact hsh.mp this.1
    · exact hsh.mp h
  · intro h
    have hm := hsh.mpr h
    cases ha : arrayIndex? k with
    | none => exact Or.inr ⟨hm, by simp [ha]⟩
    | some n =>
      obtain ⟨m, hmem⟩ := (mem_foldl_idx (sharedInOrder keys [] []) [] k).mpr (Or.inr ⟨hm, by simp [ha]⟩)
      exact Or.inl ⟨(m, k), hmem, rfl⟩

/-- a key that occurs once is kept -/
theorem uniq_single (keys : List String) (i : Nat) (k : String) (hk : keys[i]? = some k) (h1 : count k keys = 1) :
    (uniq keys)[i]? = some k := by
  unfold uniq
  rw [renameAll_other keys i _ _ _ (fun g hg he => ?_), hk]
  rw [hk] at he
  have := (mem_groupOrder keys g).mp hg
  cases he
  omega


/-! ## fresh names -/

def nm (key : String) (n : Nat) : String := key ++ "--" ++ toString n

theorem nm_inj {key : String} {a b : Nat} (h : nm key a = nm key b) : a = b := by
  have h1 := String.ext_iff.mp h
  simp only [nm, String.toList_append] at h1
  have h2 := List.append_cancel_left h1
  exact Nat.repr_injective (String.toList_inj.mp h2)

theorem freshFrom_spec (key : String) (used : List String) : ∀ (fuel inc : Nat),
    nm key (freshFrom key used fuel inc) ∉ used ∨
      (freshFrom key used fuel inc = inc + fuel ∧ ∀ j, inc ≤ j → j < inc + fuel → nm key j ∈ used)
  | 0, inc => Or.inr ⟨rfl, fun j h1 h2 => by omega⟩
  | fuel + 1, inc => by
    simp only [freshFrom]
    by_cases h : (key ++ "--" ++ toString inc) ∈ used
    · simp only [h, if_true]
      rcases freshFrom_spec key used fuel (inc + 1) with h1 | ⟨h1, h2⟩
      · exact Or.inl h1
      · refine Or.inr ⟨by omega, fun j hj1 hj2 => ?_⟩
        by_cases hj : j = inc
        · subst hj; exact h
        · exact h2 j (by omega) (by omega)
    · simp only [h, if_false]; exact Or.inl h

/-- the search of `updateKeys` for a free name always ends on a name that is not taken (pigeonhole over the names taken) -/
theorem fresh_not_used (key : String) (used : List String) (inc : Nat) :
    nm key (freshFrom key used (used.length + 1) inc) ∉ used := by
  rcases freshFrom_spec key used (used.length + 1) inc with h | ⟨_, h⟩
  · exact h
  · exfalso
    let L := (List.range (used.length + 1)).map (fun j => nm key (inc + j))
    have hnd : L.Nodup := by
      show List.Pairwise (· ≠ ·) _
      rw [List.pairwise_map]
      exact List.Pairwise.imp (fun {a b} hab he => hab (by have := nm_inj he; omega)) List.nodup_range
    have hsub : L ⊆ used := by
      intro x hx
      simp only [L, List.mem_map, List.mem_range] at hx
      obtain ⟨j, hj, rfl⟩ := hx
      exact h (inc + j) (by omega) (by omega)
    have := hnd.length_le_of_subset hsub
    simp [L] at this
    omega

/-! ## the state of `updateKeys` while it renames -/

/-- `fin p`: position `p` has its final key -/
structure StateOk (keys : List String) (fin : Nat → Prop) (used out : List String) : Prop where
  len : out.length = keys.length
  inUsed : ∀ p x, fin p → out[p]? = some x → x ∈ used
  inj : ∀ p q x, fin p → fin q → out[p]? = some x → out[q]? = some x → p = q
  rest : ∀ p, ¬ fin p → out[p]? = keys[p]?

theorem StateOk.congr {keys : List String} {fin fin' : Nat → Prop} {used out : List String} (h : ∀ p, fin p ↔ fin' p)
    (s : StateOk keys fin used out) : StateOk keys fin' used out := by
  have : fin = fin' := funext fun p => propext (h p)
  subst this; exact s

theorem renameGroup_ok (keys : List String) (key : String) : ∀ (ps : List Nat) (inc : Nat) (used out : List String) (fin : Nat → Prop),
    StateOk keys fin used out → ps.Nodup → (∀ i ∈ ps, ¬ fin i ∧ i < out.length) →
    StateOk keys (fun p => fin p ∨ p ∈ ps) (renameGroup key ps inc used out).1 (renameGroup key ps inc used out).2
  | [], _, _, _, _, s, _, _ => s.congr (by simp)
  | i :: r, inc, used, out, fin, s, hnd, hps => by
    simp only [renameGroup]
    have hfresh := fresh_not_used key used inc
    simp only [nm] at hfresh
    obtain ⟨hir, hr⟩ := List.nodup_cons.mp hnd
    obtain ⟨hfi, hlt⟩ := hps i List.mem_cons_self
    let name := key ++ "--" ++ toString (freshFrom key used (used.length + 1) inc)
    have hset : ∀ p, (setAt out i name)[p]? = if i = p then some name else out[p]? := by
      intro p; simp only [setAt, List.getElem?_set, hlt, if_true]
    have s1 : StateOk keys (fun p => fin p ∨ p = i) (name :: used) (setAt out i name) := by
      refine ⟨by simp [setAt, s.len], ?_, ?_, ?_⟩
      · intro p x hp hx
        rw [hset] at hx
        by_cases hpi : i = p
        · simp only [hpi, if_true] at hx; cases hx; exact List.mem_cons_self
        · simp only [hpi, if_false] at hx
          rcases hp with hp | hp
          · exact List.mem_cons_of_mem _ (s.inUsed p x hp hx)
          · exact absurd hp.symm hpi
      · intro p q x hp hq hx hy
        rw [hset] at hx hy
        by_cases hpi : i = p <;> by_cases hqi : i = q
        · omega
        · simp only [hpi, if_true] at hx; simp only [hqi, if_false] at hy; cases hx
          rcases hq with hq | hq
          · exact absurd (s.inUsed q _ hq hy) hfresh
          · exact absurd hq.symm hqi
        · simp only [hqi, if_true] at hy; simp only [hpi, if_false] at hx; cases hy
          rcases hp with hp | hp
          · exact absurd (s.inUsed p _ hp hx) hfresh
          · exact absurd hp.symm hpi
        · simp only [hpi, if_false] at hx; simp only [hqi, if_false] at hy
          rcases hp with hp | hp
          · rcases hq with hq | hq
            · exact s.inj p q x hp hq hx hy
            · exact absurd hq.symm hqi
          · exact absurd hp.symm hpi
      · intro p hp
        simp only [not_or] at hp
        rw [hset]; simp only [Ne.symm hp.2, if_false]
        exact s.rest p hp.1
    have := renameGroup_ok keys key r (freshFrom key used (used.length + 1) inc) (name :: used) (setAt out i name) _ s1 hr
      (fun j hj => ⟨fun h => by
          rcases h with h | h
          · exact (hps j (List.mem_cons_of_mem _ hj)).1 h
          · subst h; exact hir hj,
        by rw [setAt_length]; exact (hps j (List.mem_cons_of_mem _ hj)).2⟩)
    exact this.congr (fun p => by
      simp only [List.mem_cons]
      constructor
      · rintro ((h | h) | h)
        · exact Or.inl h
        · exact Or.inr (Or.inl h)
        · exact Or.inr (Or.inr h)
      · rintro (h | h | h)
        · exact Or.inl (Or.inl h)
        · exact Or.inl (Or.inr h)
        · exact Or.inr h)

theorem positions_nodup (k : String) (keys : List String) : (positions k keys).Nodup :=
  List.Pairwise.filter _ List.nodup_range

theorem renameAll_ok (keys : List String) : ∀ (gs used out : List String) (fin : Nat → Prop),
    StateOk keys fin used out → gs.Nodup → (∀ g ∈ gs, ∀ i ∈ positions g keys, ¬ fin i) →
    StateOk keys (fun p => fin p ∨ ∃ g ∈ gs, p ∈ positions g keys) (renameAll keys gs used out).1 (renameAll keys gs used out).2
  | [], _, _, _, s, _, _ => s.congr (by simp)
  | g :: r, used, out, fin, s, hnd, hg => by
    simp only [renameAll]
    obtain ⟨hgr, hr⟩ := List.nodup_cons.mp hnd
    have s1 := renameGroup_ok keys g (positions g keys) 0 used out fin s (positions_nodup g keys)
      (fun i hi => ⟨hg g List.mem_cons_self i hi, by
        rw [s.len]
        have := mem_positions.mp hi
        by_cases hlt : i < keys.length
        · exact hlt
        · simp [List.getElem?_eq_none (by omega : keys.length ≤ i)] at this⟩)
    have := renameAll_ok keys r _ _ _ s1 hr (fun g' hg' i hi h => by
      rcases h with h | h
      · exact hg g' (List.mem_cons_of_mem _ hg') i hi h
      · have h1 := mem_positions.mp hi
        have h2 := mem_positions.mp h
        rw [h1] at h2; cases h2; exact hgr hg')
    exact this.congr (fun p => by
      simp only [List.mem_cons, exists_eq_or_imp]
      constructor
      · rintro ((h | h) | h)
        · exact Or.inl h
        · exact Or.inr (Or.inl h)
        · exact Or.inr (Or.inr h)
      · rintro (h | h | h)
        · exact Or.inl (Or.inl h)
        · exact Or.inl (Or.inr h)
        · exact Or.inr h)


/-! ## the groups are listed once -/

theorem sharedInOrder_nodup : ∀ (keys seen acc : List String), acc.Nodup → (sharedInOrder keys seen acc).Nodup
  | [], _, _, h => h
  | x :: r, seen, acc, h => by
    simp only [sharedInOrder]
    by_cases hs : x ∈ seen
    · simp only [hs, if_true]
      by_cases ha : x ∈ acc
      · simp only [ha, if_true]; exact sharedInOrder_nodup r seen acc h
      · simp only [ha, if_false]
        exact sharedInOrder_nodup r seen (acc ++ [x]) (List.nodup_append.mpr ⟨h, by simp, fun a ha' b hb => by
          simp only [List.mem_singleton] at hb; subst hb; exact fun he => ha (he ▸ ha')⟩)
    · simp only [hs, if_false]; exact sharedInOrder_nodup r (x :: seen) acc h

theorem insertSorted_nodup (n : Nat) (s : String) : ∀ (l : List (Nat × String)), (l.map (·.2)).Nodup → s ∉ l.map (·.2) →
    ((insertSorted n s l).map (·.2)).Nodup
  | [], _, _ => by simp [insertSorted]
  | (m, t) :: r, h, hs => by
    simp only [insertSorted]
    by_cases hlt : n < m
    · simp only [hlt, if_true, List.map_cons]
      exact List.nodup_cons.mpr ⟨hs, h⟩
    · simp only [hlt, if_false, List.map_cons]
      simp only [List.map_cons, List.mem_cons, not_or] at hs
      obtain ⟨ht, hr⟩ := List.nodup_cons.mp h
      refine List.nodup_cons.mpr ⟨?_, insertSorted_nodup n s r hr hs.2⟩
      intro hm
      obtain ⟨x, hx, hxe⟩ := List.mem_map.mp hm
      rcases (mem_insertSorted n s r x).mp hx with rfl | hx
      · exact hs.1 (by simpa using hxe)
      · exact ht (List.mem_map.mpr ⟨x, hx, hxe⟩)

theorem foldl_idx_nodup : ∀ (sh : List String) (acc : List (Nat × String)), sh.Nodup → (acc.map (·.2)).Nodup →
    (∀ k ∈ sh, k ∉ acc.map (·.2)) →
    ((sh.foldl (fun acc k => match arrayIndex? k with | some n => insertSorted n k acc | none => acc) acc).map (·.2)).Nodup
  | [], _, _, h, _ => h
  | x :: r, acc, hsh, hacc, hdis => by
    simp only [List.foldl_cons]
    obtain ⟨hxr, hr⟩ := List.nodup_cons.mp hsh
    cases hx : arrayIndex? x with
    | none => exact foldl_idx_nodup r acc hr hacc (fun k hk => hdis k (List.mem_cons_of_mem _ hk))
    | some n =>
      refine foldl_idx_nodup r _ hr (insertSorted_nodup n x acc hacc (hdis x List.mem_cons_self)) (fun k hk hm => ?_)
      obtain ⟨y, hy, hye⟩ := List.mem_map.mp hm
      rcases (mem_insertSorted n x acc y).mp hy with rfl | hy
      · have : x = k := by simpa using hye
        exact hxr (this ▸ hk)
      · exact hdis k (List.mem_cons_of_mem _ hk) (List.mem_map.mpr ⟨y, hy, hye⟩)

theorem groupOrder_nodup (keys : List String) : (groupOrder keys).Nodup := by
  have hsh : (sharedInOrder keys [] []).Nodup := sharedInOrder_nodup keys [] [] List.nodup_nil
  simp only [groupOrder]
  refine List.nodup_append.mpr ⟨foldl_idx_nodup _ [] hsh (by simp) (by simp), List.Pairwise.filter _ hsh, ?_⟩
  intro a ha b hb hab
  subst hab
  obtain ⟨⟨n, k⟩, hm, rfl⟩ := List.mem_map.mp ha
  have := (mem_foldl_idx (sharedInOrder keys [] []) [] k).mp ⟨n, hm⟩
  simp only [List.not_mem_nil, exists_false, false_or] at this
  simp only [List.mem_filter] at hb
  cases hk : arrayIndex? k with
  | none => simp [hk] at this
  | some m => simp [hk] at hb

/-! ## the keys made unique are pairwise distinct -/

theorem two_le_count_of_two_positions {k : String} : ∀ {keys : List String} {p q : Nat}, p < q → keys[p]? = some k → keys[q]? = some k →
    2 ≤ count k keys
  | [], _, _, _, h, _ => by simp at h
  | x :: r, 0, q + 1, _, hp, hq => by
    simp only [List.getElem?_cons_zero, Option.some.injEq] at hp
    simp only [List.getElem?_cons_succ] at hq
    have := count_pos_of_mem (List.mem_of_getElem? hq)
    rw [count_cons]; simp [hp]; omega
  | x :: r, p + 1, q + 1, hlt, hp, hq => by
    simp only [List.getElem?_cons_succ] at hp hq
    have := two_le_count_of_two_positions (by omega : p < q) hp hq
    rw [count_cons]; omega

/-- every position is final after `updateKeys` -/
theorem uniq_state (keys : List String) :
    ∀ (p q : Nat) (x : String), (uniq keys)[p]? = some x → (uniq keys)[q]? = some x → p = q := by
  let fin0 : Nat → Prop := fun p => ∃ k, keys[p]? = some k ∧ count k keys = 1
  have s0 : StateOk keys fin0 (keys.filter (fun k => count k keys = 1)) keys := by
    refine ⟨rfl, ?_, ?_, fun _ _ => rfl⟩
    · rintro p x ⟨k, hk, hc⟩ hx
      rw [hk] at hx; cases hx
      exact List.mem_filter.mpr ⟨List.mem_of_getElem? hk, by simp [hc]⟩
    · rintro p q x ⟨k, hk, hc⟩ _ hx hy
      rw [hk] at hx; cases hx
      rcases Nat.lt_trichotomy p q with h | h | h
      · have := two_le_count_of_two_positions h hk hy; omega
      · exact h
      · have := two_le_count_of_two_positions h hy hk; omega
  have s := renameAll_ok keys (groupOrder keys) _ keys fin0 s0 (groupOrder_nodup keys) (by
    rintro g hg i hi ⟨k, hk, hc⟩
    have h1 := mem_positions.mp hi
    rw [hk] at h1
    have hkg : k = g := by simpa using h1
    subst hkg
    have := (mem_groupOrder keys k).mp hg
    omega)
  have hall : ∀ p, p < keys.length → (fin0 p ∨ ∃ g ∈ groupOrder keys, p ∈ positions g keys) := by
    intro p hp
    have hk : keys[p]? = some keys[p] := List.getElem?_eq_getElem hp
    have hpos := count_pos_of_mem (List.mem_of_getElem? hk)
    by_cases h1 : count keys[p] keys = 1
    · exact Or.inl ⟨_, hk, h1⟩
    · exact Or.inr ⟨keys[p], (mem_groupOrder keys _).mpr (by omega), mem_positions.mpr hk⟩
  intro p q x hx hy
  have hlen := uniq_length keys
  have hp : p < keys.length := by
    by_cases h : p < keys.length
    · exact h
    · rw [List.getElem?_eq_none (by omega)] at hx; cases hx
  have hq : q < keys.length := by
    by_cases h : q < keys.length
    · exact h
    · rw [List.getElem?_eq_none (by omega)] at hy; cases hy
  exact s.inj p q x (hall p hp) (hall q hq) hx hy

theorem uniq_nodup (keys : List String) : (uniq keys).Nodup := by
  show List.Pairwise (· ≠ ·) _
  rw [List.pairwise_iff_getElem]
  intro i j hi hj hlt he
  have := uniq_state keys i j (uniq keys)[i] (List.getElem?_eq_getElem hi) (by rw [he]; exact List.getElem?_eq_getElem hj)
  omega


/-! ## what a reused node is told -/

theorem renamed_mem (keys : List String) (p : Nat) (hp : p < keys.length) (h2 : 2 ≤ count keys[p] keys) :
    (uniq keys)[p]'(by rw [uniq_length]; exact hp) ∈ renamed keys := by
  simp only [renamed, List.mem_filterMap, List.mem_range]
  refine ⟨p, hp, ?_⟩
  have h1 : keys[p]?.getD "" = keys[p] := by simp [List.getElem?_eq_getElem hp]
  rw [h1]
  simp only [show count keys[p] keys > 1 from h2, if_true]
  exact List.getElem?_eq_getElem _

/-- the unique key of a position is a renamed one, or the position's own key, which then occurs once -/
theorem uniq_at (keys : List String) (p : Nat) (x : String) (hp : (uniq keys)[p]? = some x) :
    x ∈ renamed keys ∨ (keys[p]? = some x ∧ count x keys = 1) := by
  have hlt : p < keys.length := by
    by_cases h : p < keys.length
    · exact h
    · rw [List.getElem?_eq_none (by rw [uniq_length]; omega)] at hp; cases hp
  have hk : keys[p]? = some keys[p] := List.getElem?_eq_getElem hlt
  have hpos := count_pos_of_mem (List.mem_of_getElem? hk)
  by_cases h1 : count keys[p] keys = 1
  · have := uniq_single keys p _ hk h1
    rw [hp] at this; cases this
    exact Or.inr ⟨hk, h1⟩
  · have := renamed_mem keys p hlt (by omega)
    have he : (uniq keys)[p]'(by rw [uniq_length]; exact hlt) = x := by
      have := List.getElem?_eq_getElem (l := uniq keys) (i := p) (by rw [uniq_length]; exact hlt)
      rw [hp] at this; exact (Option.some.inj this).symm
    rw [he] at this
    exact Or.inl this

theorem mem_uniq_cases (keys : List String) (x : String) (hx : x ∈ uniq keys) :
    x ∈ renamed keys ∨ (∃ p : Nat, keys[p]? = some x ∧ count x keys = 1) := by
  obtain ⟨p, hp⟩ := List.mem_iff_getElem?.mp hx
  have hlt : p < keys.length := by
    by_cases h : p < keys.length
    · exact h
    · rw [List.getElem?_eq_none (by rw [uniq_length]; omega)] at hp; cases hp
  have hk : keys[p]? = some keys[p] := List.getElem?_eq_getElem hlt
  have hpos := count_pos_of_mem (List.mem_of_getElem? hk)
  by_cases h1 : count keys[p] keys = 1
  · have := uniq_single keys p _ hk h1
    rw [hp] at this; cases this
    exact Or.inr ⟨p, hk, h1⟩
  · have := renamed_mem keys p hlt (by omega)
    have he : (uniq keys)[p]'(by rw [uniq_length]; exact hlt) = x := by
      have := List.getElem?_eq_getElem (l := uniq keys) (i := p) (by rw [uniq_length]; exact hlt)
      rw [hp] at this; exact (Option.some.inj this).symm
    rw [he] at this
    exact Or.inl this

/-- the update tree marks every position whose key changed: an unmarked position, or one whose subtree leaves the key field alone,
has the key it had -/
def KeysAgree (oldKeys newKeys : List String) (tree : List Mark) : Prop :=
  ∀ i : Nat, (tree[i]?.getD Mark.none = Mark.none ∨ tree[i]?.getD Mark.none = Mark.sub false) → newKeys[i]? = oldKeys[i]?

theorem marks_length (oldKeys newKeys : List String) (tree : List Mark) : (marks oldKeys newKeys tree).length = newKeys.length := by
  simp only [marks]; split <;> simp

/-- an item that is not told `true` and gets a node of the old list gets the node of its own position -/
theorem marking_sound (oldKeys newKeys : List String) (tree : List Mark) (hag : KeysAgree oldKeys newKeys tree)
    (i j : Nat) (m : Mark) (hm : (marks oldKeys newKeys tree)[i]? = some m) (hne : m ≠ Mark.all)
    (hr : reuse oldKeys newKeys i = some j) : j = i := by
  have hi : i < newKeys.length := by
    by_cases h : i < newKeys.length
    · exact h
    · rw [List.getElem?_eq_none (by rw [marks_length]; omega)] at hm; cases hm
  have hiu : i < (uniq newKeys).length := by rw [uniq_length]; exact hi
  have hku : (uniq newKeys)[i]? = some (uniq newKeys)[i] := List.getElem?_eq_getElem hiu
  -- the reused position
  have hreuse : ∀ k, (uniq newKeys)[i]? = some k → (uniq oldKeys).idxOf k < oldKeys.length ∧ j = (uniq oldKeys).idxOf k := by
    intro k hk
    simp only [reuse, hk] at hr
    by_cases h : (uniq oldKeys).idxOf k < oldKeys.length
    · simp only [h, if_true, Option.some.injEq] at hr; exact ⟨h, hr.symm⟩
    · simp only [h, if_false] at hr; cases hr
  -- the tree leaves position i (or at least its key) alone, and its unique key is not a renamed one
  have hcase : (tree[i]?.getD Mark.none = Mark.none ∨ tree[i]?.getD Mark.none = Mark.sub false) ∧
      (newKeys = oldKeys ∨ ((uniq newKeys)[i] ∉ renamed oldKeys ∧ (uniq newKeys)[i] ∉ renamed newKeys)) := by
    simp only [marks] at hm
    split at hm
    · rename_i hnu
      simp only [List.getElem?_map, List.getElem?_range hi, Option.map_some, Option.some.injEq] at hm
      have hg : (uniq newKeys)[i]?.getD "" = (uniq newKeys)[i] := by simp [hku]
      rw [hg] at hm
      by_cases hren : (uniq newKeys)[i] ∈ renamed oldKeys ∨ (uniq newKeys)[i] ∈ renamed newKeys
      · simp only [hren, if_true] at hm; exact absurd hm.symm hne
      · simp only [hren, if_false] at hm
        simp only [not_or] at hren
        refine ⟨?_, Or.inr hren⟩
        cases ht : tree[i]?.getD Mark.none with
        | none => exact Or.inl rfl
        | all => rw [ht] at hm; exact absurd hm.symm hne
        | sub b =>
          cases b with
          | true => rw [ht] at hm; exact absurd hm.symm hne
          | false => exact Or.inr rfl
    · rename_i hnu
      have hall : ∀ p : Nat, tree[p]?.getD Mark.none = Mark.none ∨ tree[p]?.getD Mark.none = Mark.sub false := by
        intro p
        cases hp : tree[p]? with
        | none => exact Or.inl rfl
        | some t =>
          have hmem : t ∈ tree := List.mem_of_getElem? hp
          have : ¬ (t = Mark.all ∨ t = Mark.sub true) := by
            intro h
            apply hnu
            simp only [List.any_eq_true, Bool.or_eq_true, decide_eq_true_eq]
            exact ⟨t, hmem, h⟩
          simp only [Option.getD_some]
          cases t with
          | none => exact Or.inl rfl
          | all => exact absurd (Or.inl rfl) this
          | sub b =>
            cases b with
            | true => exact absurd (Or.inr rfl) this
            | false => exact Or.inr rfl
      exact ⟨hall i, Or.inl (List.ext_getElem? fun p => hag p (hall p))⟩
  obtain ⟨hti, hkeys⟩ := hcase
  obtain ⟨hlt, hj⟩ := hreuse _ hku
  rcases hkeys with heq | ⟨hro, hrn⟩
  · -- the lists of keys are the same: the unique keys are, and they are pairwise distinct
    subst heq
    rw [hj]; exact (uniq_nodup newKeys).idxOf_getElem i hiu
  · -- the key of position i occurs once in the new list ...
    have hk0 : newKeys[i]? = some newKeys[i] := List.getElem?_eq_getElem hi
    have hpos := count_pos_of_mem (List.mem_of_getElem? hk0)
    have h1 : count newKeys[i] newKeys = 1 := by
      by_cases h : count newKeys[i] newKeys = 1
      · exact h
      · exact absurd (renamed_mem newKeys i hi (by omega)) hrn
    have hu := uniq_single newKeys i _ hk0 h1
    rw [hku] at hu
    have hkk : (uniq newKeys)[i] = newKeys[i] := Option.some.inj hu
    rw [hkk] at hro hlt hj
    -- ... and, being unmarked, is the key position i had in the old list, where it occurs once too
    have hold : oldKeys[i]? = some newKeys[i] := by rw [← hag i hti]; exact hk0
    have hmem : newKeys[i] ∈ uniq oldKeys := List.idxOf_lt_length_iff.mp (by rw [uniq_length]; exact hlt)
    rcases mem_uniq_cases oldKeys _ hmem with h | ⟨_, _, hc⟩
    · exact absurd h hro
    · have hio : i < (uniq oldKeys).length := by
        rw [uniq_length]
        by_cases h : i < oldKeys.length
        · exact h
        · rw [List.getElem?_eq_none (by omega)] at hold; cases hold
      have huo := uniq_single oldKeys i _ hold hc
      rw [List.getElem?_eq_getElem hio] at huo
      rw [hj, ← Option.some.inj huo]
      exact (uniq_nodup oldKeys).idxOf_getElem i hio

/-- non-vacuity of the hypothesis: a list with a repeated key whose first occurrence changes (that `marks` tells the second item `true`,
although its own key and subtree are untouched, and that the third keeps its node is what the `rlm` stream evaluates on the compiled model) -/
example : KeysAgree ["x", "x", "y"] ["z", "x", "y"] [Mark.all, Mark.none, Mark.sub false] := by
  intro i h
  match i, h with
  | 0, h => simp at h
  | 1, _ => rfl
  | 2, _ => rfl
  | n + 3, _ => rfl

end GE.Rlm
