/-
C14 (expression printer) — the printed expression reads back as the same tree.

For every expression tree without `ToStringWithoutUndefined` nodes (they are printed by the value
printer, never by this function: the implementation panics on them) and every accepted level, the tokens
written by the model of `expression_strigify_write` derive exactly that tree in the WXML expression
grammar `GE.SpecW.W`, whose levels are the parser's (`parse_left_to_right!` chain, re-extracted each run).
Parenthesisation by `ExpressionLevel` is therefore sufficient for every nesting of every operator pair,
member / call chain, literal and conditional.  The only facts used about the Rust tables are checked by
`decide` on the regenerated tables.
-/
import GE.Model.ExprStr
import GE.Spec.WxGrammar

namespace GE.Str
open GE.Spec (Tok spells unText binText)
open GE.SpecW
open GE.Extracted
open GE.Gen (levelIdx stringifyLevelOfKind)

/-! ## side conditions on the extracted tables -/

theorem paren_rule_ok : strParenRuleOk = true := by decide
theorem member_arms_ok : strMemberArmOk = true ∧ strIndexArmOk = true ∧ strCallArmOk = true := by decide
theorem condLevel_eq : condLevel = 13 := by decide
theorem memberLevel_eq : memberLevel = 1 := by decide

/-- unary arms: the text is the operator, the operand is accepted at most at unary level, and the
expression's own level is at least the unary level -/
theorem unArm_ok : ∀ op ∈ allUnOps,
    spells (unArm op).1 (unText op) = true ∧ (unArm op).2 ≤ 2 ∧ 2 ≤ stringifyLevelOfKind op.name := by
  decide

/-- binary arms: the left operand is accepted at most at the operator's own parser level, the right
operand strictly tighter, the text is the operator, and the own level is at least the operator's -/
theorem binArm_ok : ∀ op ∈ allBinOps,
    spells (binArm op).2.1 (binText op) = true ∧ (binArm op).1 ≤ wLevel op ∧
    (binArm op).2.2 ≤ wLevel op - 1 ∧ wLevel op ≤ stringifyLevelOfKind op.name := by
  decide

theorem condArm_ok : condArm.1 ≤ 12 ∧ condArm.2.1 ≤ 13 ∧ condArm.2.2 ≤ 13 ∧ 13 ≤ stringifyLevelOfKind "Cond" := by decide

theorem member_kinds :
    1 ≤ stringifyLevelOfKind "StaticMember" ∧ 1 ≤ stringifyLevelOfKind "DynamicMember" ∧
    1 ≤ stringifyLevelOfKind "FuncCall" := by decide

/-- the parser's level chain is the one `wLevel` states: each `parse_left_to_right!` level lists exactly
the operators of one `wLevel`, and each level's operand parser is the next tighter level -/
theorem parse_chain_matches_wLevel :
    parseLevelChain.map (fun r => (r.1, r.2.1, r.2.2.map (·.2))) =
      [("parse_multiply", "parse_reverse", ["Multiply", "Divide", "Remainer"]),
       ("parse_plus", "parse_multiply", ["Plus", "Minus"]),
       ("parse_shift", "parse_plus", ["LeftShift", "RightShift", "UnsignedRightShift"]),
       ("parse_cmp", "parse_shift", ["Lt", "Gt", "Lte", "Gte", "InstanceOf"]),
       ("parse_eq", "parse_cmp", ["Eq", "Ne", "EqFull", "NeFull"]),
       ("parse_bit_and", "parse_eq", ["BitAnd"]),
       ("parse_bit_xor", "parse_bit_and", ["BitXor"]),
       ("parse_bit_or", "parse_bit_xor", ["BitOr"]),
       ("parse_logic_and", "parse_bit_or", ["LogicAnd"]),
       ("parse_logic_or", "parse_logic_and", ["LogicOr", "NullishCoalescing"])] := by
  decide

/-! ## well-formed inputs of the printer -/

mutual
/-- no `ToStringWithoutUndefined` inside (the value printer strips them), integer literals are
non-negative (the parser produces `Negative(LitInt)`) -/
def Printable : Expr → Bool
  | .toStr _ => false
  | .int v => 0 ≤ v
  | .scope _ | .data _ | .undef | .null | .str _ | .float _ | .bool _ => true
  | .obj fs => PrintableObj fs
  | .arr fs => PrintableArr fs
  | .smember o _ => Printable o
  | .dmember o f => Printable o && Printable f
  | .call f args => Printable f && PrintableArgs args
  | .un _ e => Printable e
  | .bin _ l r => Printable l && Printable r
  | .cond c t f => Printable c && Printable t && Printable f
def PrintableArgs : Exprs → Bool
  | .nil => true
  | .cons e r => Printable e && PrintableArgs r
def PrintableObj : ObjFields → Bool
  | .nil => true
  | .named _ _ v r => Printable v && PrintableObj r
  | .spread v r => Printable v && PrintableObj r
def PrintableArr : ArrFields → Bool
  | .nil => true
  | .item v r => Printable v && PrintableArr r
  | .spread v r => Printable v && PrintableArr r
  | .hole r => PrintableArr r
end

/-! ## helper lemmas -/

theorem sepArgs_eq (r : Exprs) (tr : List Tok) (h : r = .nil → tr = []) :
    comma Exprs.isNil r ++ tr = sepArgs r tr := by
  cases r <;> simp [comma, Exprs.isNil, sepArgs]
  exact h rfl
theorem sepObj_eq (r : ObjFields) (tr : List Tok) (h : r = .nil → tr = []) :
    comma ObjFields.isNil r ++ tr = sepObj r tr := by
  cases r <;> simp [comma, ObjFields.isNil, sepObj]
  exact h rfl
theorem sepArr_eq (r : ArrFields) (tr : List Tok) (h : r = .nil → tr = []) :
    comma ArrFields.isNil r ++ tr = sepArr r tr := by
  cases r <;> simp [comma, ArrFields.isNil, sepArr]
  exact h rfl

theorem lvlS_un (op : UnOp) (e : Expr) : lvlS (.un op e) = stringifyLevelOfKind op.name := rfl
theorem lvlS_bin (op : BinOp) (a b : Expr) : lvlS (.bin op a b) = stringifyLevelOfKind op.name := rfl

/-! ## the statements proved by mutual recursion -/

def BodyOk (names : Nat → String) (e : Expr) : Prop := W names (lvlS e) e (strBody names e)
def StrOk (names : Nat → String) (e : Expr) : Prop := ∀ accept, W names accept e (str names e accept)

/-- every variant's level is one of the 14 levels -/
theorem lvlS_le (e : Expr) : lvlS e ≤ 13 := by
  unfold lvlS stringifyLevelOfKind
  cases e <;> simp only [Expr.kind] <;> first | decide | (rename_i op _; cases op <;> decide) | (rename_i op _ _; cases op <;> decide)

/-- from the body at the expression's own level to any accepted level: parenthesise or lift -/
theorem strOk_of_body {names e} (h : BodyOk names e) : StrOk names e := by
  intro accept
  unfold str
  by_cases hl : lvlS e > accept
  · simp only [hl, if_true]
    exact (W.paren (h.mono (lvlS_le e))).mono (Nat.zero_le _)
  · simp only [hl, if_false]
    exact h.mono (by omega)

theorem lvlS_smember (o : Expr) (f : String) : lvlS (.smember o f) = stringifyLevelOfKind "StaticMember" := rfl
theorem lvlS_dmember (o f : Expr) : lvlS (.dmember o f) = stringifyLevelOfKind "DynamicMember" := rfl
theorem lvlS_call (f : Expr) (a : Exprs) : lvlS (.call f a) = stringifyLevelOfKind "FuncCall" := rfl
theorem lvlS_cond (c t f : Expr) : lvlS (.cond c t f) = stringifyLevelOfKind "Cond" := rfl

mutual
theorem body_ok (names : Nat → String) : ∀ (e : Expr), Printable e = true → BodyOk names e
  | .scope i, _ => by simpa [BodyOk, strBody] using (W.scope (names := names) i).mono (Nat.zero_le _)
  | .data x, _ => by simpa [BodyOk, strBody] using (W.data (names := names) x).mono (Nat.zero_le _)
  | .toStr _, h => by simp [Printable] at h
  | .undef, _ => by simpa [BodyOk, strBody] using (W.undef (names := names)).mono (Nat.zero_le _)
  | .null, _ => by simpa [BodyOk, strBody] using (W.null (names := names)).mono (Nat.zero_le _)
  | .str s, _ => by simpa [BodyOk, strBody] using (W.str (names := names) s).mono (Nat.zero_le _)
  | .int v, _ => by simpa [BodyOk, strBody] using (W.num (names := names) (.int v) (toString v)).mono (Nat.zero_le _)
  | .float t, _ => by simpa [BodyOk, strBody] using (W.num (names := names) (.float t) (floatText t)).mono (Nat.zero_le _)
  | .bool b, _ => by simpa [BodyOk, strBody] using (W.bool (names := names) b).mono (Nat.zero_le _)
  | .obj fs, h => by
    have hf := obj_ok names fs (by simpa [Printable] using h)
    simpa [BodyOk, strBody] using (W.obj hf).mono (Nat.zero_le _)
  | .arr fs, h => by
    have hf := arr_ok names fs (by simpa [Printable] using h)
    simpa [BodyOk, strBody] using (W.arr hf).mono (Nat.zero_le _)
  | .smember o f, h => by
    have ho := str_ok names o (by simpa [Printable] using h)
    have h1 : W names 1 o (if isNumber o then .p "(" :: (str names o memberLevel ++ [.p ")"]) else str names o memberLevel) := by
      by_cases hn : isNumber o = true
      · simp only [hn, if_true]
        exact (W.paren (ho 1 |>.mono (by decide : 1 ≤ 13) |> fun x => by simpa [memberLevel_eq] using x)).mono (Nat.zero_le _)
      · simp only [hn]
        simpa [memberLevel_eq] using ho 1
    have := (W.member (n := f) h1).mono member_kinds.1
    rw [← lvlS_smember o f] at this
    simpa [BodyOk, strBody] using this
  | .dmember o f, h => by
    have hp : Printable o = true ∧ Printable f = true := by simpa [Printable] using h
    have ho := str_ok names o hp.1 1
    have hf := str_ok names f hp.2 13
    have := (W.index ho hf).mono member_kinds.2.1
    rw [← lvlS_dmember o f] at this
    simpa [BodyOk, strBody, memberLevel_eq, condLevel_eq] using this
  | .call f args, h => by
    have hp : Printable f = true ∧ PrintableArgs args = true := by simpa [Printable] using h
    have hf := str_ok names f hp.1 1
    have ha := args_ok names args hp.2
    have := (W.call hf ha).mono member_kinds.2.2
    rw [← lvlS_call f args] at this
    simpa [BodyOk, strBody, memberLevel_eq] using this
  | .un op x, h => by
    have hx := str_ok names x (by simpa [Printable] using h)
    obtain ⟨hs, hl, hown⟩ := unArm_ok op (mem_allUnOps op)
    have := W.un (names := names) hs ((hx (unArm op).2).mono hl)
    simpa [BodyOk, strBody] using this.mono (by rw [lvlS_un]; exact hown)
  | .bin op x y, h => by
    have hp : Printable x = true ∧ Printable y = true := by simpa [Printable] using h
    obtain ⟨hs, hl, hr, hown⟩ := binArm_ok op (mem_allBinOps op)
    have hx := (str_ok names x hp.1 (binArm op).1).mono hl
    have hy := (str_ok names y hp.2 (binArm op).2.2).mono hr
    have := W.bin (names := names) hs hx hy
    simpa [BodyOk, strBody] using this.mono (by rw [lvlS_bin]; exact hown)
  | .cond c t f, h => by
    have hp : (Printable c = true ∧ Printable t = true) ∧ Printable f = true := by simpa [Printable] using h
    obtain ⟨h1, h2, h3, hown⟩ := condArm_ok
    have hc := (str_ok names c hp.1.1 condArm.1).mono h1
    have ht := (str_ok names t hp.1.2 condArm.2.1).mono h2
    have hf := (str_ok names f hp.2 condArm.2.2).mono h3
    have := (W.cond hc ht hf).mono hown
    rw [← lvlS_cond c t f] at this
    simpa [BodyOk, strBody] using this
theorem str_ok (names : Nat → String) : ∀ (e : Expr), Printable e = true → StrOk names e
  | e, h => strOk_of_body (body_ok names e h)
theorem args_ok (names : Nat → String) : ∀ (a : Exprs), PrintableArgs a = true → WArgs names a (strArgs names a)
  | .nil, _ => by simpa [strArgs] using WArgs.nil
  | .cons e r, h => by
    have hp : Printable e = true ∧ PrintableArgs r = true := by simpa [PrintableArgs] using h
    have he := str_ok names e hp.1 13
    have hr := args_ok names r hp.2
    have := WArgs.cons he hr
    have hnil : r = .nil → strArgs names r = [] := by intro e; subst e; simp [strArgs]
    simpa [strArgs, condLevel_eq, List.append_assoc, sepArgs_eq r _ hnil] using this
theorem obj_ok (names : Nat → String) : ∀ (fs : ObjFields), PrintableObj fs = true → WFields names fs (strObj names fs)
  | .nil, _ => by simpa [strObj] using WFields.nil
  | .named k b v r, h => by
    have hp : Printable v = true ∧ PrintableObj r = true := by simpa [PrintableObj] using h
    have hr := obj_ok names r hp.2
    have hnil : r = .nil → strObj names r = [] := by intro e; subst e; simp [strObj]
    by_cases hs : isShortcut names k v = true
    · -- the shorthand is printed only when the value is the field / scope of that name
      cases v with
      | data x =>
        have hx : x = k := by simpa [isShortcut] using hs
        subst hx
        have := WFields.shortData (names := names) (k := x) (b := b) hr
        simpa [strObj, hs, sepObj_eq r _ hnil] using this
      | scope i =>
        have hx : names i = k := by simpa [isShortcut] using hs
        have := WFields.shortScope (names := names) (b := b) hx hr
        simpa [strObj, hs, sepObj_eq r _ hnil] using this
      | _ => simp [isShortcut] at hs
    · have hv := str_ok names v hp.1 13
      have := WFields.named (names := names) (k := k) (b := b) hv hr
      simpa [strObj, hs, condLevel_eq, List.append_assoc, sepObj_eq r _ hnil] using this
  | .spread v r, h => by
    have hp : Printable v = true ∧ PrintableObj r = true := by simpa [PrintableObj] using h
    have hr := obj_ok names r hp.2
    have hnil : r = .nil → strObj names r = [] := by intro e; subst e; simp [strObj]
    have hv := str_ok names v hp.1 13
    have := WFields.spread hv hr
    simpa [strObj, condLevel_eq, List.append_assoc, sepObj_eq r _ hnil] using this
theorem arr_ok (names : Nat → String) : ∀ (fs : ArrFields), PrintableArr fs = true → WItems names fs (strArr names fs)
  | .nil, _ => by simpa [strArr] using WItems.nil
  | .item v r, h => by
    have hp : Printable v = true ∧ PrintableArr r = true := by simpa [PrintableArr] using h
    have hr := arr_ok names r hp.2
    have hnil : r = .nil → strArr names r = [] := by intro e; subst e; simp [strArr]
    have hv := str_ok names v hp.1 13
    have := WItems.item hv hr
    simpa [strArr, condLevel_eq, List.append_assoc, sepArr_eq r _ hnil] using this
  | .spread v r, h => by
    have hp : Printable v = true ∧ PrintableArr r = true := by simpa [PrintableArr] using h
    have hr := arr_ok names r hp.2
    have hnil : r = .nil → strArr names r = [] := by intro e; subst e; simp [strArr]
    have hv := str_ok names v hp.1 13
    have := WItems.spread hv hr
    simpa [strArr, condLevel_eq, List.append_assoc, sepArr_eq r _ hnil] using this
  | .hole r, h => by
    have hr := arr_ok names r (by simpa [PrintableArr] using h)
    simpa [strArr] using WItems.hole hr
end

/-- **C14, expressions.** The text printed for a binding expression derives, in the WXML expression
grammar with the parser's own precedence levels, exactly the expression that was printed. -/
theorem str_derives (names : Nat → String) (e : Expr) (h : Printable e = true) :
    W names 13 e (strExpr names e) := by
  simpa [strExpr, condLevel_eq] using str_ok names e h 13

/-! non-vacuity: the premise is satisfiable, e.g. by `(a ?? b) * -c.d` (printed `(a??b)* -c.d`, checked by the
correspondence stream of the C14 check, which runs this model against the implementation) -/
def exE : Expr := .bin .Multiply (.bin .NullishCoalescing (.data "a") (.data "b")) (.un .Negative (.smember (.data "c") "d"))
example : W (fun _ => "s") 13 exE (strExpr (fun _ => "s") exE) := str_derives _ _ (by decide)

end GE.Str
