/-
C02 / C04 — every callback the body of a generated children function invokes is one of its parameters.

The children function of a node list is emitted as `(<params>)=>{ <one statement per child> }`; the statement of a child
calls `T(…)`, `E(…)`, `B(…)`, `F(…)`, `S(…)` or `J(…)`, which are PARAMETERS of that function, chosen by
`to_proc_gen_function_args` from the "highest" kind of child present.  A callback that is called but not declared
is a ReferenceError at run time (or, in sloppy mode, a silent capture of an outer function's callback).
`args_cover`: for every list of child kinds, with or without slot values, every callback any child's statement
calls is among the parameters — given the tables regenerated from the source on every run.
-/
import GE.Model.ChildArgs

namespace GE.ChildArgs
open GE.Extracted

def allKinds : List String := ["Text", "Normal", "If", "For", "Slot", "Pure", "Include", "TemplateRef", "Comment", "UnknownMetaTag"]

/-- table obligation (re-checked against the regenerated tables): at every level at or above a kind's own level the
parameter list contains the callbacks that kind calls; levels are numbered without gaps up to the slot-value level -/
theorem table_ok_range : ∀ k ∈ allKinds, ∀ n ∈ List.range (levelNum "WithSlotValues" + 1), levelOfKind k ≤ n →
    ∀ c ∈ calls k, c ∈ paramsOfNum n := by decide

theorem table_ok (k : String) (hk : k ∈ allKinds) (n : Nat) (h1 : levelOfKind k ≤ n) (h2 : n ≤ levelNum "WithSlotValues")
    (c : String) (hc : c ∈ calls k) : c ∈ paramsOfNum n :=
  table_ok_range k hk n (List.mem_range.mpr (by omega)) h1 c hc

/-- the parameter list as text is the parameter list joined by commas (re-checked against the regenerated tables) -/
theorem params_text : ∀ e ∈ levelArgs, (levelParams.lookup e.1).map (String.intercalate ",") = some e.2 := by decide

theorem kind_le_slot : ∀ k ∈ allKinds, levelOfKind k ≤ levelNum "WithSlotValues" := by decide

theorem calls_nil_of_unknown (k : String) (h : k ∉ allKinds) : calls k = [] := by
  unfold calls
  split <;> simp_all [allKinds]

theorem le_maxLevel {k : String} {ks : List String} (h : k ∈ ks) : levelOfKind k ≤ maxLevel ks := by
  induction ks with
  | nil => cases h
  | cons x xs ih =>
    simp only [maxLevel]
    rcases List.mem_cons.mp h with rfl | h'
    · exact Nat.le_max_left _ _
    · exact Nat.le_trans (ih h') (Nat.le_max_right _ _)

theorem lookup_none {β : Type} (k : String) : ∀ (l : List (String × β)), (∀ e ∈ l, e.1 ≠ k) → l.lookup k = none
  | [], _ => rfl
  | (a, b) :: l, h => by
    have hne : (k == a) = false := by
      simp only [beq_eq_false_iff_ne, ne_eq]
      exact fun e => h (a, b) (by simp) e.symm
    simp only [List.lookup, hne]
    exact lookup_none k l (fun e he => h e (by simp [he]))

/-- the table speaks of known kinds only (re-checked against the regenerated table) -/
theorem childLevel_keys : ∀ e ∈ childLevel, e.1 ∈ allKinds := by decide

theorem levelOfKind_unknown (k : String) (h : k ∉ allKinds) : levelOfKind k = 0 := by
  unfold levelOfKind
  have : childLevel.lookup k = none :=
    lookup_none k childLevel (fun e he hk => h (hk ▸ childLevel_keys e he))
  simp [this]

theorem maxLevel_le_slot : ∀ ks : List String, maxLevel ks ≤ levelNum "WithSlotValues"
  | [] => Nat.zero_le _
  | k :: ks => by
    simp only [maxLevel]
    refine Nat.max_le.mpr ⟨?_, maxLevel_le_slot ks⟩
    by_cases hk : k ∈ allKinds
    · exact kind_le_slot k hk
    · rw [levelOfKind_unknown k hk]; exact Nat.zero_le _

/-- **every callback called is declared** -/
theorem args_cover (kinds : List String) (withSlotValues : Bool) (k : String) (hk : k ∈ kinds) (c : String) (hc : c ∈ calls k) :
    c ∈ functionParams kinds withSlotValues := by
  by_cases hka : k ∈ allKinds
  · unfold functionParams
    split
    · exact table_ok k hka _ (kind_le_slot k hka) (Nat.le_refl _) c hc
    · exact table_ok k hka _ (le_maxLevel hk) (maxLevel_le_slot kinds) c hc
  · rw [calls_nil_of_unknown k hka] at hc; cases hc

/-! non-vacuity -/
example : functionParams ["Text", "If", "Normal"] false = ["C", "T", "E", "B"] := by decide
example : functionParams ["Comment"] false = ["C"] := by decide
example : functionParams ["Text"] true = ["C", "T", "E", "B", "F", "S", "J", "V", "W"] := by decide

end GE.ChildArgs
