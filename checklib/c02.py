"""C02 — every emitted JavaScript artefact is a syntactically valid program (DESIGN.md §9 C02)."""
import json
from . import core, tmplgen as tg, render, mutate

THM_VARNAME = [
    "GE.VarName.varName_valid", "GE.VarName.varName_injective", "GE.VarName.varName_not_preserved",
    "GE.VarName.nextVarName_total", "GE.VarName.allocated_not_reserved", "GE.VarName.allocated_distinct",
    "GE.VarName.private_disjoint", "GE.VarName.private_valid", "GE.VarName.reserved_covers_spec",
]
THM_EXPR = ["GE.Gen.gen_derives", "GE.Gen.prepare_derives", "GE.TagGen.if_selector_derives"]
THM_LIT = ["GE.JsLit.decode_genLitStr"]
ARTS = ["gen_groups", "wx_groups", "runtime", "globals", "all_scripts"]

HOSTILE_PATHS = ["a'b", 'a"b', "a\\b", "a\nb", "a b", "é/中", "a b", "a#b", "</script>", "${x}", "a`b", "\U0001F600", "a\0b", "a/../b", ""]
HOSTILE_NAMES = ["a.1", "a-b", "if", "class", "1a", "a.b.c", "_", "A", "constructor", "__proto__", "x1"]


# valid JavaScript bodies of script modules, including ones whose last token is a comment without a line end
SCRIPT_BODIES = ["exports.f=function(x){return x} // comment, then a blank ", "exports.f=function(x){return x} // comment, then a tab\t", "exports.f=1 //\u00a0", "exports.f=1 // c\r",
                 "exports.f=function(x){return x}", "exports.f=function(x){return x} // trailing comment", "exports.f=function(x){return x}\n<!-- html comment",
                 "exports.f=function(x){return x};/* c */", "// only a comment", "", "exports.f=function(x){return x}\n", "exports.f=(x)=>x // }"]


def run(chk):
    quick = chk.tier != "thorough"
    chk.rule = ("(1) generated identifiers: model vs get_var_name/next_var_name for every id below N (exhaustive); (2) every artefact (per-template object, "
                "all-templates bundle, MiniProgram bundle, runtime prelude, globals, script export) of generated templates — well-formed, with hostile "
                "paths/module/slot/attribute names, and mutated/malformed ones with diagnostics — parsed by V8 in sloppy and strict mode; large templates up "
                "to N nodes; non-trivial = artefact of a non-empty template")
    chk.trusted = ["Lean 4.33 kernel", "axioms ⊆ {propext, Classical.choice, Quot.sound}", "GE/Spec/JsLex.lean, GE/Spec/JsGrammar.lean, GE/Spec/JsString.lean",
                   "extracted tables (VAR_NAME_*, levels, arms)", "V8 (vm.Script) as the JavaScript syntax oracle",
                   "derivable-in-G ⇒ accepted by V8, and lexing of concatenated spellings, are validated by the oracle, not proved"]
    chk.assumptions = ["inline script bodies are valid JavaScript (property premise)",
                       "PARTIAL: proved = identifiers (valid, unreserved, distinct), string literals, value expressions and hoisted statements, if-selector statements; "
                       "the statement skeleton of the tag-level generator (arrow functions, var lists, if/else blocks) is covered by the oracle only"]
    chk.model_tie([("GE.Thm.C02VarName", THM_VARNAME), ("GE.Thm.C04", THM_EXPR), ("GE.Thm.C12", THM_LIT),
                   ("GE.Thm.C02Args", ["GE.ChildArgs.args_cover", "GE.ChildArgs.table_ok_range", "GE.ChildArgs.params_text", "GE.ChildArgs.childLevel_keys"]),
                   ("GE.Thm.C02Writer", ["GE.JsWriter.monitor_sound", "GE.JsWriter.names_fresh", "GE.JsWriter.runFs_keeps", "GE.JsWriter.allocId_spec"]),
                   ("GE.Thm.C02WriterMono", ["GE.JsWriter.root_declared_increasing", "GE.JsWriter.root_names_nodup"])])
    from . import childargs
    childargs.run(chk)
    rng = chk.rng.fork("c02")
    # ---- identifiers ---------------------------------------------------------------------------
    N = 250000 if quick else 5000000
    step = 1
    reqs = [core.req("var_name", str(i)) for i in range(0, N, step)] + [core.req("next_var_name", str(i)) for i in range(0, min(N, 300000), 1)]
    real = core.run_harness(reqs)
    core.diff_streams(chk, "var_name", reqs, real, core.run_driver(reqs))
    chk.programs += len(reqs)
    # oracle on identifiers: V8 accepts `var <name>` in strict mode for every allocated name below 300k (batched)
    names = [core.unesc(a.split("\t")[0]) for a in real[len(range(0, N, step)):]]
    uniq = sorted(set(names))
    batches = [uniq[i:i + 5000] for i in range(0, len(uniq), 5000)]
    outs = core.run_node([{"op": "syntax", "src": "var " + ",".join(b) + ";"} for b in batches])
    for b, o in zip(batches, outs):
        if not (o.get("sloppy") and o.get("strict")):
            # bisect to one name
            for nm in b:
                o1 = core.run_node([{"op": "syntax", "src": f"var {nm};"}])[0]
                if not (o1.get("sloppy") and o1.get("strict")):
                    chk.violation("input", f"generated identifier {nm!r} cannot be declared in JavaScript: {o1.get('err') or o1.get('errStrict')}", name=nm)
                    break
    # ---- artefacts -------------------------------------------------------------------------------
    n = 300 if quick else 6000
    filesets = []
    for i in range(n):
        r = rng.fork(("t", i))
        g = tg.TmplGen(r, max_depth=3)
        t = g.template()
        src = tg.Printer(r.fork("p"), vary=(i % 2 == 1)).template(t)
        kind = i % 4
        path = "p"
        scripts = []
        if kind >= 1:
            # hostile names and scopes
            path = r.choice(HOSTILE_PATHS)
            mod = r.choice(["m", "mod1", "$m", "_m"])
            body = r.choice(SCRIPT_BODIES)
            src += '<wxs module="%s">%s</wxs><v a="{{%s.f(1)}}" bind:tap="{{%s.f}}"/>' % (mod, body, mod, mod)
            nm = r.choice(HOSTILE_NAMES)
            src += '<v slot:%s="sv"><v x="{{sv}}"/></v><v slot:%s/>' % (nm, r.choice(HOSTILE_NAMES))
            src += '<wxs module="e" src="%s"/><import src="%s"/><include src="%s"/>' % (r.choice(["/s", "s", "../s"]), r.choice(["q", "/q"]), r.choice(["q", "./q"]))
            src += '<v %s="1" data-%s="2" mark:%s="3" bind:%s="h" generic:%s="g"/>' % tuple(r.choice(["a.b", "a-b", "x1", "A", "if"]) for _ in range(5))
            scripts = [[r.choice(HOSTILE_PATHS + ["s"]), r.choice(SCRIPT_BODIES)]] if r.chance(3, 4) else []
        if kind == 3:
            src = mutate.mutate(r.fork("m"), src)
        fs = {"files": [[path, src], ["q", "<v/>{{a}}"]], "scripts": scripts, "dev": (i % 7 == 0)}
        if i % 3 == 0:
            # set_extra_runtime_script, with and without scripts: complete programs, also ones without their last `;` or ending in a line comment (D73)
            fs["extra"] = r.choice(["var foo=1;", "function extra(){}", "var a=1;var b=2;", "var foo=1", "foo()", "var foo=1 // c", "var foo=1;// c ", "if(0){}", "var a=1\nvar b=2"])
        filesets.append(fs)
    # every expression form x child form x operand position (depth 2) as attribute, text, wx:if / wx:for operand and template data: the guards
    # and update-path trees written for them are part of the artefacts
    from . import exprgen as eg
    shapes = []
    for t_ in eg.enum_depth2()[:: (3 if quick else 1)] + eg.forms(lambda i: [("data", "x"), ("data", "y"), ("data", "z")][i]):
        try:
            e = eg.src(tg.requote(t_, "'"), "min")
        except Exception:
            continue
        if '"' not in e:
            shapes.append(e)
    # sign adjacency, in every tier: a prefix + / - (or a negative literal) next to a binary + / - must not fuse into ++ / --
    shapes += ["x - -y", "x + +y", "x - +y", "x + -y", "x - -1", "x + +1", "x - - -y", "- -x", "+ +x", "- +x", "x - -y - -z", "x + +y + +z", "-x - -y", "x - (-y)", "x + (+y)",
               "x - -y.z", "x + +y[0]", "typeof -x", "void -x - -y", "!-x", "x - -(y)", "x * -y", "x / -y", "x % +y", "x < -y", "x > +y", "x - (-1)", "(x - -y) - -z"]
    for j in range(0, len(shapes), 12):
        body = "".join('<v data-a="{{ %s }}" wx:if="{{ %s }}">{{ %s }}<block wx:for="{{ %s }}">{{index}}</block></v>' % (e, e, e, e) for e in shapes[j:j + 12])
        body += '<template name="t">{{p}}</template>' + "".join('<template is="t" data="{{ p: %s, ...%s }}"/>' % (e, e) for e in shapes[j:j + 12] if not e.startswith("{"))
        filesets.append({"files": [["p", body]]})
    chk.bump("oracle:expression-shape-bindings", len(shapes))
    for i in range(60 if quick else 2000):
        filesets.append({"files": [["p", mutate.raw(rng.fork(("raw", i)))]]})
    # large templates
    big = 20000 if quick else 250000
    unit = '<view class="c {{a}}" wx:if="{{b}}" bind:tap="t">x{{a+1}}<v wx:for="{{l}}" wx:key="k" data-a="{{item.k}}">{{index}}</v></view><v wx:else/>'
    filesets.append({"files": [["big", unit * (big // 4)]]})
    deep = "".join("<view a%d=\"{{x%d}}\">" % (i, i) for i in range(60)) + "t" + "</view>" * 60
    filesets.append({"files": [["deep", deep * 50]]})
    # many identifiers in one scope (names beyond one letter, incl. the ids that spell reserved words)
    filesets.append({"files": [["wide", "".join('<v a="{{x%d}}"><v/></v>' % i for i in range(3000))]]})
    # every allocation path (hoisted branch variable of a wx:if group, hoisted key of <template is>, hoisted children functions, the generated parameters of
    # a wx:for item function) at every counter value around the ids whose names spell reserved words (`if` 2218, `in` 2634, `do` 2681): five phase shifts of
    # a 5-identifier cycle behind ~2190 one-identifier fillers (round 11, C02-11: one path bypassed the reserved-word filter)
    for off in range(5):
        cyc = '<v wx:if="{{a}}"/><template is="t"/><v wx:for="{{l}}"/>'
        filesets.append({"files": [["phase%d" % off, '<template name="t">x</template>' + "<v/>" * (2185 + off) + cyc * 110]]})
    for extra in ("var foo=1", "foo()", "var foo=1 // c", "/* c */", "var a=[1]"):
        filesets.append({"files": [["p", "<v/>"]], "scripts": [["s", "exports.f=1"]], "extra": extra})
        filesets.append({"files": [["p", '<wxs module="m">exports.f=1</wxs>{{m.f}}']], "scripts": [], "extra": extra})
    from . import jswriter
    jswriter.run(chk, filesets, cap=150 if quick else 1500)
    answers = core.run_harness([core.req("group", json.dumps(fs)) for fs in filesets], timeout=3600)
    sreqs, smeta = [], []
    for fi, (fs, a) in enumerate(zip(filesets, answers)):
        if a.startswith("PANIC"):
            chk.violation("input", f"compiler panicked: {a[:200]}", files=fs["files"] if len(json.dumps(fs)) < 5000 else "(large)")
            continue
        o = json.loads(a)
        # property premise: inline script bodies are valid JavaScript (a mutation may have broken one)
        bodies = [c for mods in o.get("inline_modules", {}).values() for c in mods.values()]
        if bodies:
            pre = core.run_node([{"op": "syntax", "src": "(function(require,exports,module){" + c + "\n})"} for c in bodies])
            if not all(x.get("sloppy") and x.get("strict") for x in pre):
                chk.bump("skipped:inline-script-not-valid-js")
                continue
        arts = {k: o[k] for k in ARTS}
        for p, code in o["per"].items():
            arts["per:" + p] = code
        for k, code in arts.items():
            if isinstance(code, dict):
                # an Err from the emitter is not a syntax problem; record it
                chk.bump("emitter-returned-error")
                continue
            src = code if k in ("runtime", "globals", "all_scripts") else "(" + code + ")"
            if k == "all_scripts":
                src = "var R={},D=function(){return function(){}};" + code
            if k == "wx_groups":
                src = code
            sreqs.append({"op": "syntax", "src": src})
            smeta.append((fi, k))
    souts = core.run_node(sreqs, timeout=3600)
    nb = 0
    for (fi, k), o, rq in zip(smeta, souts, sreqs):
        fs = filesets[fi]
        small = len(json.dumps(fs)) < 4000
        chk.case((fi, k), nontrivial=len(rq["src"]) > 40,
                 sample=dict(artefact=k, files=fs["files"], code=rq["src"][:300]) if small and len(chk.samples) < 4 and k.startswith("per") else None)
        if not (o.get("sloppy") and o.get("strict")):
            nb += 1
            if nb <= 4:
                chk.violation("input", f"artefact {k} does not parse as JavaScript ({'sloppy' if not o.get('sloppy') else 'strict'}): {o.get('err') or o.get('errStrict')}",
                              artefact=k, files=fs["files"] if small else "(large template)", scripts=fs.get("scripts"), code=rq["src"][:1500] if small else rq["src"][:300])
    chk.programs += len(sreqs)
    chk.bump("oracle:v8-parsed-artefacts", len(sreqs))


def replay(chk, path):
    o = json.load(open(path))["first"]
    if "files" in o and isinstance(o["files"], list):
        a = json.loads(core.run_harness([core.req("group", json.dumps({"files": o["files"], "scripts": o.get("scripts") or []}))])[0])
        k = o["artefact"]
        code = a["per"][k[4:]] if k.startswith("per:") else a[k]
        r = core.run_node([{"op": "syntax", "src": "(" + code + ")" if k not in ("runtime", "globals", "all_scripts", "wx_groups") else code}])[0]
        print(r)
        if not (r.get("sloppy") and r.get("strict")):
            chk.violation("input", "replayed: artefact does not parse", artefact=k, files=o["files"])
    return chk.finish()
