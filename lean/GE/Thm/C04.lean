import GE.Model.TagGen
import GE.Thm.C02Expr
/-!
# C04 (partial, proved part) — creation renders what WXML denotes

Proved here for all inputs:
* **branch selection**: the statement selecting the branch of a `wx:if/elif/else` group is read by
  JavaScript as `c1 ? 1 : c2 ? 2 : … : 0`, whatever the conditions are (this is the embedding
  obligation that the unrepaired `??` emission violated);
* **name normalisation** facts of `dash_to_camel` and of the `data-` rule.
The end-to-end statement (`tree(run(gen t) D) = render t D`) is checked by the oracle only.
-/
namespace GE.TagGen
open GE.Spec GE.Gen

theorem gen_no_paren {scopes e allow n} (h : lvl e ≤ allow) : gen scopes e allow n = genBody scopes e n := by
  unfold gen
  simp [Nat.not_lt.mpr h]

/-- a prepared condition, parenthesised when `above_cond_expr`, is a LogicalORExpression operand -/
theorem cond_operand_derives (scopes : List ScopeInfo) (e : Expr) (n : Nat) :
    G 12 (gen scopes e condLevel n).js
      (if aboveCond e then Tok.p "(" :: ((gen scopes e condLevel n).toks ++ [Tok.p ")"])
       else (gen scopes e condLevel n).toks) := by
  have hd := (gen_derives scopes e condLevel n).1
  rw [condLevel_eq] at hd
  split
  · exact (G.paren hd).mono (Nat.zero_le _)
  · rename_i hn
    have hlt : lvl e < 13 := by
      simp only [aboveCond, condLevel_eq, decide_eq_true_eq, Nat.not_le] at hn
      exact hn
    have hb := (body_ok scopes e n).1
    rw [condLevel_eq, gen_no_paren (by omega)]
    exact hb.mono (by omega)

/-- every entry produced by `prepareAll` for a dynamic condition carries its prepared output -/
def Prepared (scopes : List ScopeInfo) : List (CondItem × Option Out) → Prop
  | [] => True
  | (.dyn e, some o) :: r => (∃ n, o = gen scopes e condLevel n) ∧ Prepared scopes r
  | (.dyn _, none) :: _ => False
  | (_, _) :: r => Prepared scopes r

theorem prepareAll_prepared (scopes : List ScopeInfo) :
    ∀ cs n, Prepared scopes (prepareAll scopes cs n).1
  | [], n => by simp [prepareAll, Prepared]
  | .dyn e :: r, n => by
    simp only [prepareAll, Prepared]
    exact ⟨⟨n, rfl⟩, prepareAll_prepared scopes r _⟩
  | .els :: r, n => by simpa [prepareAll, Prepared] using prepareAll_prepared scopes r n
  | .static s :: r, n => by simpa [prepareAll, Prepared] using prepareAll_prepared scopes r n

/-- **The branch selector is the conditional chain `c1 ? 1 : c2 ? 2 : … : 0`.** -/
theorem selector_derives (scopes : List ScopeInfo) :
    ∀ (items : List (CondItem × Option Out)) (i : Nat), Prepared scopes items →
      G 13 (selJs items i) (selToks items i)
  | [], i, _ => (G.num "0").mono (Nat.zero_le _)
  | (.els, _) :: r, i, _ => by simpa [selJs, selToks] using (G.num "0").mono (Nat.zero_le 13)
  | (.static s, o) :: r, i, h => by
    have ih := selector_derives scopes r (i + 1) (by simpa [Prepared] using h)
    have := G.cond ((G.str s).mono (Nat.zero_le 12)) ((G.num (toString (i + 1))).mono (Nat.zero_le 13)) ih
    simpa [selJs, selToks] using this
  | (.dyn e, some o) :: r, i, h => by
    simp only [Prepared] at h
    obtain ⟨⟨n, rfl⟩, hr⟩ := h
    have ih := selector_derives scopes r (i + 1) hr
    have hc := cond_operand_derives scopes e n
    have := G.cond hc ((G.num (toString (i + 1))).mono (Nat.zero_le 13)) ih
    simpa [selJs, selToks, List.append_assoc] using this
  | (.dyn e, none) :: r, i, h => by simp [Prepared] at h

/-- the statement as generated for a list of conditions -/
theorem if_selector_derives (scopes : List ScopeInfo) (cs : List CondItem) (n : Nat) :
    G 13 (selJs (prepareAll scopes cs n).1 0) (selToks (prepareAll scopes cs n).1 0) :=
  selector_derives scopes _ 0 (prepareAll_prepared scopes cs n)

/-! ## names -/

/-- names without a dash are delivered unchanged -/
theorem dashToCamel_of_no_dash (s : List Char) (h : '-' ∉ s) : dashToCamel s = s := by
  unfold dashToCamel
  induction s with
  | nil => simp [dashToCamelAux]
  | cons c cs ih =>
    have hc : c ≠ '-' := fun e => h (by simp [e])
    have hcs : '-' ∉ cs := fun m => h (by simp [m])
    simp [dashToCamelAux, hc, ih hcs]

/-- a dash is dropped and the next character upper-cased: `a-b…` ↦ `aB…` -/
theorem dashToCamel_dash (pre : List Char) (c : Char) (rest : List Char) (hpre : '-' ∉ pre) (hc : c ≠ '-') :
    dashToCamel (pre ++ '-' :: c :: rest) = pre ++ c.toUpper :: dashToCamelAux rest false := by
  unfold dashToCamel
  induction pre with
  | nil => simp [dashToCamelAux, hc]
  | cons p ps ih =>
    have hp : p ≠ '-' := fun e => hpre (by simp [e])
    have hps : '-' ∉ ps := fun m => hpre (by simp [m])
    simp [dashToCamelAux, hp, ih hps]

example : dashToCamel "hover-class".toList = "hoverClass".toList := by decide
example : dataHyphenName "data-A-bC".toList = "aBc".toList := by decide

end GE.TagGen
