/-! GENERATED from /repo/glass-easel-template-compiler/src/stringify/expr.rs by checklib/extractors.py — do not edit. -/
namespace GE.Extracted
def strParenRuleOk : Bool := true
/-- (variant, operator text, operand level) -/
def strUnArms : List (String × String × String) := [
  ("Reverse", "!", "Unary"),
  ("BitReverse", "~", "Unary"),
  ("Positive", " +", "Unary"),
  ("Negative", " -", "Unary"),
  ("TypeOf", " typeof ", "Unary"),
  ("Void", " void ", "Unary")]
/-- (variant, left level, operator text, right level) -/
def strBinArms : List (String × String × String × String) := [
  ("Multiply", "Multiply", "*", "Unary"),
  ("Divide", "Multiply", "/", "Unary"),
  ("Remainer", "Multiply", "%", "Unary"),
  ("Plus", "Plus", "+", "Multiply"),
  ("Minus", "Plus", "-", "Multiply"),
  ("LeftShift", "Shift", "<<", "Plus"),
  ("RightShift", "Shift", ">>", "Plus"),
  ("UnsignedRightShift", "Shift", ">>>", "Plus"),
  ("Lt", "Comparison", "<", "Shift"),
  ("Lte", "Comparison", "<=", "Shift"),
  ("Gt", "Comparison", ">", "Shift"),
  ("Gte", "Comparison", ">=", "Shift"),
  ("InstanceOf", "Comparison", " instanceof ", "Shift"),
  ("Eq", "Eq", "==", "Comparison"),
  ("Ne", "Eq", "!=", "Comparison"),
  ("EqFull", "Eq", "===", "Comparison"),
  ("NeFull", "Eq", "!==", "Comparison"),
  ("BitAnd", "BitAnd", "&", "Eq"),
  ("BitXor", "BitXor", "^", "BitAnd"),
  ("BitOr", "BitOr", "|", "BitXor"),
  ("LogicAnd", "LogicAnd", "&&", "BitOr"),
  ("LogicOr", "LogicOr", "||", "LogicAnd"),
  ("NullishCoalescing", "LogicOr", "??", "LogicAnd")]
def strCondArm : String × String × String := ("LogicOr", "Cond", "Cond")
def strMemberArmOk : Bool := true
def strIndexArmOk : Bool := true
def strCallArmOk : Bool := true
end GE.Extracted
