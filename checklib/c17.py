"""C17 — :host conversion partitions rules without loss (DESIGN.md §9 C17)."""
from . import csscheck

THEOREMS = [
    "GE.Css.host_rule_moves",
    "GE.Css.writeLow_spec",
    "GE.Css.host_combination_dropped",
    "GE.Css.host_off_generic",
    "GE.Css.not_host_generic",
    "GE.Css.generic_keeps_low",
    "GE.Css.wrote_hostBody",
]


def focus(r, o):
    if r.chance(3, 4):
        o["convert_host"] = True


def extra_cases(rng, quick):
    """`:host` rules before, inside and AFTER nested at-rules of the same enclosing at-rule (the wrapper of a `:host` that follows a closed inner
    at-rule is the enclosing chain again), at several depths, with ordinary rules in between"""
    from . import cssgen
    out = []
    H = lambda c: ":host{color:%s}" % c
    inner = ["@supports (display:grid){.b{x:1} %s}" % H("green"), "@media print{%s .i{y:2}}" % H("gray"), "@layer l{@supports (a:b){%s}}" % H("teal"), "@media (min-width:2px){.n{z:3}}"]
    for wrap in ("@media (min-width:100px){%s}", "@supports (display:flex){%s}", "@layer base{@media screen{%s}}", "%s"):
        for a in inner:
            for b in inner[:2] + [""]:
                body = " ".join([H("red"), a, ".c{w:1}", H("blue"), b, H("black")])
                css = (wrap % body) + " " + H("white") + " .z{q:1}"
                for o in ({"convert_host": True, "class_prefix": "p"}, {"convert_host": True, "class_prefix": "p", "host_is": "comp/x"}, {"convert_host": False}):
                    base = cssgen.gen_options(rng.fork(("o", len(out))))
                    base.update(o)
                    out.append((base, css))
    return out


def run(chk):
    chk.rule = ("generated stylesheets with :host rules at arbitrary at-rule nesting depth interleaved with ordinary rules x {convert_host, "
                "class_prefix, host_is}; (1) model vs implementation on both outputs and the warnings; (2) oracle: every rule appears exactly once "
                "over the two outputs, host rules in the low output under the same at-rule chain with the attribute selector, combinations dropped "
                "with one warning each, order of the other rules kept; non-trivial = stylesheet containing :host")
    chk.trusted = csscheck.TRUSTED
    chk.assumptions = ["host_rule_moves / host_combination_dropped / host_off_generic are theorems about one rule (`qualRule`): a pure `:host{}` "
                       "writes nothing to the normal output and exactly [chain…{ selector { block } }…] to the low output with balanced braces, a "
                       "combination changes neither output and adds one warning, anything else is the generic rule and leaves the low output "
                       "untouched; PARTIAL: that the rule loop (`rules`, fuel-bounded in the model) visits every rule once and keeps the order is "
                       "covered by correspondence + oracle, not by a theorem"]
    csscheck.run_property(chk, "C17", "GE.Thm.C17", THEOREMS, 700, 12000, focus=focus, extra_cases=extra_cases,
                          nontrivial=lambda o, css, res: ":host" in css)


def replay(chk, path):
    return csscheck.replay(chk, "C17", path)
