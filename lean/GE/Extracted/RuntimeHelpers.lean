/-! GENERATED from /repo/glass-easel-template-compiler/src/group.rs by checklib/extractors.py — do not edit. -/
namespace GE.Extracted
def runtimeItems : List (String × String) := [("X", "function(a){return a==null?Object.create(null):a}"), ("Y", "function(a){return a==null?'':String(a)}"), ("Z", "function(a,b){if(a===true)return true;if(a)return a[b]}"), ("P", "function(a){return typeof a==='function'?a:()=>{}}")]
def extraRuntimeItems : List (String × String) := [("a", "function(a){for(var i=0;i<a.length;i++)if(a[i])return a}"), ("b", "function(b){var a=Object.values(b);for(var i=0;i<a.length;i++)if(a[i])return b}"), ("c", "function(a){var b={};for(var k in a)b[k]=true;return b}")]
end GE.Extracted
