import GE.Spec.JsGrammar
/-!
Specification: the WXML expression grammar as the parser reads it (`parse/expr.rs`), as a stratified
derivation relation between the expression AST and token lists.  Levels: 0 primary, 1 member / index /
call, 2 unary, 3 multiplicative … 11 `&&`, 12 `||` and `??` (one left-associative level, as in
`parse_left_to_right!(parse_logic_or, parse_logic_and, logic_or, nullish_coalescing)`), 13 conditional.
Differences from ECMAScript: `??` shares the level of `||`; there is no comma operator; array and object
literals may contain spreads; an object field may be the shorthand `{a}`.
`names i` is the spelling of scope `i` (a scope reference is written as its name).
-/
namespace GE.SpecW
open GE.Spec (Tok spells unText binText)

/-- level of a binary operator in the parser's chain -/
def wLevel : BinOp → Nat
  | .Multiply | .Divide | .Remainer => 3
  | .Plus | .Minus => 4
  | .LeftShift | .RightShift | .UnsignedRightShift => 5
  | .Lt | .Gt | .Lte | .Gte | .InstanceOf => 6
  | .Eq | .Ne | .EqFull | .NeFull => 7
  | .BitAnd => 8 | .BitXor => 9 | .BitOr => 10 | .LogicAnd => 11
  | .LogicOr | .NullishCoalescing => 12

/-- the comma before the remaining fields of a list (nothing after the last one) -/
def sepArgs (r : Exprs) (tr : List Tok) : List Tok := match r with | .nil => [] | _ => Tok.p "," :: tr
def sepObj (r : ObjFields) (tr : List Tok) : List Tok := match r with | .nil => [] | _ => Tok.p "," :: tr
def sepArr (r : ArrFields) (tr : List Tok) : List Tok := match r with | .nil => [] | _ => Tok.p "," :: tr

mutual
inductive W (names : Nat → String) : Nat → Expr → List Tok → Prop
  | data (s) : W names 0 (.data s) [.id s]
  | scope (i) : W names 0 (.scope i) [.id (names i)]
  | undef : W names 0 .undef [.id "undefined"]
  | null : W names 0 .null [.id "null"]
  | bool (b) : W names 0 (.bool b) [.id (if b then "true" else "false")]
  | str (s) : W names 0 (.str s) [.str s]
  | num (e t) : W names 0 e [.num t]     -- a numeric literal; which number `t` denotes is C03's subject
  | paren {e ts} : W names 13 e ts → W names 0 e (Tok.p "(" :: (ts ++ [Tok.p ")"]))
  | arr {fs ts} : WItems names fs ts → W names 0 (.arr fs) (Tok.p "[" :: (ts ++ [Tok.p "]"]))
  | obj {fs ts} : WFields names fs ts → W names 0 (.obj fs) (Tok.p "{" :: (ts ++ [Tok.p "}"]))
  | member {o n to} : W names 1 o to → W names 1 (.smember o n) (to ++ [Tok.p ".", Tok.id n])
  | index {o i to ti} : W names 1 o to → W names 13 i ti →
      W names 1 (.dmember o i) (to ++ Tok.p "[" :: (ti ++ [Tok.p "]"]))
  | call {f args tf ta} : W names 1 f tf → WArgs names args ta →
      W names 1 (.call f args) (tf ++ Tok.p "(" :: (ta ++ [Tok.p ")"]))
  | un {op e te sp} : spells sp (unText op) = true → W names 2 e te → W names 2 (.un op e) (Tok.p sp :: te)
  | bin {op a b ta tb sp} : spells sp (binText op) = true →
      W names (wLevel op) a ta → W names (wLevel op - 1) b tb →
      W names (wLevel op) (.bin op a b) (ta ++ Tok.p sp :: tb)
  | cond {c t f tc tt tf} : W names 12 c tc → W names 13 t tt → W names 13 f tf →
      W names 13 (.cond c t f) (tc ++ Tok.p "?" :: (tt ++ Tok.p ":" :: tf))
  | up {l e ts} : W names l e ts → W names (l + 1) e ts
inductive WArgs (names : Nat → String) : Exprs → List Tok → Prop
  | nil : WArgs names .nil []
  | cons {e r ts tr} : W names 13 e ts → WArgs names r tr → WArgs names (.cons e r) (ts ++ sepArgs r tr)
inductive WItems (names : Nat → String) : ArrFields → List Tok → Prop
  | nil : WItems names .nil []
  | item {e r ts tr} : W names 13 e ts → WItems names r tr → WItems names (.item e r) (ts ++ sepArr r tr)
  | spread {e r ts tr} : W names 13 e ts → WItems names r tr →
      WItems names (.spread e r) (Tok.p "..." :: (ts ++ sepArr r tr))
  /-- an elision is an empty entry followed by a comma -/
  | hole {r tr} : WItems names r tr → WItems names (.hole r) (Tok.p "," :: tr)
inductive WFields (names : Nat → String) : ObjFields → List Tok → Prop
  | nil : WFields names .nil []
  | named {k b v r ts tr} : W names 13 v ts → WFields names r tr →
      WFields names (.named k b v r) (Tok.id k :: Tok.p ":" :: (ts ++ sepObj r tr))
  /-- shorthand `{a}`: the value is the data field (or the scope) of that name -/
  | shortData {k b r tr} : WFields names r tr → WFields names (.named k b (.data k) r) (Tok.id k :: sepObj r tr)
  | shortScope {k b i r tr} : names i = k → WFields names r tr →
      WFields names (.named k b (.scope i) r) (Tok.id k :: sepObj r tr)
  | spread {v r ts tr} : W names 13 v ts → WFields names r tr →
      WFields names (.spread v r) (Tok.p "..." :: (ts ++ sepObj r tr))
end

theorem W.mono {names l l' e ts} (h : W names l e ts) (hl : l ≤ l') : W names l' e ts := by
  induction hl with
  | refl => exact h
  | step _ ih => exact .up ih

end GE.SpecW
