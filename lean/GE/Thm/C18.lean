import GE.Model.Css
/-!
# C18 — `@import` placeholder: the path is recoverable and cannot end the comment

`urlencoding::encode` as used for the placeholder `/*<sign> <encoded path>*/`:
* decoding (percent-decoding, the inverse every consumer applies) gives back exactly the bytes of
  the path, for every byte string;
* the encoded text contains only `[A-Za-z0-9-_.~%]`, hence neither `*` nor `/`: the comment cannot
  be terminated early whatever the path contains.
-/
namespace GE.Css

def encodeBytes (bs : List Nat) : List Char := bs.flatMap encodeByte

def hexVal (c : Char) : Option Nat :=
  if '0' ≤ c ∧ c ≤ '9' then some (c.toNat - 48)
  else if 'A' ≤ c ∧ c ≤ 'F' then some (c.toNat - 55)
  else if 'a' ≤ c ∧ c ≤ 'f' then some (c.toNat - 87)
  else none

/-- percent-decoding (RFC 3986): `%XY` is the byte XY, every other character stands for itself -/
def decode : List Char → Option (List Nat)
  | [] => some []
  | '%' :: a :: b :: r =>
    match hexVal a, hexVal b, decode r with
    | some x, some y, some rest => some ((x * 16 + y) :: rest)
    | _, _, _ => none
  | '%' :: _ => none
  | c :: r => (decode r).map (c.toNat :: ·)

theorem hexVal_hexU : ∀ n, n < 16 → hexVal (hexU n) = some n := by decide +kernel

theorem unreserved_not_percent : ∀ b, b < 256 → isUnreserved b = true → Char.ofNat b ≠ '%' := by decide +kernel

theorem ofNat_toNat_byte : ∀ b, b < 256 → (Char.ofNat b).toNat = b := by decide +kernel

theorem decode_cons_ne (c : Char) (rest : List Char) (h : c ≠ '%') :
    decode (c :: rest) = (decode rest).map (c.toNat :: ·) := by
  rw [decode]
  · intro a b r heq _; exact h heq
  · intro heq; exact h heq

theorem decode_encodeByte (b : Nat) (hb : b < 256) (rest : List Char) :
    decode (encodeByte b ++ rest) = (decode rest).map (b :: ·) := by
  unfold encodeByte
  split
  · rename_i hu
    have hne := unreserved_not_percent b hb hu
    simp only [List.cons_append, List.nil_append]
    rw [decode_cons_ne _ _ hne, ofNat_toNat_byte b hb]
  · simp only [List.cons_append, List.nil_append, decode]
    rw [hexVal_hexU _ (by omega), hexVal_hexU _ (Nat.mod_lt _ (by decide))]
    have : b / 16 * 16 + b % 16 = b := by omega
    cases decode rest <;> simp [this]

/-- **The original path is recoverable exactly**, for every byte string. -/
theorem decode_encode (bs : List Nat) (h : ∀ b ∈ bs, b < 256) : decode (encodeBytes bs) = some bs := by
  induction bs with
  | nil => simp [encodeBytes, decode]
  | cons b r ih =>
    have hr := ih (fun x hx => h x (by simp [hx]))
    simp only [encodeBytes, List.flatMap_cons] at hr ⊢
    rw [decode_encodeByte b (h b (by simp)), hr]
    rfl

def safeChar (c : Char) : Bool :=
  ('0' ≤ c && c ≤ '9') || ('A' ≤ c && c ≤ 'Z') || ('a' ≤ c && c ≤ 'z') || c = '-' || c = '_' || c = '.' || c = '~' || c = '%'

theorem encodeByte_safe : ∀ b, b < 256 → ∀ c ∈ encodeByte b, safeChar c = true := by decide +kernel

/-- the placeholder text contains neither `*` nor `/` (nor blanks, quotes, …): it cannot end the comment -/
theorem encoded_alphabet (bs : List Nat) (h : ∀ b ∈ bs, b < 256) : ∀ c ∈ encodeBytes bs, safeChar c = true := by
  intro c hc
  simp only [encodeBytes, List.mem_flatMap] at hc
  obtain ⟨b, hb, hcb⟩ := hc
  exact encodeByte_safe b (h b hb) c hcb

theorem encoded_has_no_comment_end (bs : List Nat) (h : ∀ b ∈ bs, b < 256) :
    '*' ∉ encodeBytes bs ∧ '/' ∉ encodeBytes bs := by
  constructor <;> intro hm <;> have := encoded_alphabet bs h _ hm <;> simp [safeChar] at this

example : encodeBytes [42, 47, 32, 37, 195, 169] = "%2A%2F%20%25%C3%A9".toList := by decide

end GE.Css
