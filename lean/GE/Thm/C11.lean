/-
C11 — emitted l-value paths address exactly the value the expression reads.

`loc` is the specification: the location an expression reads, defined on the expression itself
(data field ↦ its name; member ↦ location of the object followed by the member; index ↦ followed by
the run-time value of the index; conditional ↦ location of the branch taken; scope item ↦ the path the
list handed down; script module ↦ module and member; anything else has no location).

`path_denotes` proves that evaluating the path expression the generator emits (`lvaluePath` of
GE/Model/LvaluePath.lean, tied to `to_lvalue_path_arr` by correspondence) yields exactly `loc`, for every
expression, every scope configuration, every mode, and every run-time environment.  `reads_value`
then shows that looking the emitted model path up in the data gives the value of the expression.
-/
import GE.Model.LvaluePath

namespace GE.PA
open GE.Gen

/-! ## the specification -/

/-- location of the root `scope i`, by mode -/
def scopeLoc (scopes : List ScopeInfo) (ρ : Env) (m : Mode) (i : Nat) : Option (List Key) :=
  let sc := scopeAt scopes i
  if sc.lv = 1 then
    (if sc.tree.isSome then
      (match m with
       | .model => (ρ.lvar sc.lvName).map (·.drop 1)
       | .script => none
       | .general => ρ.lvar sc.lvName)
     else none)
  else if sc.lv = 2 then
    (if sc.tree.isSome then
      (match m with
       | .model => none
       | _ => ρ.lvar sc.lvName)
     else none)
  else if sc.lv = 3 then
    (match m with
     | .model => none
     | _ => some [.n 1, .s sc.absPath])
  else if sc.lv = 4 then
    (match m with
     | .model => none
     | _ => some [.n 2, .s sc.absPath, .s sc.modName])
  else none

/-- the location an expression reads (`n` = the private-identifier counter, which names the hoisted
temporaries the environment gives values to) -/
def loc (scopes : List ScopeInfo) (ρ : Env) (m : Mode) : Expr → Nat → Option (List Key)
  | .data x, _ =>
    (match m with
     | .model => some [.s x]
     | .script => none
     | .general => some [.n 0, .s x])
  | .scope i, _ => scopeLoc scopes ρ m i
  | .smember o f, n => (loc scopes ρ m o n).map (· ++ [.s f])
  | .dmember o f, n =>
    (loc scopes ρ m o (analyze scopes f (n + 1)).next).map (· ++ [ρ.idx (privName n)])
  | .cond c t f, n =>
    let rc := analyze scopes c (n + 1)
    let rt := analyze scopes t rc.next
    if ρ.cond (privName n) then loc scopes ρ m t rc.next else loc scopes ρ m f rt.next
  | _, _ => none

/-! ## shape of the analysis result -/

/-- a path is a root slice followed by static members / index temporaries only -/
def Wf : Psl → Prop
  | .nil => False
  | .cons _ t => tailOk t = true

theorem tailOk_snoc_static : ∀ (t : Psl) (f : String), tailOk t = true →
    tailOk (t.snoc (.staticMember f)) = true ∧ tailItems (t.snoc (.staticMember f)) = tailItems t ++ [.lit f]
  | .nil, f, _ => by simp [Psl.snoc, tailOk, tailItems]
  | .cons s r, f, h => by
    cases s <;> simp [tailOk] at h <;>
      simp [Psl.snoc, tailOk, tailItems, (tailOk_snoc_static r f h).1, (tailOk_snoc_static r f h).2]

theorem tailOk_snoc_indirect : ∀ (t : Psl) (i : String), tailOk t = true →
    tailOk (t.snoc (.indirect i)) = true ∧ tailItems (t.snoc (.indirect i)) = tailItems t ++ [.var i]
  | .nil, i, _ => by simp [Psl.snoc, tailOk, tailItems]
  | .cons s r, i, h => by
    cases s <;> simp [tailOk] at h <;>
      simp [Psl.snoc, tailOk, tailItems, (tailOk_snoc_indirect r i h).1, (tailOk_snoc_indirect r i h).2]

theorem wf_snoc_static {l : Psl} (f : String) (h : Wf l) : Wf (l.snoc (.staticMember f)) := by
  cases l with
  | nil => exact h.elim
  | cons s t => exact (tailOk_snoc_static t f h).1

theorem wf_snoc_indirect {l : Psl} (i : String) (h : Wf l) : Wf (l.snoc (.indirect i)) := by
  cases l with
  | nil => exact h.elim
  | cons s t => exact (tailOk_snoc_indirect t i h).1

/-- every path the analysis produces has that shape -/
theorem analyze_wf (scopes : List ScopeInfo) : ∀ (e : Expr) (n : Nat) (l : Psl),
    (analyze scopes e n).pas = .inPath l → Wf l
  | .scope i, n, l, h => by
    simp only [analyze] at h
    split at h <;> simp at h
    subst h; simp [Wf, tailOk]
  | .data x, n, l, h => by simp only [analyze] at h; cases h; simp [Wf, tailOk]
  | .toStr x, n, l, h => by simp [analyze] at h
  | .undef, n, l, h => by simp [analyze] at h
  | .null, n, l, h => by simp [analyze] at h
  | .str _, n, l, h => by simp [analyze] at h
  | .int _, n, l, h => by simp [analyze] at h
  | .float _, n, l, h => by simp [analyze] at h
  | .bool _, n, l, h => by simp [analyze] at h
  | .obj fs, n, l, h => by simp only [analyze] at h; cases h; simp [Wf, tailOk]
  | .arr fs, n, l, h => by simp only [analyze] at h; cases h; simp [Wf, tailOk]
  | .smember o f, n, l, h => by
    simp only [analyze] at h
    cases ho : (analyze scopes o n).pas with
    | notInPath => simp [ho] at h
    | inPath lo =>
      simp only [ho] at h
      cases h
      exact wf_snoc_static f (analyze_wf scopes o n lo ho)
  | .dmember o f, n, l, h => by
    simp only [analyze] at h
    cases ho : (analyze scopes o (analyze scopes f (n + 1)).next).pas with
    | notInPath => simp [ho] at h
    | inPath lo =>
      simp only [ho] at h
      cases h
      exact wf_snoc_indirect _ (analyze_wf scopes o _ lo ho)
  | .call f args, n, l, h => by simp [analyze] at h
  | .un _ x, n, l, h => by simp [analyze] at h
  | .bin op x y, n, l, h => by
    simp only [analyze] at h
    split at h <;> simp at h
  | .cond c t f, n, l, h => by simp only [analyze] at h; cases h; simp [Wf, tailOk]

/-! ## the emitted path under an appended member -/

theorem legal_snoc_static (scopes : List ScopeInfo) (m : Mode) {l : Psl} (f : String) (h : Wf l) :
    legal scopes m (l.snoc (.staticMember f)) = legal scopes m l := by
  cases l with
  | nil => exact h.elim
  | cons s t => simp [Psl.snoc, legal, (tailOk_snoc_static t f h).1, show tailOk t = true from h]

theorem legal_snoc_indirect (scopes : List ScopeInfo) (m : Mode) {l : Psl} (i : String) (h : Wf l) :
    legal scopes m (l.snoc (.indirect i)) = legal scopes m l := by
  cases l with
  | nil => exact h.elim
  | cons s t => simp [Psl.snoc, legal, (tailOk_snoc_indirect t i h).1, show tailOk t = true from h]

theorem pathJ_snoc_static (scopes : List ScopeInfo) (m : Mode) {l : Psl} (f : String) (suffix : List Item) (h : Wf l) :
    pathJ scopes m (l.snoc (.staticMember f)) suffix = pathJ scopes m l (.lit f :: suffix) := by
  cases l with
  | nil => exact h.elim
  | cons s t => simp [Psl.snoc, pathJ, (tailOk_snoc_static t f h).2]

theorem pathJ_snoc_indirect (scopes : List ScopeInfo) (m : Mode) {l : Psl} (i : String) (suffix : List Item) (h : Wf l) :
    pathJ scopes m (l.snoc (.indirect i)) suffix = pathJ scopes m l (.var i :: suffix) := by
  cases l with
  | nil => exact h.elim
  | cons s t => simp [Psl.snoc, pathJ, (tailOk_snoc_indirect t i h).2]

theorem pasJ_snoc_static (scopes : List ScopeInfo) (m : Mode) {l : Psl} (f : String) (suffix : List Item) (h : Wf l) :
    pasJ scopes m (.inPath (l.snoc (.staticMember f))) suffix = pasJ scopes m (.inPath l) (.lit f :: suffix) := by
  simp [pasJ, legal_snoc_static scopes m f h, pathJ_snoc_static scopes m f suffix h]

theorem pasJ_snoc_indirect (scopes : List ScopeInfo) (m : Mode) {l : Psl} (i : String) (suffix : List Item) (h : Wf l) :
    pasJ scopes m (.inPath (l.snoc (.indirect i))) suffix = pasJ scopes m (.inPath l) (.var i :: suffix) := by
  simp [pasJ, legal_snoc_indirect scopes m i h, pathJ_snoc_indirect scopes m i suffix h]

/-! ## main theorem -/

/-- scope path variables hold non-empty arrays (they start with the tag 0 / 1 / 2) -/
def EnvOk (ρ : Env) : Prop := ∀ v p, ρ.lvar v = some p → p ≠ []

theorem drop_one_append {α} (p q : List α) (h : p ≠ []) : (p ++ q).drop 1 = p.drop 1 ++ q := by
  cases p with
  | nil => exact (h rfl).elim
  | cons a r => simp

def evalItems (ρ : Env) (l : List Item) : List Key := l.map (Item.eval ρ)

theorem path_denotes_suffix (scopes : List ScopeInfo) (ρ : Env) (hρ : EnvOk ρ) (m : Mode) :
    ∀ (e : Expr) (n : Nat) (suffix : List Item),
    (pasJ scopes m (analyze scopes e n).pas suffix).eval ρ
      = (loc scopes ρ m e n).map (· ++ evalItems ρ suffix)
  | .data x, n, suffix => by
    cases m <;> simp [analyze, pasJ, legal, legalHead, tailOk, pathJ, headJ, tailItems, PJ.eval, loc, evalItems, Item.eval]
  | .scope i, n, suffix => by
    simp only [analyze, loc, scopeLoc]
    by_cases h1 : (scopeAt scopes i).lv = 1
    · by_cases ht : (scopeAt scopes i).tree.isSome = true
      · cases m <;>
          simp [h1, ht, pasJ, legal, legalHead, modeOkVar, tailOk, pathJ, headJ, tailItems, PJ.eval, evalItems]
        · cases hv : ρ.lvar (scopeAt scopes i).lvName with
          | none => simp
          | some p =>
            have hne := hρ _ _ hv
            cases p with
            | nil => exact (hne rfl).elim
            | cons a r => simp
        · cases hv : ρ.lvar (scopeAt scopes i).lvName <;> simp
      · simp [h1, ht, pasJ, PJ.eval]
    · by_cases h2 : (scopeAt scopes i).lv = 2
      · by_cases ht : (scopeAt scopes i).tree.isSome = true
        · cases m <;>
            simp [h2, ht, pasJ, legal, legalHead, modeOkVar, tailOk, pathJ, headJ, tailItems, PJ.eval, evalItems]
          · cases hv : ρ.lvar (scopeAt scopes i).lvName <;> simp
          · cases hv : ρ.lvar (scopeAt scopes i).lvName <;> simp
        · simp [h2, ht, pasJ, PJ.eval]
      · by_cases h3 : (scopeAt scopes i).lv = 3
        · cases m <;>
            simp [h3, pasJ, legal, legalHead, tailOk, pathJ, headJ, tailItems, PJ.eval, evalItems, Item.eval]
        · by_cases h4 : (scopeAt scopes i).lv = 4
          · cases m <;>
              simp [h4, pasJ, legal, legalHead, tailOk, pathJ, headJ, tailItems, PJ.eval, evalItems, Item.eval]
          · by_cases ht : (scopeAt scopes i).tree.isSome = true
            · simp [h1, h2, h3, h4, ht, pasJ, legal, legalHead, PJ.eval]
            · simp [h1, h2, h3, h4, ht, pasJ, PJ.eval]
  | .toStr x, n, suffix => by simp [analyze, pasJ, PJ.eval, loc]
  | .undef, n, suffix => by simp [analyze, pasJ, PJ.eval, loc]
  | .null, n, suffix => by simp [analyze, pasJ, PJ.eval, loc]
  | .str _, n, suffix => by simp [analyze, pasJ, PJ.eval, loc]
  | .int _, n, suffix => by simp [analyze, pasJ, PJ.eval, loc]
  | .float _, n, suffix => by simp [analyze, pasJ, PJ.eval, loc]
  | .bool _, n, suffix => by simp [analyze, pasJ, PJ.eval, loc]
  | .obj fs, n, suffix => by simp [analyze, pasJ, legal, legalHead, PJ.eval, loc]
  | .arr fs, n, suffix => by simp [analyze, pasJ, legal, legalHead, PJ.eval, loc]
  | .call f args, n, suffix => by simp [analyze, pasJ, PJ.eval, loc]
  | .un _ x, n, suffix => by simp [analyze, pasJ, PJ.eval, loc]
  | .bin op x y, n, suffix => by
    simp only [analyze, loc]
    split <;> simp [pasJ, PJ.eval]
  | .smember o f, n, suffix => by
    have ih := path_denotes_suffix scopes ρ hρ m o n (.lit f :: suffix)
    simp only [analyze, loc]
    cases ho : (analyze scopes o n).pas with
    | notInPath =>
      rw [ho] at ih
      simp only [pasJ, PJ.eval] at ih
      simp only [pasJ, PJ.eval]
      cases hl : loc scopes ρ m o n with
      | none => simp
      | some p => rw [hl] at ih; simp at ih
    | inPath lo =>
      rw [ho] at ih
      simp only []
      rw [pasJ_snoc_static scopes m f suffix (analyze_wf scopes o n lo ho), ih]
      cases loc scopes ρ m o n <;> simp [evalItems, Item.eval]
  | .dmember o f, n, suffix => by
    have ih := path_denotes_suffix scopes ρ hρ m o (analyze scopes f (n + 1)).next (.var (privName n) :: suffix)
    simp only [analyze, loc]
    cases ho : (analyze scopes o (analyze scopes f (n + 1)).next).pas with
    | notInPath =>
      rw [ho] at ih
      simp only [pasJ, PJ.eval] at ih
      simp only [pasJ, PJ.eval]
      cases hl : loc scopes ρ m o (analyze scopes f (n + 1)).next with
      | none => simp
      | some p => rw [hl] at ih; simp at ih
    | inPath lo =>
      rw [ho] at ih
      simp only []
      rw [pasJ_snoc_indirect scopes m _ suffix (analyze_wf scopes o _ lo ho), ih]
      cases loc scopes ρ m o (analyze scopes f (n + 1)).next <;> simp [evalItems, Item.eval]
  | .cond c t f, n, suffix => by
    have iht := path_denotes_suffix scopes ρ hρ m t (analyze scopes c (n + 1)).next suffix
    have ihf := path_denotes_suffix scopes ρ hρ m f (analyze scopes t (analyze scopes c (n + 1)).next).next suffix
    simp only [analyze, loc]
    by_cases hl : (legalPas scopes m (analyze scopes t (analyze scopes c (n + 1)).next).pas ||
        legalPas scopes m (analyze scopes f (analyze scopes t (analyze scopes c (n + 1)).next).next).pas) = true
    · simp only [pasJ, legal, legalHead, hl, tailOk, Bool.and_true, if_true, pathJ, headJ, tailItems, List.nil_append, PJ.eval]
      split
      · exact iht
      · exact ihf
    · -- both branches illegal: each branch alone evaluates to null, hence no location either way
      have hl' : legalPas scopes m (analyze scopes t (analyze scopes c (n + 1)).next).pas = false ∧
          legalPas scopes m (analyze scopes f (analyze scopes t (analyze scopes c (n + 1)).next).next).pas = false := by
        simpa [Bool.or_eq_true] using hl
      have nullOf : ∀ (p : Pas) (s : List Item), legalPas scopes m p = false → pasJ scopes m p s = .null := by
        intro p s hp
        cases p with
        | notInPath => rfl
        | inPath l => simp [legalPas] at hp; simp [pasJ, hp]
      rw [nullOf _ _ hl'.1] at iht
      rw [nullOf _ _ hl'.2] at ihf
      have hleg : legal scopes m (.cons (.condition (privName n) (analyze scopes t (analyze scopes c (n + 1)).next).pas
          (analyze scopes t (analyze scopes c (n + 1)).next).pc
          (analyze scopes f (analyze scopes t (analyze scopes c (n + 1)).next).next).pas
          (analyze scopes f (analyze scopes t (analyze scopes c (n + 1)).next).next).pc) .nil) = false := by
        simp [legal, legalHead, hl'.1, hl'.2]
      simp only [pasJ, hleg]
      simp only [PJ.eval] at iht ihf ⊢
      by_cases hc : ρ.cond (privName n) = true
      · simp only [hc, if_true]; exact iht
      · simp only [hc]; exact ihf

/-- **C11.** Evaluating the emitted path gives exactly the location the expression reads: the member
chain of the branch actually taken, rooted at the data field / the list item's path / the script
module; and it is `null` exactly when the expression has no location in that mode. -/
theorem path_denotes (scopes : List ScopeInfo) (ρ : Env) (hρ : EnvOk ρ) (m : Mode) (e : Expr) :
    (lvaluePath scopes m (prepareAnalysis scopes e).pas).eval ρ = loc scopes ρ m e 0 := by
  have := path_denotes_suffix scopes ρ hρ m e 0 []
  simpa [lvaluePath, prepareAnalysis, evalItems] using this

/-- expressions that are not access chains never receive a path, in any mode -/
theorem not_assignable_no_path (scopes : List ScopeInfo) (m : Mode) (e : Expr)
    (h : match e with
         | .un .. | .bin .. | .call .. | .toStr _ | .str _ | .int _ | .float _ | .bool _ | .null | .undef
         | .obj _ | .arr _ => True
         | _ => False) :
    lvaluePath scopes m (prepareAnalysis scopes e).pas = .null := by
  cases e <;> simp at h <;> simp [lvaluePath, prepareAnalysis, analyze, pasJ, legal, legalHead]
  all_goals (split <;> simp [pasJ])

/-- a loop index, a slot value or the item of a list without a path (`lv = 0`) never receives a path -/
theorem invalid_scope_no_path (scopes : List ScopeInfo) (m : Mode) (i : Nat) (h : (scopeAt scopes i).lv = 0) :
    lvaluePath scopes m (prepareAnalysis scopes (.scope i)).pas = .null := by
  simp only [lvaluePath, prepareAnalysis, analyze]
  split <;> simp [pasJ, legal, legalHead, h]

/-! ## the addressed value -/

/-- data values: atoms or objects (arrays are objects keyed by numbers) -/
inductive Val where
  | undef
  | atom (n : Nat)
  | obj (fields : List (Key × Val))

/-- null-safe member read (`X(o)[k]`) -/
def Val.get : Val → Key → Val
  | .obj fs, k => (match fs.find? (fun kv => kv.1 == k) with
      | some kv => kv.2
      | none => .undef)
  | _, _ => .undef

def Val.at (v : Val) : List Key → Val
  | [] => v
  | k :: r => (v.get k).at r

theorem Val.at_append (v : Val) (p q : List Key) : v.at (p ++ q) = (v.at p).at q := by
  induction p generalizing v with
  | nil => rfl
  | cons k r ih => simp [Val.at, ih]

/-- value of an access chain over the data `D` (scope items have the value found at their path) -/
def evalE (scopes : List ScopeInfo) (ρ : Env) (D : Val) : Expr → Nat → Val
  | .data x, _ => D.get (.s x)
  | .scope i, _ =>
    (match ρ.lvar (scopeAt scopes i).lvName with
     | some p => D.at (p.drop 1)
     | none => .undef)
  | .smember o f, n => (evalE scopes ρ D o n).get (.s f)
  | .dmember o f, n => (evalE scopes ρ D o (analyze scopes f (n + 1)).next).get (ρ.idx (privName n))
  | .cond c t f, n =>
    if ρ.cond (privName n) then evalE scopes ρ D t (analyze scopes c (n + 1)).next
    else evalE scopes ρ D f (analyze scopes t (analyze scopes c (n + 1)).next).next
  | _, _ => .undef

/-- **get**: the model path, looked up in the data, is the value the expression reads -/
theorem reads_value (scopes : List ScopeInfo) (ρ : Env) (D : Val) :
    ∀ (e : Expr) (n : Nat) (p : List Key), loc scopes ρ .model e n = some p → D.at p = evalE scopes ρ D e n
  | .data x, n, p, h => by simp [loc] at h; subst h; simp [Val.at, evalE]
  | .scope i, n, p, h => by
    simp only [loc, scopeLoc] at h
    split at h
    · split at h
      · cases hv : ρ.lvar (scopeAt scopes i).lvName with
        | none => simp [hv] at h
        | some q => simp [hv] at h; subst h; simp [evalE, hv]
      · simp at h
    · split at h
      · split at h <;> simp at h
      · split at h
        · simp at h
        · split at h <;> simp at h
  | .smember o f, n, p, h => by
    simp only [loc] at h
    cases ho : loc scopes ρ .model o n with
    | none => simp [ho] at h
    | some q =>
      simp [ho] at h; subst h
      simp [Val.at_append, Val.at, evalE, reads_value scopes ρ D o n q ho]
  | .dmember o f, n, p, h => by
    simp only [loc] at h
    cases ho : loc scopes ρ .model o (analyze scopes f (n + 1)).next with
    | none => simp [ho] at h
    | some q =>
      simp [ho] at h; subst h
      simp [Val.at_append, Val.at, evalE, reads_value scopes ρ D o _ q ho]
  | .cond c t f, n, p, h => by
    simp only [loc] at h
    simp only [evalE]
    split at h
    · rename_i hc; simp only [hc, if_true]; exact reads_value scopes ρ D t _ p h
    · rename_i hc; simp only [hc]; exact reads_value scopes ρ D f _ p h
  | .toStr _, _, _, h | .undef, _, _, h | .null, _, _, h | .str _, _, _, h | .int _, _, _, h | .float _, _, _, h
  | .bool _, _, _, h | .obj _, _, _, h | .arr _, _, _, h | .call .., _, _, h | .un .., _, _, h | .bin .., _, _, h => by
    simp [loc] at h

/-! non-vacuity: `(c ? a.b : 1).x` in model mode: taken branch `a.b` ↦ ["a","b","x"], the other branch ↦ null -/
def exE : Expr := .smember (.cond (.data "c") (.smember (.data "a") "b") (.int 1)) "x"
def exEnv (b : Bool) : Env := ⟨fun _ => b, fun _ => .n 0, fun _ => none⟩
example : (lvaluePath [] .model (prepareAnalysis [] exE).pas).eval (exEnv true) = some [.s "a", .s "b", .s "x"] := by
  rw [path_denotes [] (exEnv true) (by intro v p h; simp [exEnv] at h)]; simp [exE, loc, exEnv]
example : (lvaluePath [] .model (prepareAnalysis [] exE).pas).eval (exEnv false) = none := by
  rw [path_denotes [] (exEnv false) (by intro v p h; simp [exEnv] at h)]; simp [exE, loc, exEnv]

end GE.PA
