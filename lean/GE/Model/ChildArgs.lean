import GE.Extracted.ArgLevels
/-!
Model of `Node::to_proc_gen_function_args` (`proc_gen/tag.rs`): the parameter list of a generated children function
is chosen by the highest "level" among the kinds of its child nodes (tables regenerated from the source:
`GE/Extracted/ArgLevels.lean`), or the full list when the children use slot values.  `calls` says which of the
callbacks `T E B F S J` the statement generated for a child of each kind invokes (hand-written from
`to_proc_gen_define_children_content_inner` / `Element::to_proc_gen`; tied by `corr:child-args`: the real generated
functions' parameter lists and the callbacks their bodies invoke).
-/
namespace GE.ChildArgs
open GE.Extracted

def levelNum (name : String) : Nat := (argLevels.lookup name).getD 0
def levelOfKind (kind : String) : Nat := ((childLevel.lookup kind).map levelNum).getD 0
def argsOfNum (n : Nat) : String :=
  match argLevels.find? (fun e => e.2 == n) with
  | some e => (levelArgs.lookup e.1).getD ""
  | none => ""

def maxLevel : List String → Nat
  | [] => 0
  | k :: ks => max (levelOfKind k) (maxLevel ks)

/-- `to_proc_gen_function_args(list, with_slot_values)` -/
def functionArgs (kinds : List String) (withSlotValues : Bool) : String :=
  if withSlotValues then argsOfNum (levelNum "WithSlotValues") else argsOfNum (maxLevel kinds)

/-- the callbacks the statement generated for a child of this kind invokes -/
def calls : String → List String
  | "Text" => ["T"]
  | "Normal" => ["E"]
  | "If" => ["B"]
  | "For" => ["F"]
  | "Slot" => ["S"]
  | "Pure" => ["J"]
  | "Include" => ["J"]
  | "TemplateRef" => ["B"]       -- `key=…;B(key, children)`: a template reference is keyed like a branch group
  | _ => []

/-- the parameters of level `n` as a list -/
def paramsOfNum (n : Nat) : List String :=
  match argLevels.find? (fun e => e.2 == n) with
  | some e => (levelParams.lookup e.1).getD []
  | none => []

def functionParams (kinds : List String) (withSlotValues : Bool) : List String :=
  if withSlotValues then paramsOfNum (levelNum "WithSlotValues") else paramsOfNum (maxLevel kinds)

end GE.ChildArgs
