use crate::codec::*;
use glass_easel_template_compiler as tc;

pub fn dispatch(fs: &[String]) -> String {
    let op = fs.get(0).map(|s| s.as_str()).unwrap_or("");
    let a = |i: usize| fs.get(i).map(|s| s.as_str()).unwrap_or("");
    match op {
        "path_normalize" => esc(&tc::verif_hooks::path_normalize(a(1))),
        "path_resolve" => esc(&tc::verif_hooks::path_resolve(a(1), a(2))),
        "var_name" => esc(&tc::verif_hooks::get_var_name(a(1).parse().unwrap())),
        "lit_str" => esc(&tc::verif_hooks::gen_lit_str(a(1))),
        "dash_camel" => esc(&tc::verif_hooks::dash_to_camel(a(1))),
        "esc_body" => esc(&tc::verif_hooks::escape_html_body(a(1))),
        "esc_quote" => esc(&tc::verif_hooks::escape_html_quote(a(1))),
        "entity" => match tc::verif_hooks::entities_decode(a(1)) {
            Some(s) => format!("some\t{}", esc(&s)),
            None => "none".to_string(),
        },
        _ => "bad-op".to_string(),
    }
}
