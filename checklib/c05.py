"""C05 — names resolve lexically to the innermost enclosing scope (DESIGN.md §9 C05)."""
import json
from . import core, exprgen as eg, tmplgen as tg, render

THEOREMS = [
    "GE.SubExpr.subExprs_complete",
    "GE.SubExpr.findScope_innermost",
    "GE.SubExpr.findScope_none_iff",
    "GE.SubExpr.convert_resolves",
]


THM_TAG = [
    "GE.TagScope.run_node_eq_spec",
    "GE.TagScope.run_nodes_eq_spec",
    "GE.TagScope.run_list_eq_spec",
    "GE.TagScope.balanced",
    "GE.TagScope.run_main_eq_spec",
]


def py_resolve(t, scopes):
    """independent resolver over the Python tree: data field -> innermost scope of that name"""
    if isinstance(t, tuple):
        if t and t[0] == "data":
            for i in range(len(scopes) - 1, -1, -1):
                if scopes[i] == t[1]:
                    return ("scope", i)
            return t
        return tuple(py_resolve(x, scopes) for x in t)
    if isinstance(t, list):
        return [py_resolve(x, scopes) for x in t]
    return t


def run(chk):
    quick = chk.tier != "thorough"
    chk.rule = ("(1) every expression form x an identifier in every operand position x scope stacks with colliding / shadowing names: sub-expression "
                "iterator and convert_scopes, model vs implementation vs an independent resolver; (2) generated templates with nested for/slot-free "
                "scopes and data fields named like scope variables, rendered under the real runtime vs a reference renderer that resolves names "
                "lexically; non-trivial = expression with >= 1 identifier that is in scope")
    chk.trusted = ["Lean 4.33 kernel", "axioms ⊆ {propext, Classical.choice, Quot.sound}",
                   "GE/Model/SubExpr.lean tied to iter_sub_expr!/convert_scopes by differential runs through cfg hooks",
                   "reference renderer checklib/tmplgen.py (oracle)", "real runtime under node 22 with a stub backend"]
    chk.assumptions = ["tag level: run_node_eq_spec (GE/Thm/C05Tag.lean) - the stateful analysis of Element::init_scopes_and_binding_map_keys (push slot-value names, own values, "
                       "push wx:for names, children, truncate) converts every dynamic value under exactly the script modules and the declarations of its enclosing elements, "
                       "innermost last, and restores the stack after every element; the model of that analysis is compared with the implementation on every generated and "
                       "directed template (corr:tag_scopes: converted expression and collected flag of every value, in visiting order). The generation-time scope stack "
                       "(proc_gen) is exercised by the render oracle, and for wx:for item / index names (default, renamed, colliding with data fields and with each other "
                       "across nesting) by corr:tagsem: the tag-level model resolves names with convertScopes (the function convert_resolves is about) and evaluates them; "
                       "its trees are compared with the real compiler + runtime; that a generated identifier never captures or is captured by a visible one is monitor_sound "
                       "(GE/Thm/C02Writer.lean) over the writer model, replayed on the real generators' writer operations for these templates (corr:js-writer)",
                       "slot: value scopes of dynamic-slot content are exercised by the C06 / C07 oracles over the stub dynamic-slot component; here by the parser-level stream only"]
    chk.model_tie([("GE.Thm.C05", THEOREMS), ("GE.Thm.C05Tag", THM_TAG),
                   ("GE.Thm.C02Writer", ["GE.JsWriter.monitor_sound", "GE.JsWriter.names_fresh"])])
    from . import tagsem
    tagsem.stream(chk, chk.rng.fork("tagsem5"), 150 if quick else 3000)
    rng = chk.rng.fork("c05")
    # ---- stream 1: iterator + convert_scopes --------------------------------------------------
    trees = eg.enum_depth2()
    for i in range(300 if quick else 5000):
        trees.append(eg.rand_tree(rng, 3, 0))
    stacks = [[], ["a"], ["x", "y"], ["a", "b", "a"], ["z", "x", "z", "x"], ["item", "index", "item", "index"], ["c", "c"], ["y", "a", "x", "b", "z", "c"]]
    reqs_h, reqs_meta = [], []
    for ti, t in enumerate(trees):
        s = eg.src(t, "min")
        reqs_h.append(core.req("expr", s, "", "0")); reqs_meta.append(("ast", ti, None))
        reqs_h.append(core.req("subexprs", s)); reqs_meta.append(("sub", ti, None))
        for st in (stacks if ti % 7 == 0 or not quick else [stacks[ti % len(stacks)], stacks[(ti // 3) % len(stacks)]]):
            reqs_h.append(core.req("convert", s, ",".join(st))); reqs_meta.append(("conv", ti, st))
    real = core.run_harness(reqs_h)
    asts = {}
    for (kind, ti, st), a in zip(reqs_meta, real):
        if kind == "ast":
            asts[ti] = core.unesc(a.split("\t")[0])
    dreqs, dmeta = [], []
    for (kind, ti, st), a in zip(reqs_meta, real):
        if kind == "ast" or asts.get(ti, "none") == "none":
            continue
        if kind == "sub":
            dreqs.append(core.req("subexprs", asts[ti])); dmeta.append((kind, ti, st, a))
        else:
            dreqs.append(core.req("convert", asts[ti], ",".join(st))); dmeta.append((kind, ti, st, a))
    model = core.run_driver(dreqs)
    chk.programs = len(dreqs)
    core.diff_streams(chk, "subexprs+convert", dreqs, [m[3] for m in dmeta], model)
    # independent oracle on the implementation
    for (kind, ti, st, a), m in zip(dmeta, model):
        t = trees[ti]
        if kind == "conv":
            want = eg.sexp(py_resolve(t, st))
            got = core.unesc(a)
            from .c03 import norm_floats
            hit = any(n in st for n in ("a", "b", "c", "x", "y", "z", "item", "index"))
            chk.case((ti, tuple(st)), nontrivial=got != asts[ti], sample=dict(src=eg.src(t, "min"), scopes=st, resolved=got) if len(chk.samples) < 5 and got != asts[ti] else None)
            if norm_floats(got) != norm_floats(want):
                chk.violation("input", f"scope resolution of {eg.src(t,'min')!r} under scopes {st}: got {got}, lexical resolution gives {want}",
                              src=eg.src(t, "min"), scopes=st, got=got, want=want)
    chk.bump("oracle:convert-vs-independent-resolver", sum(1 for m in dmeta if m[0] == "conv"))
    # ---- stream 2: rendered templates with colliding names ------------------------------------
    n = 250 if quick else 4000
    ts, srcs = [], []
    for i in range(n):
        g = tg.TmplGen(rng.fork(("t", i)), data_names=["a", "b", "item", "index", "it", "ix", "l", "o", "f", "n", "k", "x"], src_modules=True)
        t = g.template()
        ts.append(t)
        srcs.append(tg.Printer(rng.fork(("p", i)), vary=(i % 2 == 1)).template(t))
    # directed: scopes that end (a `<slot>` with value references of its own, a for / slot-value element) followed by siblings and their
    # descendants reading the same names; inline and file modules in both orders
    for t in directed_templates():
        ts.append(t)
        srcs.append(tg.Printer().template(t))
    tag_scope_stream(chk, srcs)
    # generation side: the identifiers the generators hand out for scope variables (wx:for parameters, slot values, script modules, hoisted functions) never
    # equal an identifier visible where they are used - monitor_sound over the writer model, tied to the real writers on these very templates (corr:js-writer)
    from . import jswriter
    jswriter.run(chk, [tg.group_request(t, s) for t, s in zip(ts, srcs)][::-1], cap=120 if quick else 1200)
    groups = render.compile_templates([tg.group_request(t, s) for t, s in zip(ts, srcs)])
    items, idx = [], []
    for i, (t, g) in enumerate(zip(ts, groups)):
        if "panic" in g:
            chk.violation("input", f"compiler panicked on generated template: {g['panic'][:200]}", template=srcs[i])
            continue
        if isinstance(g.get("gen_groups"), dict):
            chk.violation("input", f"code generation failed: {g['gen_groups']}", template=srcs[i])
            continue
        for D in render.DATA_POOL[: (1 if quick else 3)]:
            items.append((t, g, D)); idx.append(i)
    res = render.render_vs_reference(items)
    nb = 0
    for (okk, a, b, r, e), i, it in zip(res, idx, items):
        chk.case(("render", i, json.dumps(it[2], sort_keys=True)[:40]), nontrivial=True)
        if okk is None:
            chk.bump("oracle:reference-failed")
            continue
        if not okk:
            nb += 1
            if nb <= 3:
                chk.violation("input", "rendered tree differs from the lexically-resolved reference rendering",
                              template=srcs[i], data=it[2], real=a if a is not None else r, reference=b)
    chk.bump("oracle:render-cases", len(items))


# ---------------------------------------------------------------------------------------------------------
# tag-level scope / binding-map analysis: model (GE/Model/TagScope.lean) vs implementation
def sx_tokens(s):
    out, i, n = [], 0, len(s)
    while i < n:
        c = s[i]
        if c in "()":
            out.append(c); i += 1
        elif c == '"':
            j = i + 1
            while s[j] != '"':
                j += 2 if s[j] == "\\" else 1
            out.append(s[i:j + 1]); i = j + 1
        elif c in " \t\n":
            i += 1
        else:
            j = i
            while j < n and s[j] not in '() \t\n"':
                j += 1
            out.append(s[i:j]); i = j
    return out


def sx_parse(s):
    toks = sx_tokens(s)
    pos = [0]
    def rec():
        t = toks[pos[0]]; pos[0] += 1
        if t == "(":
            l = []
            while toks[pos[0]] != ")":
                l.append(rec())
            pos[0] += 1
            return l
        return t
    return rec()


def sx_str(t):
    return "(" + " ".join(sx_str(x) for x in t) + ")" if isinstance(t, list) else t


def is_loc(t):
    return isinstance(t, list) and len(t) == 4 and all(isinstance(x, str) and x.isdigit() for x in t)


def strip_locs(t, src=None):
    """the located S-expression without its locations; with `src`, scope references become the identifiers they were written as"""
    if not isinstance(t, list):
        return t
    if src is not None and t and t[0] == "scope" and len(t) == 3 and is_loc(t[2]):
        l = [int(x) for x in t[2]]
        name = src.slice((l[0], l[1]), (l[2], l[3]))
        return ["data", json.dumps(name, ensure_ascii=False)]
    return [strip_locs(x, src) for x in t if not is_loc(x)]


def skeleton_sexp(nodes, src, recs):
    """the model's input for a list of dumped nodes; appends (collected, converted expression) of every dynamic value to `recs`"""
    def val(v):
        if v is None:
            return "none"
        t = sx_parse(v["conv"])
        recs.append(("1" if v["bmk"] else "0") + sx_str(strip_locs(t)))
        return "(val %s %s)" % ("1" if v["flag"] else "0", sx_str(strip_locs(t, src)))
    def node(n):
        if n["k"] == "other":
            return "(other)"
        if n["k"] == "text":
            return "(text %s)" % val(n["v"])
        kind = n["kind"]
        if kind == "for":
            kind = "(for %s %s)" % (json.dumps(n["for"][0], ensure_ascii=False), json.dumps(n["for"][1], ensure_ascii=False))
        vals = " ".join(val(v) for v in n["vals"])
        # the analysis visits: own values, then the child lists in order
        ch = " ".join("(nodes %s)" % " ".join(node(c) for c in cl) for cl in n["children"])
        return "(elem %s (refs %s) (vals %s) (children %s))" % (kind, " ".join(json.dumps(r, ensure_ascii=False) for r in n["refs"]), vals, ch)
    return " ".join(node(n) for n in nodes)


def tag_scope_stream(chk, srcs):
    from .c16 import Src
    real = core.run_harness([core.req("tmpl_scopes", s) for s in srcs])
    if real and real[0] == "bad-op":
        chk.notes.append("harness has no tmpl_scopes op: tag-level scope correspondence skipped")
        return
    reqs, want, meta = [], [], []
    for s, a in zip(srcs, real):
        if a in ("none",) or a.startswith("PANIC"):
            continue
        d = json.loads(a)
        src = Src(s)
        mods = " ".join(json.dumps(m, ensure_ascii=False) for m in d["modules"])
        for dyn, nodes in [("0", d["nodes"])] + [("1", sub[1]) for sub in d["subs"]]:
            recs = []
            try:
                body = skeleton_sexp(nodes, src, recs)
            except Exception as e:       # a location that does not lie in the source is C16's subject
                chk.bump("corr:tag_scopes:skipped-bad-location")
                continue
            reqs.append(core.req("tag_scopes", dyn, "(tmpl (modules %s) (nodes %s))" % (mods, body)))
            want.append("\x01".join(recs))
            meta.append(s)
    model = core.run_driver(reqs)
    if not core.MODEL_OK:
        return
    nd = 0
    adv = {}
    for rq, w, m, s in zip(reqs, want, model, meta):
        if m and "\t" in m and rq.split("\t")[1] == "0":
            a_ = core.unesc(m.split("\t")[1])
            adv[s] = sorted(a_.split("\x01")) if a_ else []
        got = core.unesc(m.split("\t")[0]) if m and "\t" in m else (core.unesc(m) if m else m)
        chk.case(("tag-scopes", rq), nontrivial="scope" in w)
        if got != w:
            nd += 1
            if nd <= 4:
                chk.violation("correspondence", "scope / binding-map analysis: model and implementation leave different conversions / collected flags in the values",
                              stream="tag_scopes", template=s[:1500], real=w[:1500], model=(got or "")[:1500])
    chk.bump("corr:tag_scopes:cases", len(reqs))
    chk.bump("corr:tag_scopes:diffs", nd)
    return adv


def directed_templates():
    d = lambda n: ("expr", ("data", n))
    txt = lambda n: ("text", d(n))
    out = []
    def tmpl(nodes, modules=(), src_modules=(), slot_values=True):
        out.append({"path": "p", "nodes": nodes, "subs": {}, "modules": list(modules), "slot_values": slot_values, "src_modules": list(src_modules)})
    for ref in [("slot:a", None), ("slot:sv", ("static", "a")), ("slot:item", None), ("slot:x-y", ("static", "index"))]:
        name = ref[1][1] if ref[1] else ref[0][5:]
        slot = ("slot", ("static", "inner"), [ref])
        after = [("for", d("l"), None, None, None, ("elem", "view", [], [("text", ("mixed", [("e", ("data", name)), ("s", "|"), ("e", ("data", "item"))]))])), txt(name),
                 ("elem", "view", [("plain", "title", d(name))], [("if", [(d("c"), ("elem", "view", [], [txt(name)]))], ("elem", "view", [], [txt(name)]))])]
        tmpl([("elem", "view", [], [slot] + after)])
        tmpl([slot] + after)
        tmpl([("elem", "view", [], [("elem", "view", [("slot:", ref[0][5:], ref[1])], [txt(name)])] + after)])
        tmpl([("for", d("l"), name, None, None, ("elem", "view", [], [txt(name)]))] + after)
    # slot forwarding (round 10, C05-9): a <slot> that reads its own `slot:` references in its name and in the values it passes on, next to a
    # sibling element using the same name and a data field of that name read after it
    for nm_, al in (("a", None), ("sv", "a"), ("item", None), ("x-y", "b")):
        use = al if al else nm_
        fwd = ("slot", d(use), [("slot:" + nm_, ("static", al) if al else None), ("v", d(use)), ("w", ("mixed", [("s", "<"), ("e", ("data", use)), ("s", ">")]))])
        tmpl([("elem", "cmp-x", [], [("elem", "view", [("slot:", nm_, ("static", al) if al else None)], [txt(use)]), fwd, txt(use)])])
        tmpl([fwd, ("slot", d(use), [("v", d(use))]), txt(use)])
        tmpl([("for", d("l"), use, None, None, ("block", [fwd, txt(use)])), fwd])
    # sibling elements that declare slot values in different orders (the generator keeps ONE table of slot value variables per children list,
    # each element pushes its own names in its own order), and names that are read again after an inner scope of the same name has closed
    both = ("text", ("mixed", [("e", ("data", "a")), ("s", "|"), ("e", ("data", "b")), ("s", "|"), ("e", ("data", "sv"))]))
    for r1, r2, r3 in ((["a"], ["b", "a"], ["sv", "b"]), (["b", "a"], ["a", "b"], ["a"]), (["a", "b", "sv"], ["sv", "a"], ["b", "sv", "a"]), (["sv"], ["a"], ["b", "sv"])):
        sib = [("elem", "view", [("slot:", nm_, None) for nm_ in rs] + [("plain", "title", d(rs[0]))], [both]) for rs in (r1, r2, r3)]
        tmpl(sib)
        tmpl([("elem", "cmp-x", [], sib), both])
        tmpl([("for", d("l"), "a", "b", None, ("block", sib + [both]))])
    inner = ("for", ("expr", ("smember", ("data", "item"), "sub")), None, None, None, ("block", [("text", ("mixed", [("s", "["), ("e", ("data", "item")), ("s", "]")]))]))
    after_inner = ("elem", "text", [("plain", "title", d("index"))], [("text", ("expr", ("smember", ("data", "item"), "k")))])
    tmpl([("for", d("l"), None, None, None, ("block", [inner, after_inner])), txt("item")])
    tmpl([("for", d("l"), "a", "a2", None, ("block", [("for", d("o"), "a", "b", None, ("block", [txt("a")])),
                                                     ("text", ("mixed", [("e", ("data", "a")), ("s", "|"), ("e", ("data", "b")), ("s", "|"), ("e", ("data", "a2"))]))])), txt("a")])
    tmpl([("elem", "view", [("slot:", "a", None)], [("elem", "view", [("slot:", "a", ("static", "a"))], [txt("a")]), txt("a"),
                                                   ("for", d("l"), "a", None, None, ("block", [txt("a")])), ("elem", "v", [], [txt("a")])]), txt("a")])
    # scope variables at every position of array / object literals, also after several adjacent holes and spreads
    holes = lambda *items: ("arr", [("hole",) if x is None else ("item", ("data", x)) for x in items])
    pick = lambda arr, i: ("text", ("expr", ("dmember", arr, ("int", i))))
    body = [("elem", "v", [], [pick(holes(None, None, "a"), 2)]), ("elem", "v", [], [pick(holes("b", None, None, None, "a"), 4)]),
            ("elem", "v", [], [pick(holes(None, "a", None, None, "b"), 4)]), ("elem", "v", [], [pick(("arr", [("spread", ("data", "l")), ("hole",), ("hole",), ("item", ("data", "a"))]), 4)]),
            ("elem", "v", [], [("text", ("expr", ("smember", ("obj", [("named", "p", False, ("data", "b")), ("spread", ("data", "o")), ("named", "q", False, ("data", "a"))]), "q")))])]
    tmpl([("for", d("l"), "a", "b", None, ("block", body)), ("elem", "view", [], body)], slot_values=False)
    pool = tg.MODULE_POOL
    for mods in ([pool[0]], [pool[1], pool[0]]):
        nm0 = mods[0][0]
        tmpl([("for", d("l"), nm0, None, None, ("block", [txt(nm0)])), ("elem", "v", [], [("text", ("expr", ("smember", ("data", nm0), "tag")))])], modules=mods, slot_values=False)
    use = lambda n: ("elem", "v", [], [("text", ("expr", ("smember", ("data", n), "tag")))])
    for mods in ([pool[0], pool[1]], [pool[1], pool[0]], [pool[0], pool[1], pool[2]], [pool[2], pool[0]]):
        names = [m[0] for m in mods]
        for k in range(1 << len(mods)):
            srcm = [names[i] for i in range(len(mods)) if k >> i & 1]
            tmpl([("elem", "view", [], [use(n) for n in names])], modules=mods, src_modules=srcm, slot_values=False)
    # a <block> with `slot:` references of its own: the names are in scope inside it, next to for variables and element references declared deeper,
    # and out of scope after it
    blk = lambda refs, kids: ("block", kids, None, refs)
    box = lambda n: ("elem", "v", [("plain", "title", d(n))], [txt(n)])
    for host in ("cmp-x", "view"):
        tmpl([("elem", host, [], [blk([("a", None)], [box("a"), ("for", d("l"), None, None, None, ("elem", "view", [], [box("item"), box("a"), box("index")]))]), box("a")])])
        tmpl([("elem", host, [], [blk([("sv", "a"), ("b", None)], [("elem", "view", [("slot:", "item", None)], [box("item"), box("a"), box("b")]),
                                                                 ("for", d("l"), "b", None, None, ("block", [box("b"), box("a"), box("index")])), box("b")]), box("b")])])
        tmpl([("elem", host, [], [blk([("a", None)], [blk([("b", None), ("a", "it")], [box("a"), box("b"), box("it"), ("for", d("o"), "a", "b", None, ("block", [box("a"), box("b"), box("it")]))]), box("a"), box("b")])])])
    # script modules are in scope in EVERY <template name> of the file (the first, the second, the third), next to a for variable of the same name
    for mods in ([pool[0]], [pool[0], pool[1]], [pool[2], pool[1], pool[0]]):
        names = [m[0] for m in mods]
        for srcm in ([], names[:1]):
            body = lambda k: [use(n) for n in names] + [("for", d("l"), names[k % len(names)], None, None, ("block", [txt(names[k % len(names)])]))] + [use(names[-1])]
            out.append({"path": "p", "nodes": [("tref", ("static", "s%d" % k), None) for k in range(3)] + [use(n) for n in names],
                        "subs": {"s%d" % k: body(k) for k in range(3)}, "modules": list(mods), "slot_values": False, "src_modules": list(srcm)})
    return out


def replay(chk, path):
    o = json.load(open(path))["first"]
    print(json.dumps(o)[:2000])
    return chk.finish()
