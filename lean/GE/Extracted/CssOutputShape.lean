/-! GENERATED from /repo/glass-easel-stylesheet-compiler/src/output.rs by checklib/extractors.py — do not edit. -/
namespace GE.Extracted
def outputShape_append_raw : Bool := true
def outputShape_append_token : Bool := true
def outputShape_append_token_space_preserved : Bool := true
end GE.Extracted
