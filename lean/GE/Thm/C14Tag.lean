import GE.Model.TagTree
/-!
C14 at the level of tags (`GE/Model/TagTree.lean`): printing a tree and parsing the printed tags again gives the tree back,
without its comments and white-space-only texts (`parse_print`), for EVERY tree — whatever the nesting of `wx:if` groups,
`wx:for`, `<block>`s with and without `slot`, leaves — and printing is a fixpoint after one round for every sequence of tags,
well-formed or not (`print_fixpoint`: stray `wx:elif`, `wx:else` after `wx:else`, control attributes in any combination).
-/
namespace GE.TagTree

def AS.app : AS → AS → AS
  | .nil, k => k
  | .cons a r, k => .cons a (r.app k)

@[simp] theorem AS.app_nil : ∀ (a : AS), a.app .nil = a
  | .nil => rfl
  | .cons x r => by simp [AS.app, AS.app_nil r]

@[simp] theorem AS.nil_app (a : AS) : AS.app .nil a = a := rfl

theorem AS.app_assoc : ∀ (a b c : AS), (a.app b).app c = a.app (b.app c)
  | .nil, _, _ => rfl
  | .cons x r, b, c => by simp [AS.app, AS.app_assoc r b c]

theorem AS.revAppend_revAppend : ∀ (a b c : AS), (a.revAppend b).revAppend c = b.revAppend (a.app c)
  | .nil, _, _ => rfl
  | .cons x r, b, c => by simp [AS.revAppend, AS.app, AS.revAppend_revAppend r (.cons x b) c]

@[simp] theorem AS.rev_rev (a : AS) : a.rev.rev = a := by
  simp [AS.rev, AS.revAppend_revAppend, AS.revAppend]

theorem AS.revAppend_app : ∀ (x y acc : AS), (x.app y).revAppend acc = y.revAppend (x.revAppend acc)
  | .nil, _, _ => rfl
  | .cons a r, y, acc => by simp [AS.app, AS.revAppend, AS.revAppend_app r y (.cons a acc)]

/-! ### `strip` with a continuation is `strip` followed by the continuation -/

theorem stripA_app (a : A) (k : AS) : stripA a k = (stripA a .nil).app k := by
  cases a <;> simp [stripA, AS.app]
  split <;> simp [AS.app]

theorem stripAS_app : ∀ (a : AS) (k : AS), stripAS a k = (stripAS a .nil).app k
  | .nil, k => by simp [stripAS]
  | .cons x r, k => by
    simp only [stripAS]
    rw [stripA_app x (stripAS r k), stripA_app x (stripAS r .nil), stripAS_app r k, AS.app_assoc]

/-! ### parsing what was printed -/

theorem ifCond_empty : ifCond {} = .none := rfl

theorem stepEl_plain (acc : AS) (b : Base) (kids : AS) : stepEl acc b {} kids = .cons (mkElem b kids) acc := by
  simp [stepEl, ifCond_empty]

theorem stepEl_if (acc : AS) (c : String) (kids : AS) :
    stepEl acc (.pure none []) { wxIf := some c } kids = .cons (.cond c kids .nil .none) acc := by
  simp [stepEl, ifCond, mkElem, dropRefs, wrapChildren]

theorem stepEl_elif (acc : AS) (c0 : String) (k0 : AS) (m0 : Brs) (e0 : Els) (c : String) (kids : AS) :
    stepEl (.cons (.cond c0 k0 m0 e0) acc) (.pure none []) { wxElif := some c } kids
      = .cons (.cond c0 k0 (m0.snoc c kids) e0) acc := by
  simp [stepEl, ifCond, mkElem, dropRefs, wrapChildren, findIf, AS.revAppend]

theorem stepEl_else (acc : AS) (c0 : String) (k0 : AS) (m0 : Brs) (e0 : Els) (kids : AS) :
    stepEl (.cons (.cond c0 k0 m0 e0) acc) (.pure none []) { wxElse := true } kids
      = .cons (.cond c0 k0 m0 (.some kids)) acc := by
  simp [stepEl, ifCond, mkElem, dropRefs, wrapChildren, findIf, AS.revAppend]

theorem getD_item (it : String) : (if it = "item" then none else some it : Option String).getD "item" = it := by
  split <;> simp_all

theorem getD_index (ix : String) : (if ix = "index" then none else some ix : Option String).getD "index" = ix := by
  split <;> simp_all

theorem getD_key (k : String) : (if k = "" then none else some k : Option String).getD "" = k := by
  split <;> simp_all

theorem stepEl_for (acc : AS) (l it ix key : String) (kids : AS) :
    stepEl acc (.pure none []) (ctlFor l it ix key) kids = .cons (.loop l it ix key kids) acc := by
  simp [stepEl, ifCond, ctlFor, mkElem, dropRefs, wrapChildren, getD_item, getD_index, getD_key]

theorem Brs.snoc_append : ∀ (m : Brs) (c : String) (k : AS) (r : Brs), (m.snoc c k).append r = m.append (.cons c k r)
  | .nil, _, _, _ => rfl
  | .cons c0 k0 r0, c, k, r => by simp [Brs.snoc, Brs.append, Brs.snoc_append r0 c k r]

@[simp] theorem Brs.append_nil : ∀ (m : Brs), m.append .nil = m
  | .nil => rfl
  | .cons c k r => by simp [Brs.append, Brs.append_nil r]

theorem AS.revAppend_nil_rev (a : AS) : (a.revAppend .nil).rev = a := by
  have := AS.rev_rev a
  simpa [AS.rev] using this

mutual
theorem parse_printA : ∀ (a : A) (acc : AS) (k : XS),
    parseXS acc (printA a k) = parseXS ((stripA a .nil).revAppend acc) k
  | .text s, acc, k => by
    by_cases h : s = ""
    · subst h; simp [printA, stripA, isBlank, AS.revAppend]
    · simp only [printA, h, if_false, parseXS, parseX, stripA]
      split <;> simp [AS.revAppend]
  | .comment, acc, k => by simp [printA, stripA, AS.revAppend]
  | .normal p refs kids, acc, k => by
    simp only [printA, parseXS, parseX, stripA, AS.revAppend]
    rw [parse_printAS kids .nil .nil, stepEl_plain]
    simp [parseXS, mkElem, AS.revAppend_nil_rev]
  | .pure s refs kids, acc, k => by
    simp only [printA, parseXS, parseX, stripA, AS.revAppend]
    rw [parse_printAS kids .nil .nil, stepEl_plain]
    simp [parseXS, mkElem, AS.revAppend_nil_rev]
  | .slotEl p refs, acc, k => by
    simp [printA, parseXS, parseX, stripA, AS.revAppend, stepEl_plain, mkElem]
  | .leaf p, acc, k => by
    simp [printA, parseXS, parseX, stripA, AS.revAppend, stepEl_plain, mkElem]
  | .loop l it ix key kids, acc, k => by
    simp only [printA, parseXS, parseX, stripA, AS.revAppend]
    rw [parse_printAS kids .nil .nil, stepEl_for]
    simp [parseXS, AS.revAppend_nil_rev]
  | .cond c kids more els, acc, k => by
    simp only [printA, parseXS, parseX, stripA, AS.revAppend]
    rw [parse_printAS kids .nil .nil, stepEl_if]
    simp only [parseXS, AS.revAppend_nil_rev]
    rw [parse_printBrs more acc c _ .nil (printEls els k), parse_printEls els acc c _ _ k]
    simp [Brs.append]
theorem parse_printAS : ∀ (a : AS) (acc : AS) (k : XS),
    parseXS acc (printAS a k) = parseXS ((stripAS a .nil).revAppend acc) k
  | .nil, acc, k => by simp [printAS, stripAS, AS.revAppend]
  | .cons a r, acc, k => by
    simp only [printAS, stripAS]
    rw [parse_printA a acc (printAS r k), parse_printAS r _ k, stripA_app a (stripAS r .nil), AS.revAppend_app]
theorem parse_printBrs : ∀ (r : Brs) (acc : AS) (c0 : String) (k0 : AS) (m0 : Brs) (k : XS),
    parseXS (.cons (.cond c0 k0 m0 .none) acc) (printBrs r k)
      = parseXS (.cons (.cond c0 k0 (m0.append (stripBrs r)) .none) acc) k
  | .nil, acc, c0, k0, m0, k => by simp [printBrs, stripBrs]
  | .cons c kids r, acc, c0, k0, m0, k => by
    simp only [printBrs, parseXS, parseX, stripBrs]
    rw [parse_printAS kids .nil .nil, stepEl_elif]
    simp only [parseXS, AS.revAppend_nil_rev]
    rw [parse_printBrs r acc c0 k0 _ k, Brs.snoc_append]
theorem parse_printEls : ∀ (e : Els) (acc : AS) (c0 : String) (k0 : AS) (m0 : Brs) (k : XS),
    parseXS (.cons (.cond c0 k0 m0 .none) acc) (printEls e k)
      = parseXS (.cons (.cond c0 k0 m0 (stripEls e)) acc) k
  | .none, acc, c0, k0, m0, k => by simp [printEls, stripEls]
  | .some kids, acc, c0, k0, m0, k => by
    simp only [printEls, parseXS, parseX, stripEls]
    rw [parse_printAS kids .nil .nil, stepEl_else]
    simp [parseXS, AS.revAppend_nil_rev]
end

/-- **C14, tag level.** Parsing the printed tree gives the tree back without its comments and white-space-only texts. -/
theorem parse_print (a : AS) : parse (print a) = strip a := by
  simp [parse, print, strip, parse_printAS, parseXS, AS.revAppend_nil_rev]

/-! ### the parser keeps no white-space-only text -/

mutual
def nbA : A → Bool
  | .text s => !isBlank s
  | .comment => true
  | .normal _ _ k => nbAS k
  | .pure _ _ k => nbAS k
  | .slotEl _ _ => true
  | .leaf _ => true
  | .loop _ _ _ _ k => nbAS k
  | .cond _ k m e => nbAS k && nbBrs m && nbEls e
def nbAS : AS → Bool
  | .nil => true
  | .cons a r => nbA a && nbAS r
def nbBrs : Brs → Bool
  | .nil => true
  | .cons _ k r => nbAS k && nbBrs r
def nbEls : Els → Bool
  | .none => true
  | .some k => nbAS k
end

theorem nb_revAppend : ∀ (a b : AS), nbAS (a.revAppend b) = (nbAS a && nbAS b)
  | .nil, b => by simp [AS.revAppend, nbAS]
  | .cons x r, b => by
    simp [AS.revAppend, nbAS, nb_revAppend r (.cons x b)]
    cases nbA x <;> cases nbAS r <;> simp

theorem nb_rev (a : AS) : nbAS a.rev = nbAS a := by simp [AS.rev, nb_revAppend, nbAS]

theorem nb_wrapChildren (e : A) (h : nbA e = true) : nbAS (wrapChildren e) = true := by
  unfold wrapChildren
  split
  · simpa [nbA] using h
  · simp [nbAS, h]

theorem nb_mkElem (b : Base) (kids : AS) (h : nbAS kids = true) : nbA (mkElem b kids) = true := by
  cases b <;> simp [mkElem, nbA, h]

theorem nb_snoc : ∀ (m : Brs) (c : String) (k : AS), nbBrs (m.snoc c k) = (nbBrs m && nbAS k)
  | .nil, c, k => by simp [Brs.snoc, nbBrs]
  | .cons c0 k0 r, c, k => by simp [Brs.snoc, nbBrs, nb_snoc r c k, Bool.and_assoc]

theorem nb_findIf : ∀ (acc cs older : AS) (c : String) (k : AS) (m : Brs) (e : Els),
    findIf acc = some (cs, (c, k, m, e), older) → nbAS acc = true →
    nbAS cs = true ∧ nbAS k = true ∧ nbBrs m = true ∧ nbEls e = true ∧ nbAS older = true
  | .nil, _, _, _, _, _, _, h, _ => by simp [findIf] at h
  | .cons .comment r, cs, older, c, k, m, e, h, hn => by
    simp only [findIf] at h
    cases hf : findIf r with
    | none => simp [hf] at h
    | some v =>
      obtain ⟨cs', ⟨c', k', m', e'⟩, older'⟩ := v
      simp [hf] at h
      obtain ⟨h1, ⟨h2, h3, h4, h5⟩, h6⟩ := h
      subst h1 h2 h3 h4 h5 h6
      have hr : nbAS r = true := by simpa [nbAS, nbA] using hn
      have := nb_findIf r cs' older' c' k' m' e' hf hr
      simpa [nbAS, nbA] using this
  | .cons (.cond c0 k0 m0 e0) r, cs, older, c, k, m, e, h, hn => by
    simp [findIf] at h
    obtain ⟨h1, ⟨h2, h3, h4, h5⟩, h6⟩ := h
    subst h1 h2 h3 h4 h5 h6
    simp [nbAS, nbA] at hn
    simp [nbAS, hn]
  | .cons (.text _) _, _, _, _, _, _, _, h, _ => by simp [findIf] at h
  | .cons (.normal ..) _, _, _, _, _, _, _, h, _ => by simp [findIf] at h
  | .cons (.pure ..) _, _, _, _, _, _, _, h, _ => by simp [findIf] at h
  | .cons (.slotEl ..) _, _, _, _, _, _, _, h, _ => by simp [findIf] at h
  | .cons (.leaf ..) _, _, _, _, _, _, _, h, _ => by simp [findIf] at h
  | .cons (.loop ..) _, _, _, _, _, _, _, h, _ => by simp [findIf] at h

theorem nb_loopOrPlain (c : Ctl) (e : A) (acc : AS) (he : nbA e = true) (ha : nbAS acc = true) :
    nbAS (match c.wxFor with
      | some l => .cons (.loop l (c.item.getD "item") (c.index.getD "index") (c.key.getD "") (wrapChildren e)) acc
      | none => .cons e acc) = true := by
  split
  · simp [nbAS, nbA, nb_wrapChildren e he, ha]
  · simp [nbAS, he, ha]

/-- `stepEl` once the element is built -/
def stepEl' (acc : AS) (c : Ctl) (e : A) : AS :=
  let w : Option A × AS :=
    match ifCond c with
    | .none => (some e, acc)
    | .if_ v => (some (.cond v (wrapChildren e) .nil .none), acc)
    | .elif v =>
      match findIf acc with
      | some (cs, (c0, k0, m0, e0), older) => (none, .cons (.cond c0 k0 (m0.snoc v (cs.revAppend (wrapChildren e))) e0) older)
      | none => (some e, acc)
    | .else_ =>
      match findIf acc with
      | some (cs, (c0, k0, m0, _), older) => (none, .cons (.cond c0 k0 m0 (.some (cs.revAppend (wrapChildren e)))) older)
      | none => (some e, acc)
  match w with
  | (some e', acc') =>
    match c.wxFor with
    | some l => .cons (.loop l (c.item.getD "item") (c.index.getD "index") (c.key.getD "") (wrapChildren e')) acc'
    | none => .cons e' acc'
  | (none, acc') => acc'

theorem stepEl_eq (acc : AS) (b : Base) (c : Ctl) (kids : AS) :
    stepEl acc b c kids = stepEl' acc c (mkElem (if (ifCond c == .none && c.wxFor.isNone) then b else dropRefs b) kids) := rfl

theorem nb_stepEl' (acc : AS) (c : Ctl) (e : A) (ha : nbAS acc = true) (hen : nbA e = true) :
    nbAS (stepEl' acc c e) = true := by
  unfold stepEl'
  cases hic : ifCond c with
  | none => simpa using nb_loopOrPlain c e acc hen ha
  | if_ v =>
    have : nbA (.cond v (wrapChildren e) .nil .none) = true := by simp [nbA, nb_wrapChildren e hen, nbBrs, nbEls]
    simpa using nb_loopOrPlain c _ acc this ha
  | elif v =>
    cases hf : findIf acc with
    | none => simpa [hf] using nb_loopOrPlain c e acc hen ha
    | some w =>
      obtain ⟨cs, ⟨c0, k0, m0, e0⟩, older⟩ := w
      obtain ⟨h1, h2, h3, h4, h5⟩ := nb_findIf acc cs older c0 k0 m0 e0 hf ha
      simp [nbAS, nbA, nb_snoc, nb_revAppend, nb_wrapChildren e hen, h1, h2, h3, h4, h5]
  | else_ =>
    cases hf : findIf acc with
    | none => simpa [hf] using nb_loopOrPlain c e acc hen ha
    | some w =>
      obtain ⟨cs, ⟨c0, k0, m0, e0⟩, older⟩ := w
      obtain ⟨h1, h2, h3, h4, h5⟩ := nb_findIf acc cs older c0 k0 m0 e0 hf ha
      simp [nbAS, nbA, nbEls, nb_revAppend, nb_wrapChildren e hen, h1, h2, h3, h5]

theorem nb_stepEl (acc : AS) (b : Base) (c : Ctl) (kids : AS) (ha : nbAS acc = true) (hk : nbAS kids = true) :
    nbAS (stepEl acc b c kids) = true := by
  rw [stepEl_eq]
  exact nb_stepEl' acc c _ ha (nb_mkElem _ kids hk)

mutual
theorem nb_parseX : ∀ (x : X) (acc : AS), nbAS acc = true → nbAS (parseX acc x) = true
  | .text s, acc, h => by
    simp only [parseX]
    split
    · exact h
    · simp_all [nbAS, nbA]
  | .comment, acc, h => by simp [parseX, nbAS, nbA, h]
  | .gone, acc, h => by simpa [parseX] using h
  | .el b c kids, acc, h => by
    simp only [parseX]
    exact nb_stepEl acc b c _ h (by rw [nb_rev]; exact nb_parseXS kids .nil (by simp [nbAS]))
theorem nb_parseXS : ∀ (xs : XS) (acc : AS), nbAS acc = true → nbAS (parseXS acc xs) = true
  | .nil, acc, h => by simpa [parseXS] using h
  | .cons x r, acc, h => by
    simp only [parseXS]
    exact nb_parseXS r _ (nb_parseX x acc h)
end

theorem nb_parse (xs : XS) : nbAS (parse xs) = true := by
  simp [parse, nb_rev, nb_parseXS xs .nil (by simp [nbAS])]

/-! ### comments are not printed -/

theorem printAS_app : ∀ (a b : AS) (k : XS), printAS (a.app b) k = printAS a (printAS b k)
  | .nil, _, _ => rfl
  | .cons x r, b, k => by simp [AS.app, printAS, printAS_app r b k]

theorem isBlank_empty : isBlank "" = true := by simp [isBlank]

mutual
theorem print_stripA : ∀ (a : A) (k : XS), nbA a = true → printAS (stripA a .nil) k = printA a k
  | .text s, k, h => by
    have hb : isBlank s = false := by simpa [nbA] using h
    have hne : s ≠ "" := by intro h0; subst h0; simp [isBlank_empty] at hb
    simp [stripA, hb, printAS, printA, hne]
  | .comment, k, _ => by simp [stripA, printAS, printA]
  | .normal p refs kids, k, h => by
    simp [stripA, printAS, printA, print_stripAS kids .nil (by simpa [nbA] using h)]
  | .pure s refs kids, k, h => by
    simp [stripA, printAS, printA, print_stripAS kids .nil (by simpa [nbA] using h)]
  | .slotEl p refs, k, _ => by simp [stripA, printAS, printA]
  | .leaf p, k, _ => by simp [stripA, printAS, printA]
  | .loop l it ix key kids, k, h => by
    simp [stripA, printAS, printA, print_stripAS kids .nil (by simpa [nbA] using h)]
  | .cond c kids more els, k, h => by
    simp [nbA] at h
    simp [stripA, printAS, printA, print_stripAS kids .nil h.1.1, print_stripBrs more _ h.1.2, print_stripEls els k h.2]
theorem print_stripAS : ∀ (a : AS) (k : XS), nbAS a = true → printAS (stripAS a .nil) k = printAS a k
  | .nil, k, _ => by simp [stripAS, printAS]
  | .cons a r, k, h => by
    simp [nbAS] at h
    simp only [stripAS, printAS]
    rw [stripA_app, printAS_app, print_stripAS r k h.2, print_stripA a _ h.1]
theorem print_stripBrs : ∀ (r : Brs) (k : XS), nbBrs r = true → printBrs (stripBrs r) k = printBrs r k
  | .nil, k, _ => by simp [stripBrs, printBrs]
  | .cons c kids r, k, h => by
    simp [nbBrs] at h
    simp [stripBrs, printBrs, print_stripAS kids .nil h.1, print_stripBrs r k h.2]
theorem print_stripEls : ∀ (e : Els) (k : XS), nbEls e = true → printEls (stripEls e) k = printEls e k
  | .none, k, _ => by simp [stripEls, printEls]
  | .some kids, k, h => by
    simp [stripEls, printEls, print_stripAS kids .nil (by simpa [nbEls] using h)]
end

theorem print_strip (a : AS) (h : nbAS a = true) : print (strip a) = print a := print_stripAS a .nil h

/-- **C14, tag level: printing is a fixpoint after one round**, for every sequence of tags — also the ill-formed ones (stray `wx:elif` /
`wx:else`, a second `wx:else`, every combination of control attributes, `slot:` references next to them). -/
theorem print_fixpoint (xs : XS) : print (parse (print (parse xs))) = print (parse xs) := by
  rw [parse_print, print_strip _ (nb_parse xs)]

/-- … and the tree read back from the printed text is the tree that was printed, minus its comments: a third round changes nothing at all. -/
theorem parse_print_parse (xs : XS) : parse (print (parse (print (parse xs)))) = parse (print (parse xs)) := by
  rw [print_fixpoint]

/-! ### the statements are about something: an ill-formed sequence on which every mechanism acts -/

/-- `<a wx:if="c1" slot:r/><!----><block wx:elif="c2">t</block> <b wx:else wx:for="l"/><c wx:else/><d wx:elif="c3"/>` -/
def sample : XS :=
  .cons (.el (.normal "a" ["r"]) { wxIf := some "c1" } .nil) <|
  .cons .comment <|
  .cons (.el (.pure none []) { wxElif := some "c2" } (.cons (.text "t") .nil)) <|
  .cons (.text " ") <|
  .cons (.el (.normal "b" []) { wxElse := true, wxFor := some "l" } .nil) <|
  .cons (.el (.normal "c" []) { wxElse := true } .nil) <|
  .cons (.el (.normal "d" []) { wxElif := some "c3" } .nil) .nil

example : AS.show (parse sample)
    = " (if (\"c1\" (normal \"a\" [])) (\"c2\" (comment) (text \"t\"))) (for \"l\" \"item\" \"index\" \"\" (normal \"b\" [])) (normal \"c\" []) (normal \"d\" [])" := by
  decide +kernel

example : AS.show (parse (print (parse sample))) ≠ AS.show (parse sample) ∧ print (parse (print (parse sample))) = print (parse sample) :=
  ⟨by decide +kernel, print_fixpoint sample⟩

end GE.TagTree
