/-!
Model of `BindingMapCollector` (`binding_map.rs`): a state machine over the operations the
template traversal issues — `add_field` for every data field of a value in a statically reachable
position, `disable_field` for every data field of a value in a dynamic subtree or structural
position, `disable_all` for templates containing `<include>`.
-/
namespace GE.BM

inductive Field where
  | mapped (n : Nat)
  | disabled
deriving DecidableEq, Repr

structure Collector where
  overallDisabled : Bool
  fields : List (String × Field)     -- an ordered map; keys distinct
deriving Repr

inductive Op where
  | add (f : String)
  | disable (f : String)
  | disableAll
deriving DecidableEq, Repr

def Collector.new : Collector := ⟨false, []⟩

def setField : List (String × Field) → String → Field → List (String × Field)
  | [], k, v => [(k, v)]
  | (k', v') :: r, k, v => if k' = k then (k, v) :: r else (k', v') :: setField r k v

/-- `add_field`: returns the index for this occurrence, or `none` if the field is disabled -/
def Collector.addField (c : Collector) (f : String) : Collector × Option Nat :=
  match c.fields.lookup f with
  | none => ({ c with fields := setField c.fields f (.mapped 1) }, some 0)
  | some (.mapped n) => ({ c with fields := setField c.fields f (.mapped (n + 1)) }, some n)
  | some .disabled => (c, none)

def Collector.disableField (c : Collector) (f : String) : Collector :=
  { c with fields := setField c.fields f .disabled }

def Collector.disableAll (c : Collector) : Collector := { c with overallDisabled := true }

/-- `get_field(f).is_some()`: the field is advertised -/
def Collector.advertised (c : Collector) (f : String) : Bool :=
  !c.overallDisabled && (match c.fields.lookup f with
    | some (.mapped _) => true
    | _ => false)

/-- size of the updater array `A[f]` (`list_fields`) -/
def Collector.size (c : Collector) (f : String) : Option Nat :=
  if c.overallDisabled then none else
  match c.fields.lookup f with
  | some (.mapped n) => some n
  | _ => none

def step (c : Collector) : Op → Collector
  | .add f => (c.addField f).1
  | .disable f => c.disableField f
  | .disableAll => c.disableAll

def run (ops : List Op) : Collector := ops.foldl step .new

/-- the indices returned by the successive `add_field f` calls of a run -/
def addResults : Collector → List Op → List (String × Option Nat)
  | _, [] => []
  | c, .add f :: r => (f, (c.addField f).2) :: addResults (c.addField f).1 r
  | c, op :: r => addResults (step c op) r

end GE.BM
