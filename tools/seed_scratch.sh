#!/bin/sh
# usage: tools/seed_scratch.sh <patch.diff> <Cxx> [tier]
# Tests a seeded change WITHOUT touching /repo or /verif: a scratch worktree of /repo (/tmp/wtseed) gets the patch,
# a scratch copy of /verif (/tmp/vseed) runs the check against it (GE_REPO), then the patch is undone.
set -u
P="$1"; ID="$2"; TIER="${3:-quick}"
WT=/tmp/wtseed; VS=/tmp/vseed
if [ ! -d "$WT" ]; then git -C /repo worktree add --detach "$WT" HEAD >/dev/null 2>&1 || exit 2; fi
cd "$WT" && git checkout -q --detach "$(git -C /repo rev-parse HEAD)" && git checkout -- . || exit 2
git apply "$P" || { echo "patch does not apply"; exit 2; }
mkdir -p "$VS"
rsync -a --delete --exclude .git --exclude replays --exclude evidence /verif/ "$VS"/
mkdir -p "$VS/replays" "$VS/evidence"
sed -i "s#/repo/#$WT/#g" "$VS/harness/Cargo.toml"
cd "$VS" && GE_REPO="$WT" ./check "$ID" --tier "$TIER" 2>&1 | grep -E "^(OK|VIOLATION|KNOWN-FINDING)|violation\[" | cut -c1-400 | sort | uniq -c | sort -rn | head -12
cd "$WT" && git checkout -- .
