/-
C06 — guard soundness (value level) for EVERY expression form: data fields, scope references (for-items,
indexes, slot values, script modules), literals, object literals (named fields and spread operands), array
literals (items, holes and spread operands), member and index chains, calls, unary / binary operators, `??`,
string conversion and conditionals — over the REAL analysis function `GE.PA.analyze` (whose printed guards
are compared byte for byte with the implementation).

Semantics.  A value `V` is an atom, `undefined`, or an object (a function from keys to values, `absent` for
a key the object does not have); member reads are null-safe (`X(o)[k]`); operators and calls are arbitrary
pure functions of their operand values; an object literal builds its fields left to right (a later field or
spread operand replaces an earlier one); an array literal is an object with the keys `0 … n-1` for the items
before the first spread operand, and an arbitrary function (`Ops.arrTail`) of the remaining operand values
for every other key.

An update-path tree `UT` is `undefined` (`none`), `true` (`all`) or an object (`node`, `absent` for a key it
does not have); `Z`, `Q.a`, `Q.b`, `Q.c` and `Object.assign` are the run-time helpers of those names.
`covers U D D'` is the premise of C06, with the meaning the framework's own tree builder (`tmpl/index.ts`)
gives to a tree: below a node only the marked children differ (the value at the node itself may have become
an object, as it does when a path write creates it).  A real tree can only be MORE marked than its model
(inherited members of the tree objects such as `length` read as truthy), and guards are monotone in the tree.

The hoisted temporaries hold the NEW values of their index expressions / conditions (`TempsOk`); every scope
variable comes with a tree that covers its change (`ScopesOk`: what `F(...)` hands to a for-item, `undefined`
for a script module, whose value never changes).

`guard_sound`: if no path recorded by the analysis (the `path_calc` list and the returned path: exactly the
operands of the emitted guard `!!(p₁||p₂…)||p`) evaluates to a truthy tree, the expression has the same
value under the old and the new data — so skipping the update is correct.

History: the spread case of this proof failed for the trees the generator emitted at the pinned commit
(`Object.assign({a:T_x},X(T_o))`): the failed step gave the counterexample `{a:x,...o}.a.d` (finding D58,
replayed on the real runtime and repaired by the helper `Q.c`, which is what `objG` models).
-/
import GE.Model.PathAnalysis
import GE.Extracted.RuntimeHelpers

namespace GE.PA.Guard
open GE GE.Gen GE.PA

/-! ## values and update-path trees -/

inductive V where
  | undef
  | atom (n : Nat)
  | obj (m : String → V)
  | absent

def V.isAbsent : V → Bool
  | .absent => true
  | _ => false

/-- what a read yields: a missing key reads as `undefined` -/
def V.norm : V → V
  | .absent => .undef
  | v => v

def V.child : V → String → V
  | .obj m, k => m k
  | _, _ => .absent

/-- `X(o)[k]` -/
def V.get (v : V) (k : String) : V := (v.child k).norm

/-- property key of a value used as an index -/
def V.toKey : V → String
  | .atom n => toString n
  | _ => "undefined"

inductive UT where
  | none
  | all
  | node (f : String → UT)
  | absent

def UT.isAbsent : UT → Bool
  | .absent => true
  | _ => false

def UT.isAll : UT → Bool
  | .all => true
  | _ => false

def UT.norm : UT → UT
  | .absent => .none
  | t => t

def UT.child : UT → String → UT
  | .node f, k => f k
  | .all, _ => .all
  | _, _ => .absent

/-- `function(a,b){if(a===true)return true;if(a)return a[b]}` -/
def Z (u : UT) (k : String) : UT := (u.child k).norm

def UT.truthyB : UT → Bool
  | .all => true
  | .node _ => true
  | _ => false

def UT.truthy (u : UT) : Prop := u.truthyB = true

/-- every difference between `d` and `d'` lies below a marked node of `u` -/
def covers : UT → V → V → Prop
  | .all, _, _ => True
  | .node f, d, d' => ∀ k, covers (f k) (d.child k) (d'.child k)
  | .none, d, d' => d = d'
  | .absent, d, d' => d = d'

theorem covers_refl : ∀ (u : UT) (d : V), covers u d d
  | .all, _ => by simp [covers]
  | .none, _ => by simp [covers]
  | .absent, _ => by simp [covers]
  | .node f, d => by
    simp only [covers]
    intro k
    exact covers_refl (f k) _

theorem eq_of_covers_not_truthy {u : UT} {d d' : V} (h : ¬u.truthy) (hc : covers u d d') : d = d' := by
  cases u <;> simp [UT.truthy, UT.truthyB, covers] at h hc ⊢ <;> exact hc

theorem child_norm (v : V) (k : String) : v.norm.child k = v.child k := by
  cases v <;> simp [V.norm, V.child]

theorem covers_norm {u : UT} {d d' : V} (h : covers u d d') : covers u.norm d.norm d'.norm := by
  cases u with
  | all => simp [UT.norm, covers]
  | none => simp only [covers] at h; subst h; exact covers_refl _ _
  | absent => simp only [covers] at h; subst h; exact covers_refl _ _
  | node f =>
    simp only [UT.norm, covers] at h ⊢
    intro k
    rw [child_norm, child_norm]
    exact h k

theorem covers_Z {u : UT} {d d' : V} (h : covers u d d') (k : String) : covers (Z u k) (d.get k) (d'.get k) := by
  unfold Z V.get
  apply covers_norm
  cases u with
  | all => simp [UT.child, covers]
  | none => simp only [covers] at h; subst h; exact covers_refl _ _
  | absent => simp only [covers] at h; subst h; exact covers_refl _ _
  | node f => simp only [covers] at h; exact h k

/-! ## helpers of the generated code, on trees -/

/-- the value of the `i`-th entry of a list under the key `toString (start + i)` -/
def idxLookup {α : Type} : List α → Nat → String → Option α
  | [], _, _ => none
  | x :: r, start, k => if k = toString start then some x else idxLookup r (start + 1) k

/-- `Q.a`: `function(a){for(var i=0;i<a.length;i++)if(a[i])return a}` on an array literal with holes -/
def qa (ts : List UT) : UT :=
  if ts.any UT.truthyB then .node (fun k => (idxLookup ts 0 k).getD .absent) else .none

open Classical in
/-- `Q.b`: `function(b){var a=Object.values(b);for(var i=0;i<a.length;i++)if(a[i])return b}` -/
noncomputable def qb (g : String → UT) : UT :=
  if ∃ k, (g k).truthy then .node g else .none

def upd {α : Type} (g : String → α) (k : String) (t : α) : String → α := fun k' => if k' = k then t else g k'

theorem upd_same {α : Type} {g : String → α} {k k' : String} {t : α} (h : k' = k) : upd g k t k' = t := by
  simp [upd, h]

theorem upd_other {α : Type} {g : String → α} {k k' : String} {t : α} (h : ¬k' = k) : upd g k t k' = g k' := by
  simp [upd, h]

/-- `Object.assign({k₁:T₁,…},Q.c(S₁),{…},…)` left to right; an entry `absent` is a field that is not written
(it has no path); `Q.c(S)` has the keys of `S`, each with the value `true` -/
def objG : List (Option String × UT) → (String → UT) → (String → UT)
  | [], g => g
  | (some k, t) :: r, g => objG r (if t.isAbsent then g else upd g k t)
  | (none, t) :: r, g =>
    objG r (match t with
      | .node f => fun k' => if (f k').isAbsent then g k' else .all
      | _ => g)

/-- the prefix `(S₁)===true||(S₂)===true||…` -/
def objAnyAll (es : List (Option String × UT)) : Bool := es.any (fun e => e.1.isNone && e.2.isAll)

/-! ## expressions -/

/-- pure interpretations of the operators -/
structure Ops where
  un : UnOp → V → V
  bin : BinOp → V → V → V
  call : V → List V → V
  toStr : V → V
  lit : Expr → V          -- value of a literal
  truthy : V → Bool
  /-- the members of an array literal from its first spread operand on: a function of the number of items
  before it, of which of the remaining operands are spread, and of their values -/
  arrTail : Nat → List Bool → List V → String → V

/-- the data and the values of the scope variables -/
structure Env where
  data : V
  scope : Nat → V

/-- `{…}` built left to right: a named field, or the own fields of a spread operand -/
def objM : List (Option String × V) → (String → V) → (String → V)
  | [], m => m
  | (some k, v) :: r, m => objM r (upd m k v.norm)
  | (none, s) :: r, m => objM r (fun k' => if (s.child k').isAbsent then m k' else s.child k')

def arrVal (F : Ops) (main : List V) (flags : List Bool) (rest : List V) : V :=
  .obj (fun k => match idxLookup main 0 k with
    | some v => v
    | none => F.arrTail main.length flags rest k)

mutual
def evalE (F : Ops) (D : Env) : Expr → V
  | .data x => D.data.get x
  | .scope i => D.scope i
  | .cond c t f => if F.truthy (evalE F D c) then evalE F D t else evalE F D f
  | .toStr e => F.toStr (evalE F D e)
  | .smember o f => (evalE F D o).get f
  | .dmember o f => (evalE F D o).get (evalE F D f).toKey
  | .call f args => F.call (evalE F D f) (evalList F D args)
  | .un op e => F.un op (evalE F D e)
  | .bin op l r => F.bin op (evalE F D l) (evalE F D r)
  | .obj fs => .obj (objM (objVals F D fs) (fun _ => .absent))
  | .arr fs => evalArr F D fs [] [] []
  | e => F.lit e
def evalList (F : Ops) (D : Env) : Exprs → List V
  | .nil => []
  | .cons e r => evalE F D e :: evalList F D r
def objVals (F : Ops) (D : Env) : ObjFields → List (Option String × V)
  | .nil => []
  | .named k _ v r => (some k, evalE F D v) :: objVals F D r
  | .spread v r => (none, evalE F D v) :: objVals F D r
/-- items go to the second list from the first spread operand on (as in the analysis) -/
def evalArr (F : Ops) (D : Env) : ArrFields → List V → List Bool → List V → V
  | .nil, main, flags, rest => arrVal F main flags rest
  | .item v r, main, flags, rest =>
    if flags.isEmpty then evalArr F D r (main ++ [evalE F D v]) flags rest
    else evalArr F D r main (flags ++ [false]) (rest ++ [evalE F D v])
  | .spread v r, main, flags, rest => evalArr F D r main (flags ++ [true]) (rest ++ [evalE F D v])
  | .hole r, main, flags, rest =>
    if flags.isEmpty then evalArr F D r (main ++ [.absent]) flags rest
    else evalArr F D r main (flags ++ [false]) (rest ++ [.absent])
end

/-! ## meaning of the recorded paths -/

/-- run-time values of the hoisted temporaries: an index temporary as a property key, a condition temporary
as its truthiness; `tree i` is the update-path tree variable of scope `i` -/
structure Temps where
  key : String → String
  cond : String → Bool
  tree : Nat → UT

/-- a sub-expression is written into the combined tree iff it has a path or sub-paths -/
def present : Pas → PslList → Bool
  | .inPath _, _ => true
  | .notInPath, sub => !sub.isEmpty

mutual
/-- walk the update-path tree along a recorded path (`U.x`, tree variable, `Z(…,"k")`, `Z(…,$i)`,
`($c ? T : F)`, `Q.b(Object.assign(…))`, `Q.a([…])`), where every combined operand has the form
`!!(sub₁||sub₂…)||path` -/
noncomputable def descend (U : UT) (τ : Temps) : Psl → UT → UT
  | .nil, acc => acc
  | .cons s r, acc => descend U τ r (sliceTree U τ s acc)
noncomputable def sliceTree (U : UT) (τ : Temps) : Slice → UT → UT
  | .ident x, _ => Z U x
  | .scopeIndex i, _ => τ.tree i
  | .staticMember s, acc => Z acc s
  | .indirect i, acc => Z acc (τ.key i)
  | .condition c tp ts fp fs, _ =>
    if τ.cond c then (if anyTruthy U τ ts then .all else pasTree U τ tp)
    else (if anyTruthy U τ fs then .all else pasTree U τ fp)
  | .combineObj fs, _ =>
    if objAnyAll (objEntries U τ fs) then .all else qb (objG (objEntries U τ fs) (fun _ => .absent))
  | .combineArr v sp, _ =>
    if (arrTrees U τ sp).any UT.truthyB then .all else qa (arrTrees U τ v)
noncomputable def pasTree (U : UT) (τ : Temps) : Pas → UT
  | .inPath l => descend U τ l .none
  | .notInPath => .none
noncomputable def anyTruthy (U : UT) (τ : Temps) : PslList → Bool
  | .nil => false
  | .cons l r => (descend U τ l .none).truthyB || anyTruthy U τ r
noncomputable def objEntries (U : UT) (τ : Temps) : ObjSubs → List (Option String × UT)
  | .nil => []
  | .cons key p sub r =>
    (key, if present p sub then (if anyTruthy U τ sub then .all else pasTree U τ p) else .absent) ::
      objEntries U τ r
noncomputable def arrTrees (U : UT) (τ : Temps) : ArrSubs → List UT
  | .nil => []
  | .cons p sub r =>
    (if present p sub then (if anyTruthy U τ sub then .all else pasTree U τ p) else .absent) :: arrTrees U τ r
end

noncomputable def pathTree (U : UT) (τ : Temps) (l : Psl) : UT := descend U τ l .none

/-- the tree written for one operand of a combination -/
noncomputable def entryT (U : UT) (τ : Temps) (p : Pas) (sub : PslList) : UT :=
  if present p sub then (if anyTruthy U τ sub then .all else pasTree U τ p) else .absent

def _root_.GE.PA.PslList.toList : PslList → List Psl
  | .nil => []
  | .cons l r => l :: r.toList

theorem toList_append : ∀ (a b : PslList), (a.append b).toList = a.toList ++ b.toList
  | .nil, b => rfl
  | .cons l r, b => by simp [PslList.append, PslList.toList, toList_append r b]

theorem endPath_toList (pas : Pas) (pc : PslList) :
    (endPath pas pc).toList = pc.toList ++ (match pas with | .inPath l => [l] | .notInPath => []) := by
  cases pas <;> simp [endPath, toList_append, PslList.toList]

/-- the operands of the emitted guard: every recorded sub-path and the returned path -/
def guardPaths (r : Res) : List Psl := (endPath r.pas r.pc).toList

def guardOn (U : UT) (τ : Temps) (r : Res) : Prop := ∃ l ∈ guardPaths r, (pathTree U τ l).truthy

theorem descend_snoc (U τ) : ∀ (l : Psl) (acc : UT) (x : Slice),
    descend U τ (l.snoc x) acc = sliceTree U τ x (descend U τ l acc)
  | .nil, acc, x => by simp [Psl.snoc, descend]
  | .cons y r, acc, x => by simp [Psl.snoc, descend, descend_snoc U τ r]

theorem anyTruthy_false {U τ} : ∀ {subs : PslList}, anyTruthy U τ subs = false →
    ∀ l ∈ subs.toList, ¬(pathTree U τ l).truthy
  | .nil, _, l, hl => by simp [PslList.toList] at hl
  | .cons x r, h, l, hl => by
    simp only [anyTruthy, Bool.or_eq_false_iff] at h
    simp only [PslList.toList, List.mem_cons] at hl
    rcases hl with rfl | hl
    · simp [UT.truthy, pathTree, h.1]
    · exact anyTruthy_false h.2 l hl

/-! ## the temporaries hold the new index values -/

mutual
def TempsOk (scopes : List ScopeInfo) (F : Ops) (D' : Env) (τ : Temps) : Expr → Nat → Prop
  | .toStr e, n => TempsOk scopes F D' τ e n
  | .smember o _, n => TempsOk scopes F D' τ o n
  | .dmember o f, n =>
    τ.key (privName n) = (evalE F D' f).toKey ∧ TempsOk scopes F D' τ f (n + 1) ∧
      TempsOk scopes F D' τ o (analyze scopes f (n + 1)).next
  | .call f args, n => TempsOk scopes F D' τ f n ∧ TempsOkList scopes F D' τ args (analyze scopes f n).next
  | .un _ e, n => TempsOk scopes F D' τ e n
  | .bin op l r, n =>
    if op = .NullishCoalescing then
      TempsOk scopes F D' τ l (n + 1) ∧ TempsOk scopes F D' τ r (analyze scopes l (n + 1)).next
    else TempsOk scopes F D' τ l n ∧ TempsOk scopes F D' τ r (analyze scopes l n).next
  | .cond c t f, n =>
    τ.cond (privName n) = F.truthy (evalE F D' c) ∧ TempsOk scopes F D' τ c (n + 1) ∧
      TempsOk scopes F D' τ t (analyze scopes c (n + 1)).next ∧
      TempsOk scopes F D' τ f (analyze scopes t (analyze scopes c (n + 1)).next).next
  | .obj fs, n => TempsOkObj scopes F D' τ fs n
  | .arr fs, n => TempsOkArr scopes F D' τ fs n
  | _, _ => True
def TempsOkList (scopes : List ScopeInfo) (F : Ops) (D' : Env) (τ : Temps) : Exprs → Nat → Prop
  | .nil, _ => True
  | .cons e r, n => TempsOk scopes F D' τ e n ∧ TempsOkList scopes F D' τ r (analyze scopes e n).next
def TempsOkObj (scopes : List ScopeInfo) (F : Ops) (D' : Env) (τ : Temps) : ObjFields → Nat → Prop
  | .nil, _ => True
  | .named _ _ v r, n => TempsOk scopes F D' τ v n ∧ TempsOkObj scopes F D' τ r (analyze scopes v n).next
  | .spread v r, n => TempsOk scopes F D' τ v n ∧ TempsOkObj scopes F D' τ r (analyze scopes v n).next
def TempsOkArr (scopes : List ScopeInfo) (F : Ops) (D' : Env) (τ : Temps) : ArrFields → Nat → Prop
  | .nil, _ => True
  | .item v r, n => TempsOk scopes F D' τ v n ∧ TempsOkArr scopes F D' τ r (analyze scopes v n).next
  | .spread v r, n => TempsOk scopes F D' τ v n ∧ TempsOkArr scopes F D' τ r (analyze scopes v n).next
  | .hole r, n => TempsOkArr scopes F D' τ r n
end

/-- every scope variable comes with a tree that covers its change; a scope without a tree (and that is not
a script module) does not change -/
def ScopesOk (scopes : List ScopeInfo) (τ : Temps) (D D' : Env) : Prop :=
  ∀ i, if (scopeAt scopes i).lv = 3 ∨ (scopeAt scopes i).lv = 4 ∨ (scopeAt scopes i).tree.isSome = true
       then covers (τ.tree i) (D.scope i) (D'.scope i) else D.scope i = D'.scope i

/-! ## soundness -/

/-- what the analysis result says about the two values -/
def Related (U : UT) (τ : Temps) (pas : Pas) (v v' : V) : Prop :=
  match pas with
  | .inPath l => covers (pathTree U τ l) v v'
  | .notInPath => v = v'

/-- an operand whose own paths are all unmarked is unchanged -/
theorem unchanged_of_related {U τ pas pc v v'} (hrel : Related U τ pas v v')
    (hno : ∀ l ∈ (endPath pas pc).toList, ¬(pathTree U τ l).truthy) : v = v' := by
  cases pas with
  | notInPath => exact hrel
  | inPath l =>
    have hn := hno l (by simp [endPath_toList])
    simp only [Related] at hrel
    exact eq_of_covers_not_truthy hn hrel

/-- the tree written for an operand of a combination (conditional branch, object field, array item) covers
the operand's change: a marked sub-path makes it `true`, otherwise it is the operand's own path; an operand
without any path is not written and does not change -/
theorem entry_covers {U : UT} {τ : Temps} {pas : Pas} {pc : PslList} {v v' : V}
    (h : (∀ l ∈ pc.toList, ¬(pathTree U τ l).truthy) → Related U τ pas v v') :
    covers (entryT U τ pas pc) v v' := by
  unfold entryT
  by_cases hp : present pas pc = true
  · simp only [hp, if_true]
    by_cases ha : anyTruthy U τ pc = true
    · simp [ha, covers]
    · simp only [ha]
      have hrel := h (anyTruthy_false (by simpa using ha))
      cases pas with
      | notInPath => simp only [Related] at hrel; simp [pasTree, covers, hrel]
      | inPath l => simpa [Related, pathTree, pasTree] using hrel
  · simp only [hp]
    cases pas with
    | inPath l => simp [present] at hp
    | notInPath =>
      cases pc with
      | cons x r => simp [present, PslList.isEmpty] at hp
      | nil =>
        have hrel := h (by simp [PslList.toList])
        simp only [Related] at hrel
        simp [covers, hrel]

/-- a conditional's branch -/
theorem branch_covers {U : UT} {τ : Temps} {pas : Pas} {pc : PslList} {v v' : V}
    (h : (∀ l ∈ pc.toList, ¬(pathTree U τ l).truthy) → Related U τ pas v v') :
    covers (if anyTruthy U τ pc then .all else pasTree U τ pas) v v' := by
  by_cases ha : anyTruthy U τ pc = true
  · simp [ha, covers]
  · simp only [ha]
    have hrel := h (anyTruthy_false (by simpa using ha))
    cases pas with
    | notInPath => simp only [Related] at hrel; simp [pasTree, covers, hrel]
    | inPath l => simpa [Related, pathTree, pasTree] using hrel

/-! ### object literals -/

def Cov3o : List (Option String × UT) → List (Option String × V) → List (Option String × V) → Prop
  | [], [], [] => True
  | (k, t) :: ts, (k1, v) :: vs, (k2, v') :: vs' => k1 = k ∧ k2 = k ∧ covers t v v' ∧ Cov3o ts vs vs'
  | _, _, _ => False

theorem objG_covers : ∀ (es : List (Option String × UT)) (vs vs' : List (Option String × V))
    (g : String → UT) (m m' : String → V), Cov3o es vs vs' → objAnyAll es = false →
    (∀ k, covers (g k) (m k) (m' k)) → ∀ k, covers (objG es g k) (objM vs m k) (objM vs' m' k)
  | [], [], [], g, m, m', _, _, h => by simpa [objG, objM] using h
  | [], _ :: _, _, _, _, _, hc, _, _ => by simp [Cov3o] at hc
  | [], [], _ :: _, _, _, _, hc, _, _ => by simp [Cov3o] at hc
  | _ :: _, [], _, _, _, _, hc, _, _ => by simp [Cov3o] at hc
  | _ :: _, _ :: _, [], _, _, _, hc, _, _ => by simp [Cov3o] at hc
  | (some k, t) :: es, (k1, v) :: vs, (k2, v') :: vs', g, m, m', hc, ha, h => by
    simp only [Cov3o] at hc
    obtain ⟨rfl, rfl, hcv, hrest⟩ := hc
    have ha' : objAnyAll es = false := by
      simp only [objAnyAll, List.any_cons, Bool.or_eq_false_iff] at ha
      exact ha.2
    simp only [objG, objM]
    apply objG_covers es vs vs' _ _ _ hrest ha'
    intro k'
    by_cases hab : t.isAbsent = true
    · have : v = v' := by cases t <;> simp [UT.isAbsent] at hab; simpa [covers] using hcv
      subst this
      rw [if_pos hab]
      by_cases hk : k' = k
      · rw [upd_same hk, upd_same hk]; exact covers_refl _ _
      · rw [upd_other hk, upd_other hk]; exact h k'
    · rw [if_neg hab]
      by_cases hk : k' = k
      · rw [upd_same hk, upd_same hk, upd_same hk]
        have := covers_norm hcv
        cases t <;> simp [UT.isAbsent] at hab <;> simpa [UT.norm] using this
      · rw [upd_other hk, upd_other hk, upd_other hk]; exact h k'
  | (none, t) :: es, (k1, s) :: vs, (k2, s') :: vs', g, m, m', hc, ha, h => by
    simp only [Cov3o] at hc
    obtain ⟨rfl, rfl, hcv, hrest⟩ := hc
    have ha' : objAnyAll es = false ∧ t.isAll = false := by
      simp only [objAnyAll, List.any_cons, Bool.or_eq_false_iff] at ha
      exact ⟨ha.2, by simpa using ha.1⟩
    simp only [objG, objM]
    apply objG_covers es vs vs' _ _ _ hrest ha'.1
    intro k'
    -- the operand's own field `k'` is unchanged unless the operand's tree has the key
    have key : ∀ (gk : UT), covers gk (m k') (m' k') → s.child k' = s'.child k' →
        covers gk (if (s.child k').isAbsent then m k' else s.child k')
          (if (s'.child k').isAbsent then m' k' else s'.child k') := by
      intro gk hg he
      rw [← he]
      by_cases hc : (s.child k').isAbsent = true
      · simpa [hc] using hg
      · simp only [hc]; exact covers_refl _ _
    cases t with
    | all => simp [UT.isAll] at ha'
    | none => simp only [covers] at hcv; subst hcv; exact key _ (h k') rfl
    | absent => simp only [covers] at hcv; subst hcv; exact key _ (h k') rfl
    | node f =>
      simp only [covers] at hcv
      by_cases hf : (f k').isAbsent = true
      · simp only [hf, if_true]
        have hk := hcv k'
        have : s.child k' = s'.child k' := by
          cases hfk : f k' <;> rw [hfk] at hf hk <;> simp [UT.isAbsent] at hf
          simpa [covers] using hk
        exact key _ (h k') this
      · simp [hf, covers]

theorem obj_final (es : List (Option String × UT)) (vs vs' : List (Option String × V)) (hc : Cov3o es vs vs') :
    covers (if objAnyAll es then .all else qb (objG es (fun _ => .absent)))
      (.obj (objM vs (fun _ => .absent))) (.obj (objM vs' (fun _ => .absent))) := by
  by_cases ha : objAnyAll es = true
  · simp [ha, covers]
  · rw [if_neg ha]
    have H := objG_covers es vs vs' (fun _ => .absent) (fun _ => .absent) (fun _ => .absent) hc (by simpa using ha)
      (fun _ => by simp [covers])
    unfold qb
    by_cases he : ∃ k, (objG es (fun _ => .absent) k).truthy
    · rw [if_pos he]
      simp only [covers, V.child]
      exact H
    · rw [if_neg he]
      simp only [covers]
      congr 1
      funext k
      exact eq_of_covers_not_truthy (fun ht => he ⟨k, ht⟩) (H k)

/-! ### the tree emitted at the pinned commit (`Object.assign({…},X(S),{…})`) does not cover: finding D58 -/

/-- the pre-repair combination: a spread operand's tree is copied key by key -/
def objGOld : List (Option String × UT) → (String → UT) → (String → UT)
  | [], g => g
  | (some k, t) :: r, g => objGOld r (if t.isAbsent then g else upd g k t)
  | (none, t) :: r, g =>
    objGOld r (match t with
      | .node f => fun k' => if (f k').isAbsent then g k' else f k'
      | _ => g)

/-- `{a:x,...o}` with `x = {d:1}` unchanged and `o = {}` becoming `{a:{c:1}}` under the tree `{a:{c:true}}` of `o`:
the old combination yields `{c:true}` for the field `a`, which does not cover the change of `a.d` from `1` to
nothing.  (Replayed on the real runtime: `seeded`-style input in `known_findings.jsonl`, D58.) -/
theorem objGOld_not_covering :
    ∃ (es : List (Option String × UT)) (vs vs' : List (Option String × V)),
      Cov3o es vs vs' ∧ objAnyAll es = false ∧
      ¬ ∀ k, covers (objGOld es (fun _ => .absent) k) (objM vs (fun _ => .absent) k) (objM vs' (fun _ => .absent) k) := by
  refine ⟨[(some "a", .none), (none, .node fun k => if k = "a" then .node (fun k => if k = "c" then .all else .absent) else .absent)],
    [(some "a", .obj fun k => if k = "d" then .atom 1 else .absent), (none, .obj fun _ => .absent)],
    [(some "a", .obj fun k => if k = "d" then .atom 1 else .absent),
     (none, .obj fun k => if k = "a" then .obj (fun k => if k = "c" then .atom 1 else .absent) else .absent)], ?_, ?_, ?_⟩
  · simp only [Cov3o, covers, V.child, true_and, and_true]
    intro k
    by_cases h : k = "a"
    · simp only [h, if_true, covers, V.child]
      intro k
      by_cases h : k = "c" <;> simp [h, covers]
    · simp [h, covers]
  · simp [objAnyAll, UT.isAll]
  · intro h
    have h1 := h "a"
    simp [objGOld, objM, upd, UT.isAbsent, V.child, V.isAbsent, V.norm, covers] at h1
    have h2 := h1 "d"
    simp [covers] at h2

/-! ### array literals -/

def Cov3 : List UT → List V → List V → Prop
  | [], [], [] => True
  | t :: ts, v :: vs, v' :: vs' => covers t v v' ∧ Cov3 ts vs vs'
  | _, _, _ => False

theorem Cov3_snoc : ∀ (ts : List UT) (vs vs' : List V) (t : UT) (v v' : V), Cov3 ts vs vs' → covers t v v' →
    Cov3 (ts ++ [t]) (vs ++ [v]) (vs' ++ [v'])
  | [], [], [], t, v, v', _, h => by simp [Cov3, h]
  | [], _ :: _, _, _, _, _, hc, _ => by simp [Cov3] at hc
  | [], [], _ :: _, _, _, _, hc, _ => by simp [Cov3] at hc
  | _ :: _, [], _, _, _, _, hc, _ => by simp [Cov3] at hc
  | _ :: _, _ :: _, [], _, _, _, hc, _ => by simp [Cov3] at hc
  | a :: ts, b :: vs, c :: vs', t, v, v', hc, h => by
    simp only [Cov3] at hc
    simp only [List.cons_append, Cov3]
    exact ⟨hc.1, Cov3_snoc ts vs vs' t v v' hc.2 h⟩

theorem Cov3_length : ∀ (ts : List UT) (vs vs' : List V), Cov3 ts vs vs' →
    ts.length = vs.length ∧ vs.length = vs'.length
  | [], [], [], _ => by simp
  | [], _ :: _, _, hc => by simp [Cov3] at hc
  | [], [], _ :: _, hc => by simp [Cov3] at hc
  | _ :: _, [], _, hc => by simp [Cov3] at hc
  | _ :: _, _ :: _, [], hc => by simp [Cov3] at hc
  | a :: ts, b :: vs, c :: vs', hc => by
    simp only [Cov3] at hc
    have := Cov3_length ts vs vs' hc.2
    simp [this.1, this.2]

theorem Cov3_eq : ∀ (ts : List UT) (vs vs' : List V), Cov3 ts vs vs' → ts.any UT.truthyB = false → vs = vs'
  | [], [], [], _, _ => rfl
  | [], _ :: _, _, hc, _ => by simp [Cov3] at hc
  | [], [], _ :: _, hc, _ => by simp [Cov3] at hc
  | _ :: _, [], _, hc, _ => by simp [Cov3] at hc
  | _ :: _, _ :: _, [], hc, _ => by simp [Cov3] at hc
  | a :: ts, b :: vs, c :: vs', hc, hn => by
    simp only [Cov3] at hc
    simp only [List.any_cons, Bool.or_eq_false_iff] at hn
    have h1 : b = c := eq_of_covers_not_truthy (by simp [UT.truthy, hn.1]) hc.1
    rw [h1, Cov3_eq ts vs vs' hc.2 hn.2]

theorem Cov3_lookup : ∀ (ts : List UT) (vs vs' : List V), Cov3 ts vs vs' → ∀ (start : Nat) (k : String),
    (idxLookup ts start k = none ∧ idxLookup vs start k = none ∧ idxLookup vs' start k = none) ∨
    ∃ t v v', idxLookup ts start k = some t ∧ idxLookup vs start k = some v ∧ idxLookup vs' start k = some v' ∧
      covers t v v'
  | [], [], [], _, _, _ => by simp [idxLookup]
  | [], _ :: _, _, hc, _, _ => by simp [Cov3] at hc
  | [], [], _ :: _, hc, _, _ => by simp [Cov3] at hc
  | _ :: _, [], _, hc, _, _ => by simp [Cov3] at hc
  | _ :: _, _ :: _, [], hc, _, _ => by simp [Cov3] at hc
  | a :: ts, b :: vs, c :: vs', hc, start, k => by
    simp only [Cov3] at hc
    simp only [idxLookup]
    by_cases hk : k = toString start
    · simp only [hk, if_true]
      exact Or.inr ⟨a, b, c, rfl, rfl, rfl, hc.1⟩
    · simp only [hk, if_false]
      exact Cov3_lookup ts vs vs' hc.2 (start + 1) k

theorem arr_final (F : Ops) (tm tr : List UT) (mv mv' rv rv' : List V) (flags : List Bool)
    (hm : Cov3 tm mv mv') (hr : Cov3 tr rv rv') :
    covers (if tr.any UT.truthyB then .all else qa tm) (arrVal F mv flags rv) (arrVal F mv' flags rv') := by
  by_cases ha : tr.any UT.truthyB = true
  · simp [ha, covers]
  · rw [if_neg ha]
    have hrv : rv = rv' := Cov3_eq tr rv rv' hr (by simpa using ha)
    subst hrv
    unfold qa
    by_cases hq : tm.any UT.truthyB = true
    · rw [if_pos hq]
      simp only [covers, arrVal, V.child]
      intro k
      rcases Cov3_lookup tm mv mv' hm 0 k with ⟨h1, h2, h3⟩ | ⟨t, v, v', h1, h2, h3, hcv⟩
      · simp only [h1, h2, h3, Option.getD, (Cov3_length tm mv mv' hm).2, covers]
      · simpa only [h1, h2, h3, Option.getD] using hcv
    · have : mv = mv' := Cov3_eq tm mv mv' hm (by simpa using hq)
      subst this
      rw [if_neg hq]
      simp [covers]

theorem arrTrees_snoc (U : UT) (τ : Temps) : ∀ (subs : ArrSubs) (p : Pas) (sub : PslList),
    arrTrees U τ (subs.snoc p sub) = arrTrees U τ subs ++ [entryT U τ p sub]
  | .nil, p, sub => by simp [ArrSubs.snoc, arrTrees, entryT]
  | .cons p' s' r, p, sub => by simp [ArrSubs.snoc, arrTrees, arrTrees_snoc U τ r p sub]

theorem arrTrees_isEmpty (U : UT) (τ : Temps) (subs : ArrSubs) : (arrTrees U τ subs).isEmpty = subs.isEmpty := by
  cases subs <;> simp [arrTrees, ArrSubs.isEmpty]

mutual
theorem analyze_sound (scopes : List ScopeInfo) (F : Ops) (U : UT) (τ : Temps) (D D' : Env)
    (hc : covers U D.data D'.data) (hsc : ScopesOk scopes τ D D') :
    ∀ (e : Expr) (n : Nat), TempsOk scopes F D' τ e n →
      (∀ l ∈ (analyze scopes e n).pc.toList, ¬(pathTree U τ l).truthy) →
      Related U τ (analyze scopes e n).pas (evalE F D e) (evalE F D' e)
  | .data x, n, _, _ => by
    simp only [analyze, Related, pathTree, descend, sliceTree, evalE]
    exact covers_Z hc x
  | .scope i, n, _, _ => by
    have h := hsc i
    simp only [analyze, evalE]
    by_cases hp : (scopeAt scopes i).lv = 3 ∨ (scopeAt scopes i).lv = 4 ∨ (scopeAt scopes i).tree.isSome = true
    · simp only [hp, if_true] at h ⊢
      simpa [Related, pathTree, descend, sliceTree] using h
    · simp only [hp, if_false] at h ⊢
      simpa [Related] using h
  | .obj fs, n, ht, _ => by
    have h := obj_sound scopes F U τ D D' hc hsc fs n (by simpa [TempsOk] using ht)
    have := obj_final _ _ _ h
    simpa [analyze, Related, pathTree, descend, sliceTree, evalE] using this
  | .arr fs, n, ht, _ => by
    have := arr_sound scopes F U τ D D' hc hsc fs n .nil .nil [] [] [] [] [] (by simpa [TempsOk] using ht)
      (by simp [arrTrees, Cov3]) (by simp [arrTrees, Cov3]) rfl
    simpa [analyze, Related, pathTree, descend, sliceTree, evalE] using this
  | .undef, _, _, _ => by simp [analyze, Related, evalE]
  | .null, _, _, _ => by simp [analyze, Related, evalE]
  | .str _, _, _, _ => by simp [analyze, Related, evalE]
  | .int _, _, _, _ => by simp [analyze, Related, evalE]
  | .float _, _, _, _ => by simp [analyze, Related, evalE]
  | .bool _, _, _, _ => by simp [analyze, Related, evalE]
  | .toStr e, n, ht, hno => by
    have he := analyze_sound scopes F U τ D D' hc hsc e n (by simpa [TempsOk] using ht)
      (fun l hl => hno l (by simp only [analyze, endPath_toList]; exact List.mem_append_left _ hl))
    have := unchanged_of_related he (fun l hl => hno l (by simpa [analyze] using hl))
    simp only [analyze, Related, evalE, this]
  | .smember o f, n, ht, hno => by
    have ho := analyze_sound scopes F U τ D D' hc hsc o n (by simpa [TempsOk] using ht)
      (fun l hl => hno l (by
        simp only [analyze]
        cases (analyze scopes o n).pas <;> simpa using hl))
    simp only [analyze, evalE]
    cases hp : (analyze scopes o n).pas with
    | notInPath =>
      rw [hp] at ho
      simp only [Related] at ho ⊢
      rw [ho]
    | inPath l =>
      rw [hp] at ho
      simp only [Related, pathTree] at ho ⊢
      rw [descend_snoc]
      exact covers_Z ho f
  | .dmember o f, n, ht, hno => by
    have ht' : τ.key (privName n) = (evalE F D' f).toKey ∧ TempsOk scopes F D' τ f (n + 1) ∧
        TempsOk scopes F D' τ o (analyze scopes f (n + 1)).next := by simpa [TempsOk] using ht
    have hpc : ∀ l, (l ∈ (endPath (analyze scopes f (n + 1)).pas (analyze scopes f (n + 1)).pc).toList ∨
        l ∈ (analyze scopes o (analyze scopes f (n + 1)).next).pc.toList) → ¬(pathTree U τ l).truthy := by
      intro l hl
      apply hno l
      simp only [analyze]
      cases (analyze scopes o (analyze scopes f (n + 1)).next).pas <;> simpa [toList_append] using hl
    have hf := analyze_sound scopes F U τ D D' hc hsc f (n + 1) ht'.2.1
      (fun l hl => hpc l (Or.inl (by rw [endPath_toList]; exact List.mem_append_left _ hl)))
    have hkey : evalE F D f = evalE F D' f := unchanged_of_related hf (fun l hl => hpc l (Or.inl hl))
    have ho := analyze_sound scopes F U τ D D' hc hsc o (analyze scopes f (n + 1)).next ht'.2.2
      (fun l hl => hpc l (Or.inr hl))
    simp only [analyze, evalE]
    cases hp : (analyze scopes o (analyze scopes f (n + 1)).next).pas with
    | notInPath =>
      rw [hp] at ho
      simp only [Related] at ho ⊢
      rw [ho, hkey]
    | inPath l =>
      rw [hp] at ho
      simp only [Related, pathTree] at ho ⊢
      rw [descend_snoc]
      simp only [sliceTree, ht'.1, hkey]
      exact covers_Z ho _
  | .call f args, n, ht, hno => by
    have ht' : TempsOk scopes F D' τ f n ∧ TempsOkList scopes F D' τ args (analyze scopes f n).next := by
      simpa [TempsOk] using ht
    have hpc : ∀ l, (l ∈ (endPath (analyze scopes f n).pas (analyze scopes f n).pc).toList ∨
        l ∈ (analyzeList scopes args (analyze scopes f n).next).pc.toList) → ¬(pathTree U τ l).truthy := by
      intro l hl
      apply hno l
      simpa [analyze, toList_append] using hl
    have hf := analyze_sound scopes F U τ D D' hc hsc f n ht'.1
      (fun l hl => hpc l (Or.inl (by rw [endPath_toList]; exact List.mem_append_left _ hl)))
    have hfe := unchanged_of_related hf (fun l hl => hpc l (Or.inl hl))
    have ha := list_sound scopes F U τ D D' hc hsc args (analyze scopes f n).next ht'.2 (fun l hl => hpc l (Or.inr hl))
    simp only [analyze, Related, evalE, hfe, ha]
  | .un op e, n, ht, hno => by
    have he := analyze_sound scopes F U τ D D' hc hsc e n (by simpa [TempsOk] using ht)
      (fun l hl => hno l (by simp only [analyze, endPath_toList]; exact List.mem_append_left _ hl))
    have := unchanged_of_related he (fun l hl => hno l (by simpa [analyze] using hl))
    simp only [analyze, Related, evalE, this]
  | .bin op x y, n, ht, hno => by
    by_cases hop : op = .NullishCoalescing
    · subst hop
      have ht' : TempsOk scopes F D' τ x (n + 1) ∧ TempsOk scopes F D' τ y (analyze scopes x (n + 1)).next := by
        simpa [TempsOk] using ht
      have hpc : ∀ l, (l ∈ (endPath (analyze scopes x (n + 1)).pas (analyze scopes x (n + 1)).pc).toList ∨
          l ∈ (endPath (analyze scopes y (analyze scopes x (n + 1)).next).pas
            (analyze scopes y (analyze scopes x (n + 1)).next).pc).toList) → ¬(pathTree U τ l).truthy := by
        intro l hl
        apply hno l
        simpa [analyze, toList_append] using hl
      have hx := analyze_sound scopes F U τ D D' hc hsc x (n + 1) ht'.1
        (fun l hl => hpc l (Or.inl (by rw [endPath_toList]; exact List.mem_append_left _ hl)))
      have hy := analyze_sound scopes F U τ D D' hc hsc y _ ht'.2
        (fun l hl => hpc l (Or.inr (by rw [endPath_toList]; exact List.mem_append_left _ hl)))
      have ex := unchanged_of_related hx (fun l hl => hpc l (Or.inl hl))
      have ey := unchanged_of_related hy (fun l hl => hpc l (Or.inr hl))
      simp only [analyze, if_true, Related, evalE, ex, ey]
    · have ht' : TempsOk scopes F D' τ x n ∧ TempsOk scopes F D' τ y (analyze scopes x n).next := by
        simpa [TempsOk, hop] using ht
      have hpc : ∀ l, (l ∈ (endPath (analyze scopes x n).pas (analyze scopes x n).pc).toList ∨
          l ∈ (endPath (analyze scopes y (analyze scopes x n).next).pas
            (analyze scopes y (analyze scopes x n).next).pc).toList) → ¬(pathTree U τ l).truthy := by
        intro l hl
        apply hno l
        simpa [analyze, hop, toList_append] using hl
      have hx := analyze_sound scopes F U τ D D' hc hsc x n ht'.1
        (fun l hl => hpc l (Or.inl (by rw [endPath_toList]; exact List.mem_append_left _ hl)))
      have hy := analyze_sound scopes F U τ D D' hc hsc y _ ht'.2
        (fun l hl => hpc l (Or.inr (by rw [endPath_toList]; exact List.mem_append_left _ hl)))
      have ex := unchanged_of_related hx (fun l hl => hpc l (Or.inl hl))
      have ey := unchanged_of_related hy (fun l hl => hpc l (Or.inr hl))
      simp only [analyze, hop, if_false, Related, evalE, ex, ey]
  | .cond c t f, n, ht, hno => by
    have ht' : τ.cond (privName n) = F.truthy (evalE F D' c) ∧ TempsOk scopes F D' τ c (n + 1) ∧
        TempsOk scopes F D' τ t (analyze scopes c (n + 1)).next ∧
        TempsOk scopes F D' τ f (analyze scopes t (analyze scopes c (n + 1)).next).next := by simpa [TempsOk] using ht
    -- the condition's paths are the recorded sub-paths: the condition is unchanged
    have hpc : ∀ l ∈ (endPath (analyze scopes c (n + 1)).pas (analyze scopes c (n + 1)).pc).toList, ¬(pathTree U τ l).truthy := by
      intro l hl
      apply hno l
      simpa [analyze] using hl
    have hcnd := analyze_sound scopes F U τ D D' hc hsc c (n + 1) ht'.2.1
      (fun l hl => hpc l (by rw [endPath_toList]; exact List.mem_append_left _ hl))
    have ec : evalE F D c = evalE F D' c := unchanged_of_related hcnd hpc
    simp only [analyze, Related, pathTree, descend, sliceTree, evalE, ht'.1, ec]
    by_cases hb : F.truthy (evalE F D' c) = true
    · simp only [hb, if_true]
      exact branch_covers (fun h => analyze_sound scopes F U τ D D' hc hsc t _ ht'.2.2.1 h)
    · simp only [hb]
      exact branch_covers (fun h => analyze_sound scopes F U τ D D' hc hsc f _ ht'.2.2.2 h)
theorem list_sound (scopes : List ScopeInfo) (F : Ops) (U : UT) (τ : Temps) (D D' : Env)
    (hc : covers U D.data D'.data) (hsc : ScopesOk scopes τ D D') :
    ∀ (args : Exprs) (n : Nat), TempsOkList scopes F D' τ args n →
      (∀ l ∈ (analyzeList scopes args n).pc.toList, ¬(pathTree U τ l).truthy) →
      evalList F D args = evalList F D' args
  | .nil, _, _, _ => rfl
  | .cons e r, n, ht, hno => by
    have ht' : TempsOk scopes F D' τ e n ∧ TempsOkList scopes F D' τ r (analyze scopes e n).next := by
      simpa [TempsOkList] using ht
    have hpc : ∀ l, (l ∈ (endPath (analyze scopes e n).pas (analyze scopes e n).pc).toList ∨
        l ∈ (analyzeList scopes r (analyze scopes e n).next).pc.toList) → ¬(pathTree U τ l).truthy := by
      intro l hl
      apply hno l
      simpa [analyzeList, toList_append] using hl
    have he := analyze_sound scopes F U τ D D' hc hsc e n ht'.1
      (fun l hl => hpc l (Or.inl (by rw [endPath_toList]; exact List.mem_append_left _ hl)))
    have ee := unchanged_of_related he (fun l hl => hpc l (Or.inl hl))
    have er := list_sound scopes F U τ D D' hc hsc r _ ht'.2 (fun l hl => hpc l (Or.inr hl))
    simp only [evalList, ee, er]
theorem obj_sound (scopes : List ScopeInfo) (F : Ops) (U : UT) (τ : Temps) (D D' : Env)
    (hc : covers U D.data D'.data) (hsc : ScopesOk scopes τ D D') :
    ∀ (fs : ObjFields) (n : Nat), TempsOkObj scopes F D' τ fs n →
      Cov3o (objEntries U τ (analyzeObj scopes fs n).subs) (objVals F D fs) (objVals F D' fs)
  | .nil, _, _ => by simp [analyzeObj, objEntries, objVals, Cov3o]
  | .named k _ v r, n, ht => by
    have ht' : TempsOk scopes F D' τ v n ∧ TempsOkObj scopes F D' τ r (analyze scopes v n).next := by
      simpa [TempsOkObj] using ht
    have hv : covers (entryT U τ (analyze scopes v n).pas (analyze scopes v n).pc) (evalE F D v) (evalE F D' v) :=
      entry_covers (fun h => analyze_sound scopes F U τ D D' hc hsc v n ht'.1 h)
    have hr := obj_sound scopes F U τ D D' hc hsc r _ ht'.2
    simp only [analyzeObj, objEntries, objVals, Cov3o]
    exact ⟨trivial, trivial, by simpa [entryT] using hv, hr⟩
  | .spread v r, n, ht => by
    have ht' : TempsOk scopes F D' τ v n ∧ TempsOkObj scopes F D' τ r (analyze scopes v n).next := by
      simpa [TempsOkObj] using ht
    have hv : covers (entryT U τ (analyze scopes v n).pas (analyze scopes v n).pc) (evalE F D v) (evalE F D' v) :=
      entry_covers (fun h => analyze_sound scopes F U τ D D' hc hsc v n ht'.1 h)
    have hr := obj_sound scopes F U τ D D' hc hsc r _ ht'.2
    simp only [analyzeObj, objEntries, objVals, Cov3o]
    exact ⟨trivial, trivial, by simpa [entryT] using hv, hr⟩
theorem arr_sound (scopes : List ScopeInfo) (F : Ops) (U : UT) (τ : Temps) (D D' : Env)
    (hc : covers U D.data D'.data) (hsc : ScopesOk scopes τ D D') :
    ∀ (fs : ArrFields) (n : Nat) (main spread : ArrSubs) (mv mv' : List V) (flags : List Bool) (rv rv' : List V),
      TempsOkArr scopes F D' τ fs n → Cov3 (arrTrees U τ main) mv mv' → Cov3 (arrTrees U τ spread) rv rv' →
      flags.length = rv.length →
      covers (if (arrTrees U τ (analyzeArr scopes fs n main spread).spread).any UT.truthyB then .all
              else qa (arrTrees U τ (analyzeArr scopes fs n main spread).main))
        (evalArr F D fs mv flags rv) (evalArr F D' fs mv' flags rv')
  | .nil, n, main, spread, mv, mv', flags, rv, rv', _, hm, hr, _ => by
    simpa [analyzeArr, evalArr] using arr_final F _ _ mv mv' rv rv' flags hm hr
  | .item v r, n, main, spread, mv, mv', flags, rv, rv', ht, hm, hr, hl => by
    have ht' : TempsOk scopes F D' τ v n ∧ TempsOkArr scopes F D' τ r (analyze scopes v n).next := by
      simpa [TempsOkArr] using ht
    have hv : covers (entryT U τ (analyze scopes v n).pas (analyze scopes v n).pc) (evalE F D v) (evalE F D' v) :=
      entry_covers (fun h => analyze_sound scopes F U τ D D' hc hsc v n ht'.1 h)
    have hemp : spread.isEmpty = flags.isEmpty := by
      rw [← arrTrees_isEmpty U τ spread]
      have := (Cov3_length _ _ _ hr).1
      cases hx : arrTrees U τ spread <;> cases flags <;> cases rv <;> simp_all
    by_cases he : flags.isEmpty = true
    · have hs : spread.isEmpty = true := by rw [hemp]; exact he
      simp only [analyzeArr, evalArr, hs, he, if_true]
      exact arr_sound scopes F U τ D D' hc hsc r _ _ _ _ _ _ _ _ ht'.2
        (by rw [arrTrees_snoc]; exact Cov3_snoc _ _ _ _ _ _ hm hv) hr hl
    · have hs : spread.isEmpty = false := by rw [hemp]; simpa using he
      simp only [analyzeArr, evalArr, hs, he, if_false, Bool.false_eq_true]
      exact arr_sound scopes F U τ D D' hc hsc r _ _ _ _ _ _ _ _ ht'.2 hm
        (by rw [arrTrees_snoc]; exact Cov3_snoc _ _ _ _ _ _ hr hv) (by simp [hl])
  | .spread v r, n, main, spread, mv, mv', flags, rv, rv', ht, hm, hr, hl => by
    have ht' : TempsOk scopes F D' τ v n ∧ TempsOkArr scopes F D' τ r (analyze scopes v n).next := by
      simpa [TempsOkArr] using ht
    have hv : covers (entryT U τ (analyze scopes v n).pas (analyze scopes v n).pc) (evalE F D v) (evalE F D' v) :=
      entry_covers (fun h => analyze_sound scopes F U τ D D' hc hsc v n ht'.1 h)
    simp only [analyzeArr, evalArr]
    exact arr_sound scopes F U τ D D' hc hsc r _ _ _ _ _ _ _ _ ht'.2 hm
      (by rw [arrTrees_snoc]; exact Cov3_snoc _ _ _ _ _ _ hr hv) (by simp [hl])
  | .hole r, n, main, spread, mv, mv', flags, rv, rv', ht, hm, hr, hl => by
    have ht' : TempsOkArr scopes F D' τ r n := by simpa [TempsOkArr] using ht
    have hv : covers (entryT U τ .notInPath .nil) V.absent V.absent := covers_refl _ _
    have hemp : spread.isEmpty = flags.isEmpty := by
      rw [← arrTrees_isEmpty U τ spread]
      have := (Cov3_length _ _ _ hr).1
      cases hx : arrTrees U τ spread <;> cases flags <;> cases rv <;> simp_all
    by_cases he : flags.isEmpty = true
    · have hs : spread.isEmpty = true := by rw [hemp]; exact he
      simp only [analyzeArr, evalArr, hs, he, if_true]
      exact arr_sound scopes F U τ D D' hc hsc r _ _ _ _ _ _ _ _ ht'
        (by rw [arrTrees_snoc]; exact Cov3_snoc _ _ _ _ _ _ hm hv) hr hl
    · have hs : spread.isEmpty = false := by rw [hemp]; simpa using he
      simp only [analyzeArr, evalArr, hs, he, if_false, Bool.false_eq_true]
      exact arr_sound scopes F U τ D D' hc hsc r _ _ _ _ _ _ _ _ ht' hm
        (by rw [arrTrees_snoc]; exact Cov3_snoc _ _ _ _ _ _ hr hv) (by simp [hl])
end

/-- **C06, guard soundness.** If the update-path tree covers the difference between the old and the new
data (and the scope trees cover the scope variables' changes) and none of the guard's operands is truthy,
the binding expression has the same value before and after: not re-evaluating it is correct. -/
theorem guard_sound (scopes : List ScopeInfo) (F : Ops) (U : UT) (τ : Temps) (D D' : Env)
    (hc : covers U D.data D'.data) (hsc : ScopesOk scopes τ D D')
    (e : Expr) (ht : TempsOk scopes F D' τ e 0)
    (hg : ¬ guardOn U τ (prepareAnalysis scopes e)) : evalE F D e = evalE F D' e := by
  have hall : ∀ l ∈ (endPath (analyze scopes e 0).pas (analyze scopes e 0).pc).toList, ¬(pathTree U τ l).truthy :=
    fun l hl ht' => hg ⟨l, hl, ht'⟩
  have hrel := analyze_sound scopes F U τ D D' hc hsc e 0 ht
    (fun l hl => hall l (by rw [endPath_toList]; exact List.mem_append_left _ hl))
  exact unchanged_of_related hrel hall

/-! non-vacuity: `a.b[c]` with the tree `{c: true}` (only `c` changed): the guard is on -/
example : guardOn (.node fun k => if k = "c" then .all else .absent) ⟨fun _ => "1", fun _ => true, fun _ => .none⟩
    (prepareAnalysis [] (.dmember (.smember (.data "a") "b") (.data "c"))) := by
  refine ⟨.cons (.ident "c") .nil, ?_, ?_⟩
  · simp [guardPaths, prepareAnalysis, analyze, endPath, PslList.append, PslList.toList]
  · simp [pathTree, descend, sliceTree, Z, UT.child, UT.norm, UT.truthy, UT.truthyB]

/-! non-vacuity of the premise: the tree the framework builds for the path write `o.a.c = 1` on `o = {}` -/
example : covers (.node fun k => if k = "o" then .node (fun k => if k = "a" then .node (fun k => if k = "c" then .all else .absent) else .absent) else .absent)
    (.obj fun k => if k = "o" then .obj (fun _ => .absent) else .absent)
    (.obj fun k => if k = "o" then .obj (fun k => if k = "a" then .obj (fun k => if k = "c" then .atom 1 else .absent) else .absent) else .absent) := by
  simp only [covers, V.child]
  intro k
  by_cases h : k = "o"
  · simp only [h, if_true, covers, V.child]
    intro k
    by_cases h : k = "a"
    · simp only [h, if_true, covers, V.child]
      intro k
      by_cases h : k = "c" <;> simp [h, covers]
    · simp [h, covers]
  · simp [h, covers]

/-! ## the helpers this file models are the ones the generator emits

`GE.Extracted.RuntimeHelpers` is regenerated from `group.rs` on every run.  `Z`, `qa`, `qb`, `objG` (the
`Q.c` case) and `V.get` (`X(o)[k]`) above are the tree / value readings of exactly these texts. -/

theorem helpers_as_modelled :
    GE.Extracted.runtimeItems =
      [("X", "function(a){return a==null?Object.create(null):a}"),
       ("Y", "function(a){return a==null?'':String(a)}"),
       ("Z", "function(a,b){if(a===true)return true;if(a)return a[b]}"),
       ("P", "function(a){return typeof a==='function'?a:()=>{}}")] ∧
    GE.Extracted.extraRuntimeItems =
      [("a", "function(a){for(var i=0;i<a.length;i++)if(a[i])return a}"),
       ("b", "function(b){var a=Object.values(b);for(var i=0;i<a.length;i++)if(a[i])return b}"),
       ("c", "function(a){var b={};for(var k in a)b[k]=true;return b}")] := ⟨rfl, rfl⟩

end GE.PA.Guard
