//! `tag_tree` op: the structure of a parsed template in the text form of `GE.TagTree.AS.show` (lean/GE/Model/TagTree.lean),
//! and the text the real printer writes for it.  Payloads: an ordinary element is `tag#id`, a leaf `include#src` / `template#is`,
//! a `slot:` reference `name=value`; values and texts are given as the printer writes them.
use glass_easel_template_compiler as tc;
use serde_json::json;
use tc::parse::tag::{CommonElementAttributes, Element, ElementKind, Node, StaticAttribute, Value};
use tc::stringify::Stringify;

fn printed(v: &Value, src: &str) -> String {
    let mut s = tc::stringify::Stringifier::new(String::new(), "p", src);
    v.stringify_write(&mut s).expect("stringify failed");
    s.finish().0
}

fn q(s: &str) -> String {
    format!("\"{}\"", s)
}

fn refs(rs: &[StaticAttribute]) -> String {
    let v: Vec<String> = rs.iter().map(|a| q(&format!("{}={}", a.name.name, a.value.name))).collect();
    format!("[{}]", v.join(" "))
}

fn id_of(c: &CommonElementAttributes, src: &str) -> String {
    c.id.as_ref().map(|x| printed(&x.1, src)).unwrap_or_default()
}

fn nodes(ns: &[Node], src: &str, out: &mut String) {
    for n in ns {
        out.push(' ');
        node(n, src, out);
    }
}

fn node(n: &Node, src: &str, out: &mut String) {
    match n {
        Node::Text(v) => out.push_str(&format!("(text {})", q(&printed(v, src)))),
        Node::Comment(..) => out.push_str("(comment)"),
        Node::Element(e) => element(e, src, out),
        _ => out.push_str("(other)"),
    }
}

fn element(e: &Element, src: &str, out: &mut String) {
    match &e.kind {
        ElementKind::Normal { tag_name, children, common, .. } => {
            out.push_str(&format!("(normal {} {}", q(&format!("{}#{}", tag_name.name, id_of(common, src))), refs(&common.slot_value_refs)));
            nodes(children, src, out);
            out.push(')');
        }
        ElementKind::Pure { children, slot, slot_value_refs, .. } => {
            let s = slot.as_ref().map(|x| q(&printed(&x.1, src))).unwrap_or("-".to_string());
            out.push_str(&format!("(pure {} {}", s, refs(slot_value_refs)));
            nodes(children, src, out);
            out.push(')');
        }
        ElementKind::For { list, item_name, index_name, key, children, .. } => {
            out.push_str(&format!(
                "(for {} {} {} {}",
                q(&printed(&list.1, src)),
                q(&item_name.1.name),
                q(&index_name.1.name),
                q(&key.1.name)
            ));
            nodes(children, src, out);
            out.push(')');
        }
        ElementKind::If { branches, else_branch, .. } => {
            out.push_str("(if");
            for (_, v, ch) in branches.iter() {
                out.push_str(&format!(" ({}", q(&printed(v, src))));
                nodes(ch, src, out);
                out.push(')');
            }
            if let Some((_, ch)) = else_branch.as_ref() {
                out.push_str(" (else");
                nodes(ch, src, out);
                out.push(')');
            }
            out.push(')');
        }
        ElementKind::TemplateRef { target, .. } => {
            out.push_str(&format!("(leaf {})", q(&format!("template#{}", printed(&target.1, src)))));
        }
        ElementKind::Include { path, .. } => {
            out.push_str(&format!("(leaf {})", q(&format!("include#{}", path.1.name))));
        }
        ElementKind::Slot { name, common, .. } => {
            out.push_str(&format!("(slot {} {})", q(&printed(&name.1, src)), refs(&common.slot_value_refs)));
        }
        #[allow(unreachable_patterns)]
        _ => out.push_str("(other)"),
    }
}

/// `tag_tree<TAB>source`
pub fn tag_tree(src: &str) -> String {
    let (template, _ps) = tc::parse::parse("p", src);
    let mut ast = String::new();
    nodes(&template.content, src, &mut ast);
    let mut s = tc::stringify::Stringifier::new(String::new(), "p", src);
    template.stringify_write(&mut s).expect("stringify failed");
    let out = s.finish().0;
    let deps: Vec<String> = template.direct_dependencies().collect();
    json!({"ast": ast, "printed": out, "deps": deps}).to_string()
}
