import GE.Model.Expr
/-! Printing the model AST back in the harness's S-expression dump format (for comparisons). -/
namespace GE
open Codec

def qstr (s : String) : String :=
  "\"" ++ String.ofList (s.toList.flatMap fun c =>
    if c = '"' then ['\\', '"'] else escChars [c]) ++ "\""

mutual
def Expr.toSExp : Expr → String
  | .scope i => s!"(scope {i})"
  | .data n => s!"(data {qstr n})"
  | .toStr e => s!"(tostr {e.toSExp})"
  | .undef => "(undef)"
  | .null => "(null)"
  | .str s => s!"(str {qstr s})"
  | .int v => s!"(int {v})"
  | .float t => s!"(float {qstr t})"
  | .bool b => s!"(bool {b})"
  | .obj fs => "(obj" ++ fs.toSExp ++ ")"
  | .arr fs => "(arr" ++ fs.toSExp ++ ")"
  | .smember o n => s!"(smember {o.toSExp} {qstr n})"
  | .dmember o f => s!"(dmember {o.toSExp} {f.toSExp})"
  | .call f args => s!"(call {f.toSExp}" ++ args.toSExp ++ ")"
  | .un op e => s!"(un {op.name} {e.toSExp})"
  | .bin op l r => s!"(bin {op.name} {l.toSExp} {r.toSExp})"
  | .cond c t f => s!"(cond {c.toSExp} {t.toSExp} {f.toSExp})"
def Exprs.toSExp : Exprs → String
  | .nil => ""
  | .cons e r => " " ++ e.toSExp ++ r.toSExp
def ObjFields.toSExp : ObjFields → String
  | .nil => ""
  | .named n s v r => s!" (named {qstr n} {if s then "short" else "colon"} {v.toSExp})" ++ r.toSExp
  | .spread v r => s!" (spread {v.toSExp})" ++ r.toSExp
def ArrFields.toSExp : ArrFields → String
  | .nil => ""
  | .item v r => s!" (item {v.toSExp})" ++ r.toSExp
  | .spread v r => s!" (spread {v.toSExp})" ++ r.toSExp
  | .hole r => " (hole)" ++ r.toSExp
end

end GE
