"""C15 — diagnostics: clean input is clean, broken input flagged, locations valid (DESIGN.md §9 C15)."""
import json, re
from . import core, tmplgen as tg, mutate

THEOREMS = [
    "GE.C15.levels_as_documented",
    "GE.C15.structural_defects_reach_documented_level",
    "GE.C15.prevent_success_iff",
    "GE.C15.codes_are_consecutive",
    "GE.C15.position_shapes",
    "GE.C15.try_parse_restores",
    "GE.C15.prefix_position_inside",
    "GE.Pos.skipBytes_eq_advance",
    "GE.Pos.advance_spec",
]
NOTE, WARN, ERROR, FATAL = 1, 2, 3, 4
KINDS = ["UnexpectedCharacter", "UnexpectedExpressionCharacter", "UnknownMetaTag", "MissingExpressionEnd", "IllegalEntity", "IncompleteTag",
         "MissingEndTag", "IllegalNamePrefix", "InvalidAttributePrefix", "InvalidAttributeName", "InvalidAttributeValue", "InvalidAttribute",
         "DuplicatedAttribute", "DuplicatedName", "AvoidUppercaseLetters", "UnexpectedWhitespace", "MissingAttributeValue",
         "DataBindingNotAllowed", "InvalidIdentifier", "InvalidScopeName", "ChildNodesNotAllowed", "IllegalEscapeSequence",
         "IncompleteConditionExpression", "UnmatchedBracket", "UnmatchedParenthesis", "MissingModuleName", "MissingSourcePath",
         "UnsupportedSyntax", "ShouldQuoted", "EmptyExpression", "InvalidEndTag"]


def kind_name(code):
    i = code - 0x10001
    return KINDS[i] if 0 <= i < len(KINDS) else "code%x" % code


def utf16_len(s):
    return len(s.encode("utf-16-le")) // 2


def location_problem(src, w):
    """w = [path, code, level, sl, sc, el, ec, msg]; None if the location lies inside the source"""
    lines = src.split("\n")
    sl, sc, el, ec = w[3], w[4], w[5], w[6]
    if (sl, sc) > (el, ec):
        return "start after end"
    for (l, c) in ((sl, sc), (el, ec)):
        if l >= len(lines):
            return f"line {l} does not exist ({len(lines)} lines)"
        if c > utf16_len(lines[l]):
            return f"column {c} beyond the end of line {l} (length {utf16_len(lines[l])})"
        # the column must fall on a character boundary (not inside a surrogate pair)
        u = 0
        ok = c == 0
        for ch in lines[l]:
            u += 2 if ord(ch) > 0xFFFF else 1
            if u == c:
                ok = True
                break
            if u > c:
                break
        if not ok and c != 0:
            return f"column {c} of line {l} is inside a surrogate pair"
    return None


# ---------------------------------------------------------------------------------------------------------
# single-defect injections on well-formed text: (name, f(src, rng) -> mutated | None, acceptable kinds, least level)
def _comment_spans(src):
    return [(m.start(), m.end()) for m in re.finditer(r"<!--.*?-->", src, re.S)]


def _outside_comments(src, ms):
    spans = _comment_spans(src)
    return [m for m in ms if not any(a <= m.start() < b for a, b in spans)]


def _start_tags(src):
    # (a <block> takes no ordinary attributes: it is not a target for attribute injections)
    return _outside_comments(src, [m for m in re.finditer(r"<(view|text|v|cmp-x)(?=[\s/>])", src)])


def inj_missing_end(src, rng):
    ms = _outside_comments(src, [m for m in re.finditer(r"</(view|text|v|cmp-x|block)>", src)])
    if not ms:
        return None
    m = ms[rng.below(len(ms))]
    return src[:m.start()] + src[m.end():]


def inj_unterminated_tag(src, rng):
    ms = _start_tags(src)
    if not ms:
        return None
    m = ms[rng.below(len(ms))]
    return src[:m.end()] + rng.choice(["", " a", " a=", " a=\"x"])


def inj_unterminated_binding(src, rng):
    ms = _outside_comments(src, [m for m in re.finditer(r"\}\}", src)])
    if not ms:
        return None
    m = ms[rng.below(len(ms))]
    # everything after the binding start is swallowed: cut the text right after the expression so that no later `}}` closes it
    return src[:m.start()]


def inj_binding_garbage(src, rng):
    ms = _outside_comments(src, [m for m in re.finditer(r"\}\}", src)])
    if not ms:
        return None
    m = ms[rng.below(len(ms))]
    return src[:m.start()] + rng.choice([" ) ", " a b ", " ] ", " # ", " 1 2 "]) + src[m.start():]


LAST_LINE = [None]     # line on which the last attribute injection was made (the diagnostic must be there)


def _insert_attr(src, rng, text):
    ms = _start_tags(src)
    if not ms:
        return None
    m = ms[rng.below(len(ms))]
    LAST_LINE[0] = src[:m.end()].count("\n")
    return src[:m.end()] + " " + text + src[m.end():]


def inj_unknown_wx(src, rng):
    return _insert_attr(src, rng, rng.choice(['wx:foo="1"', 'wx:iff="{{a}}"', 'wx:for-items="{{a}}"']))


def inj_unknown_prefix(src, rng):
    return _insert_attr(src, rng, rng.choice(['foo:bar="1"', 'binds:tap="h"', 'x:y="{{a}}"']))


def inj_duplicate_attr(src, rng):
    a = rng.choice(['zq="1" zq="2"', 'data-zq="1" data-zq="2"', 'mark:zq="1" mark:zq="2"', 'zq="1" zq'])
    return _insert_attr(src, rng, a)


def inj_duplicate_src(src, rng):
    # the source attribute of <include> / <import> / <wxs>, also when its first occurrence is empty or has no value
    return src + rng.choice(['<include src="a" src="b"/>', '<include src="" src="b.wxml"/>', '<import src src="b"/>', '<wxs module="zm" src="" src="./m.wxs"/>',
                             '<import src="a" src=""/>', '<wxs module="zm" src="./m" src="./n"/>', '<include src=".wxml" src="b"/>'])


def inj_children_childless(src, rng):
    return src + rng.choice(['<include src="a">x</include>', '<import src="a"><view/></import>', '<wxs module="zm" src="a">exports.a=1</wxs>',
                             '<include src="a"><!-- c --><view/></include>', '<slot><!-- c -->text</slot>', '<import src="b"><!-- c --><view/></import>',
                             '<template is="t"><!-- c -->x<view/></template>', '<slot><view/><!-- c --></slot>'])


def inj_missing_required(src, rng):
    return src + rng.choice(['<include/>', '<import/>', '<wxs src="a"/>', '<wxs>exports.a=1</wxs>', '<include src=""/>'])


def inj_binding_in_static_attr(src, rng):
    """a binding in an attribute that takes static text only, behind text whose UTF-8, UTF-16 and character counts all differ, also on a later line of
    the value (round 11, C15-12: the location of the diagnostic is computed from the place of the binding)"""
    pre = rng.choice(["中文键", "\U0001F600\U0001F600\U0001F600", "é", "a\n\U0001F600b", "中\n\n文", "x", ""])
    return src + rng.choice(['<v wx:for="{{l}}" wx:key="%s{{i}}"/>', '<c generic:item="%s{{g}}"/>', '<include src="%s{{s}}"/>', '<template name="%s{{n}}">x</template>',
                             '<wxs module="zq" src="%s{{s}}"/>', '<import src="%s{{s}}"/>', '<v worklet:w="%s{{f}}"/>', '<v wx:if="{{a}}"/><v wx:else="%s{{b}}"/>']) % pre


INJECTIONS = [
    ("binding in a static-only attribute", inj_binding_in_static_attr, {"DataBindingNotAllowed", "InvalidAttributeValue", "InvalidAttribute", "InvalidIdentifier", "InvalidScopeName"}, NOTE),
    ("missing end tag", inj_missing_end, {"MissingEndTag", "InvalidEndTag"}, WARN),
    ("unterminated tag", inj_unterminated_tag, {"IncompleteTag", "MissingEndTag", "UnexpectedCharacter"}, ERROR),
    ("unterminated {{", inj_unterminated_binding, {"MissingExpressionEnd", "IncompleteTag", "UnexpectedExpressionCharacter", "EmptyExpression"}, WARN),
    ("trailing garbage in a binding", inj_binding_garbage, {"UnexpectedExpressionCharacter", "MissingExpressionEnd", "UnmatchedParenthesis", "UnmatchedBracket"}, ERROR),
    ("unknown wx: directive", inj_unknown_wx, {"InvalidAttributeName", "InvalidAttribute", "InvalidAttributePrefix"}, WARN),
    ("unknown attribute prefix", inj_unknown_prefix, {"InvalidAttributePrefix", "InvalidAttributeName", "InvalidAttribute"}, WARN),
    ("duplicated attribute", inj_duplicate_attr, {"DuplicatedAttribute", "DuplicatedName"}, WARN),
    ("duplicated src", inj_duplicate_src, {"DuplicatedAttribute", "DuplicatedName"}, WARN),
    ("children under a childless element", inj_children_childless, {"ChildNodesNotAllowed"}, ERROR),
    ("missing src / module", inj_missing_required, {"MissingSourcePath", "MissingModuleName", "InvalidAttributeValue"}, ERROR),
]


def run(chk):
    quick = chk.tier != "thorough"
    chk.rule = ("(1) generated well-formed templates (every element kind and attribute family, script modules, slot values, varied concrete syntax): no "
                "diagnostic at Warn or above; (2) the same templates with ONE structural defect injected (9 defect classes): at least one diagnostic of an "
                "expected kind at or above the documented level; (3) every diagnostic of every input (clean, injected, mutated, raw): start <= end, on an "
                "existing line, at a UTF-16 column inside that line and on a character boundary")
    chk.trusted = ["Lean 4.33 kernel", "axioms ⊆ {propext, Classical.choice, Quot.sound}", "extractor of the level table and of the position-update code shapes",
                   "the documented level table written in GE/Thm/C15.lean", "the defect injectors of checklib/c15.py (each defect is produced textually on well-formed text)"]
    chk.assumptions = ["PARTIAL: proved = the level table equals the documented one and gives every structural defect kind at least its documented level; "
                       "all position bookkeeping paths compute the position of a source prefix (so recorded positions lie inside the source). That every "
                       "recovery point actually calls add_warning, and with a location spanning the offending text, is established by the injections only"]
    chk.model_tie([("GE.Thm.C15", THEOREMS)])
    rng = chk.rng.fork("c15")
    n = 500 if quick else 10000
    srcs = []
    for i in range(n):
        r = rng.fork(("t", i))
        g = tg.TmplGen(r, max_depth=3)
        body = tg.Printer(r.fork("p"), vary=(i % 2 == 1)).template(g.template())
        # lines ending in something that starts like an entity (a bare `&` is plain text): position bookkeeping must survive them
        srcs.append(r.choice(["", "", "R&D\nAT&T\n", "a &\nb\n", "x &\n😀&\n\n"]) + body)
    # well-formed expressions in minimal spelling: every operator pair x operand position (nested conditionals in either branch without
    # parentheses, unary chains, member / call chains), as attribute value, text and directive
    from . import exprgen as eg
    shapes = ["a ? b ? 1 : 2 : 3", "a ? b : c ? 1 : 2", "a ? b ? c ? 1 : 2 : 3 : 4", "on ? big ? 'on big' : 'on' : ''", "a ?? b ? c : d", "a ? b ?? c : d",
              "a || b ? c && d : e | f", "- -a", "a - -b", "typeof typeof a", "!a ? !b : !c", "a[b ? c : d]", "f(a ? b : c, d)", "{k: a ? b : c}.k", "[a ? b : c][0]"]
    for t_ in eg.enum_depth2()[:: (7 if quick else 1)]:
        try:
            e_ = eg.src(tg.requote(t_, "'"), "min")
        except Exception:
            continue
        if '"' not in e_:
            shapes.append(e_)
    for j in range(0, len(shapes), 6):
        srcs.append("".join('<v title="{{ %s }}" wx:if="{{ %s }}">{{ %s }}</v>' % (e_, e_, e_) for e_ in shapes[j:j + 6]))
    # every template whitespace character (incl. vertical tab and form feed) between siblings, between the branches of a wx:if chain and as
    # the only content of elements that take no children
    for ws in ("\x0b", "\x0c", " \x0b\n", "\t\x0c\r\n", "\n"):
        srcs.append('<view wx:if="{{a}}">x</view>%s<view wx:elif="{{b}}">y</view>%s<view wx:else>z</view>%s<slot name="s">%s</slot>%s<include src="./inc">%s</include>' % (ws, ws, ws, ws, ws, ws))
        srcs.append('<block wx:for="{{l}}">%s<v%sid="i"%s/>%s</block>%s<import src="./lib">%s</import><template is="t">%s</template>' % (ws, ws, ws, ws, ws, ws, ws))
    inputs = [("clean", None, s) for s in srcs]
    for i, s in enumerate(srcs):
        r = rng.fork(("inj", i))
        for name, f, kinds, level in INJECTIONS:
            if r.chance(1, 2) or quick is False:
                LAST_LINE[0] = None
                m = f(s, r)
                if m is not None and m != s:
                    inputs.append(("inject", (name, kinds, level, LAST_LINE[0]), m))
    for i in range(300 if quick else 6000):
        r = rng.fork(("fz", i))
        inputs.append(("fuzz", None, mutate.mutate(r, srcs[r.below(len(srcs))]) if i % 3 else mutate.raw(r, 60)))
    answers = core.run_harness([core.req("group", json.dumps({"files": [["p", s]]})) for _, _, s in inputs], timeout=3600)
    nclean = ninj = nloc = 0
    per_class = {}
    for (kind, meta, s), a in zip(inputs, answers):
        if a.startswith("PANIC"):
            chk.violation("input", f"compiler panicked: {a[:200]}", template=s[:2000])
            continue
        ws = json.loads(a)["warnings"]
        for w in ws:
            p = location_problem(s, w)
            if p is not None:
                nloc += 1
                if nloc <= 4:
                    chk.violation("input", f"diagnostic {kind_name(w[1])} has an invalid location {w[3]}:{w[4]}-{w[5]}:{w[6]}: {p}", template=s[:3000], diagnostic=w)
        if kind == "clean":
            chk.case(("clean", s), nontrivial=True)
            bad = [w for w in ws if w[2] >= WARN]
            if bad:
                nclean += 1
                if nclean <= 4:
                    chk.violation("input", f"well-formed template gets {kind_name(bad[0][1])} (level {bad[0][2]}) at {bad[0][3]}:{bad[0][4]}: {bad[0][7]}",
                                  template=s[:3000], diagnostic=bad[0])
        elif kind == "inject":
            name, kinds, level, line = meta
            chk.case(("inject", name, s), nontrivial=True)
            per_class[name] = per_class.get(name, 0) + 1
            hit = [w for w in ws if kind_name(w[1]) in kinds and w[2] >= level]
            if hit and line is not None and not any(w[3] == line for w in hit):
                ninj += 1
                if ninj <= 6:
                    chk.violation("input", f"defect '{name}' was injected on line {line} but is reported on line {hit[0][3]}", template=s[:3000], defect=name, diagnostic=hit[0])
            if not hit:
                ninj += 1
                if ninj <= 6:
                    chk.violation("input", f"defect '{name}' is not flagged: diagnostics {[(kind_name(w[1]), w[2]) for w in ws][:6]}, expected one of {sorted(kinds)} at level >= {level}",
                                  template=s[:3000], defect=name)
        else:
            chk.case(("fuzz", s), nontrivial=len(ws) > 0)
    chk.programs = len(inputs)
    chk.bump("oracle:clean", len(srcs))
    for k, v in per_class.items():
        chk.bump("oracle:inject:" + k, v)
    chk.bump("oracle:bad-locations", nloc)


def replay(chk, path):
    o = json.load(open(path))["first"]
    if "template" in o:
        a = json.loads(core.run_harness([core.req("group", json.dumps({"files": [["p", o["template"]]]}))])[0])
        for w in a["warnings"]:
            print(kind_name(w[1]), w)
    return chk.finish()
