"""Malformed-input streams: mutations of well-formed text and raw strings over a skewed alphabet."""

SPECIALS = ["<", ">", "</", "/>", "{{", "}}", "&", "&#", "&#x", "&amp", ";", "\"", "'", "=", ":", "wx:", "wx:if", "wx:for", " ", "\n", "\t",
            " ", " ", "　", "\u0085", "\0", "\\", "?", "??", "?.", "...", "[", "]", "(", ")", "{", "}", "0x", "0xg", "1e", "1e999",
            "99999999999999999999", "0777777777777777777777", "/*", "*/", "<!--", "-->", "<!", "<wxs", "</wxs", "<template", "<slot", "<block",
            "<include", "<import", "slot:", "model:", "bind:", "data-", "\U0001F600", "é", "首页", "日本", "ab页面", "𝒳", "﻿", "​", "`", "$", "_", "-", ".", ","]


def mutate(rng, s, n=None):
    n = n if n is not None else 1 + rng.below(4)
    for _ in range(n):
        c = rng.below(8)
        L = len(s)
        i = rng.below(L + 1)
        j = min(L, i + rng.below(12))
        if c == 0:
            s = s[:i] + s[j:]
        elif c == 1:
            s = s[:i] + rng.choice(SPECIALS) + s[i:]
        elif c == 2:
            s = s[:i] + s[i:j] + s[i:j] + s[j:]
        elif c == 3 and L > 2:
            k = rng.below(L + 1)
            a, b = min(i, k), max(i, k)
            s = s[:a] + s[b:b + 5] + s[a:b] + s[b + 5:]
        elif c == 4:
            s = s[:i] + rng.choice(SPECIALS) + s[j:]
        elif c == 5:
            s = s[:i]
        elif c == 6:
            s = s[:i] + chr(rng.choice([0, 9, 0x7f, 0x85, 0xa0, 0x2028, 0x3000, 0xfeff, 0x10000, 0x10ffff, rng.below(0xd800)])) + s[i:]
        else:
            s = s[:i] + rng.choice(SPECIALS) * (1 + rng.below(4)) + s[i:]
    return s


def raw(rng, maxlen=40):
    return "".join(rng.choice(SPECIALS + ["a", "b", "view", "x=\"1\"", "{{a}}", "{{ a ? b : c }}"]) for _ in range(rng.below(maxlen)))
