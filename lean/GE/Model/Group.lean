/-!
Model of how `TmplGroup` / `BindingMapCollector` order what they emit: the entries live in ordered
maps (`BTreeMap<String, _>`), so emission walks them in ascending key order — byte-wise
lexicographic order of the UTF-8 keys, which coincides with lexicographic order of code points.
-/
namespace GE.Group

/-- lexicographic `≤` on code-point lists (Rust `str` ordering) -/
def lexLe : List Nat → List Nat → Bool
  | [], _ => true
  | _ :: _, [] => false
  | a :: as, b :: bs => a < b || (a == b && lexLe as bs)

structure Entry where
  key : List Nat
  code : String
deriving DecidableEq, Repr

def entryLe (a b : Entry) : Bool := lexLe a.key b.key

/-- iteration order of the map holding these entries (keys distinct) -/
def ordered (es : List Entry) : List Entry := es.mergeSort entryLe

/-- `G[key]=code;` for each entry in map order (the shape of all bundle emitters) -/
def emit (es : List Entry) : String := String.join ((ordered es).map fun e => e.code ++ ";")

end GE.Group
