"""Expression trees: enumeration / random generation, S-expression form (same as the harness dump),
WXML source text (fully parenthesised or with minimal parentheses by ECMAScript precedence) and a
reference JavaScript rendering (used by the oracles)."""
from . import core

UNOPS = {"Reverse": "!", "BitReverse": "~", "Positive": "+", "Negative": "-", "TypeOf": "typeof ", "Void": "void "}
BINOPS = {
    "Multiply": ("*", 3), "Divide": ("/", 3), "Remainer": ("%", 3), "Plus": ("+", 4), "Minus": ("-", 4),
    "LeftShift": ("<<", 5), "RightShift": (">>", 5), "UnsignedRightShift": (">>>", 5),
    "Lt": ("<", 6), "Gt": (">", 6), "Lte": ("<=", 6), "Gte": (">=", 6), "InstanceOf": (" instanceof ", 6),
    "Eq": ("==", 7), "Ne": ("!=", 7), "EqFull": ("===", 7), "NeFull": ("!==", 7),
    "BitAnd": ("&", 8), "BitXor": ("^", 9), "BitOr": ("|", 10), "LogicAnd": ("&&", 11), "LogicOr": ("||", 12),
    "NullishCoalescing": ("??", 12),
}
# trees are tuples: ("scope",i) ("data",n) ("undef",) ("null",) ("str",s) ("int",v) ("float",src) ("bool",b)
# ("obj",[("named",k,short,v)|("spread",v)]) ("arr",[("item",v)|("spread",v)|("hole",)])
# ("smember",o,n) ("dmember",o,f) ("call",f,[args]) ("un",op,e) ("bin",op,l,r) ("cond",c,t,f)


def qstr(s):
    o = ['"']
    for c in s:
        if c == '"':
            o.append('\\"')
        elif c == "\\":
            o.append("\\\\")
        elif c == "\t":
            o.append("\\t")
        elif c == "\n":
            o.append("\\n")
        elif c == "\r":
            o.append("\\r")
        elif " " <= c <= "~":
            o.append(c)
        else:
            o.append("\\u{%X}" % ord(c))
    o.append('"')
    return "".join(o)


def sexp(t, float_text=None):
    k = t[0]
    if k == "scope":
        return f"(scope {t[1]})"
    if k == "data":
        return f"(data {qstr(t[1])})"
    if k == "tostr":
        return f"(tostr {sexp(t[1])})"
    if k == "undef":
        return "(undef)"
    if k == "null":
        return "(null)"
    if k == "str":
        return f"(str {qstr(t[1])})"
    if k == "int":
        return f"(int {t[1]})"
    if k == "float":
        return f"(float {qstr(t[2] if len(t) > 2 else t[1])})"
    if k == "bool":
        return "(bool true)" if t[1] else "(bool false)"
    if k == "obj":
        parts = []
        for f in t[1]:
            if f[0] == "named":
                parts.append(f"(named {qstr(f[1])} {'short' if f[2] else 'colon'} {sexp(f[3])})")
            else:
                parts.append(f"(spread {sexp(f[1])})")
        return "(obj" + "".join(" " + p for p in parts) + ")"
    if k == "arr":
        parts = []
        for f in t[1]:
            if f[0] == "item":
                parts.append(f"(item {sexp(f[1])})")
            elif f[0] == "spread":
                parts.append(f"(spread {sexp(f[1])})")
            else:
                parts.append("(hole)")
        return "(arr" + "".join(" " + p for p in parts) + ")"
    if k == "smember":
        return f"(smember {sexp(t[1])} {qstr(t[2])})"
    if k == "dmember":
        return f"(dmember {sexp(t[1])} {sexp(t[2])})"
    if k == "call":
        return "(call " + sexp(t[1]) + "".join(" " + sexp(a) for a in t[2]) + ")"
    if k == "un":
        return f"(un {t[1]} {sexp(t[2])})"
    if k == "bin":
        return f"(bin {t[1]} {sexp(t[2])} {sexp(t[3])})"
    if k == "cond":
        return f"(cond {sexp(t[1])} {sexp(t[2])} {sexp(t[3])})"
    raise ValueError(k)


def level(t):
    """ECMAScript precedence level of the tree's top construct (0 primary .. 13 conditional)."""
    k = t[0]
    if k in ("smember", "dmember", "call"):
        return 1
    if k == "un":
        return 2
    if k == "bin":
        return BINOPS[t[1]][1]
    if k == "cond":
        return 13
    return 0


def wx_str(s, quote='"'):
    o = [quote]
    for c in s:
        if c == quote or c == "\\":
            o.append("\\" + c)
        elif c == "\n":
            o.append("\\n")
        elif c == "\r":
            o.append("\\r")
        elif c == "\t":
            o.append("\\t")
        elif c == "\0":
            o.append("\\x00")
        elif ord(c) < 0x20:
            o.append("\\x%02x" % ord(c))
        else:
            o.append(c)
    o.append(quote)
    return "".join(o)


def src(t, mode="min", rng=None, scope_names=None):
    """WXML expression text. mode: 'min' (parentheses only where ECMAScript precedence needs them),
    'full' (every compound operand parenthesised), 'rand' (min + random redundant parens/blanks)."""
    def ws():
        if mode == "rand" and rng is not None and rng.chance(1, 4):
            return rng.choice([" ", "  ", "\n", " /* c */ ", "\t"])
        return ""

    def sub(x, allow):
        s = go(x)
        need = level(x) > allow
        if mode == "full" and level(x) > 0:
            need = True
        # `??` cannot be mixed with ||/&& unparenthesised in JS; always parenthesise around it to keep texts valid JS too
        if mode == "rand" and rng is not None and rng.chance(1, 6):
            need = True
        return "(" + ws() + s + ws() + ")" if need else s

    def go(x):
        k = x[0]
        if k == "scope":
            return scope_names[x[1]] if scope_names else f"s{x[1]}"
        if k == "data":
            return x[1]
        if k == "undef":
            return "undefined"
        if k == "null":
            return "null"
        if k == "str":
            return wx_str(x[1], x[2] if len(x) > 2 else '"')
        if k == "int":
            return x[2] if len(x) > 2 else str(x[1])
        if k == "float":
            return x[1]
        if k == "bool":
            return "true" if x[1] else "false"
        if k == "obj":
            parts = []
            for f in x[1]:
                if f[0] == "named":
                    parts.append(f[1] if f[2] else f[1] + ws() + ":" + ws() + sub(f[3], 13))
                else:
                    parts.append("..." + sub(f[1], 13))
            return "{" + ws() + ("," + ws()).join(parts) + ws() + "}"
        if k == "arr":
            parts = []
            for f in x[1]:
                parts.append(sub(f[1], 13) if f[0] == "item" else ("..." + sub(f[1], 13) if f[0] == "spread" else ""))
            s = ",".join(parts)
            if x[1] and x[1][-1][0] == "hole":
                s += ","
            return "[" + ws() + s + "]"
        if k == "smember":
            o = sub(x[1], 1)
            # `1.x` would read as a number: parenthesise numeric objects
            if x[1][0] in ("int", "float"):
                o = "(" + go(x[1]) + ")"
            return o + ws() + "." + x[2]
        if k == "dmember":
            return sub(x[1], 1) + ws() + "[" + ws() + sub(x[2], 13) + ws() + "]"
        if k == "call":
            return sub(x[1], 1) + ws() + "(" + ",".join(ws() + sub(a, 13) for a in x[2]) + ws() + ")"
        if k == "un":
            op = UNOPS[x[1]]
            inner = sub(x[2], 2)
            # `- -x` / `+ +x`: keep a blank so the text is not `--x`
            if inner[:1] in "+-" and op in "+-":
                inner = " " + inner
            return op + ws() + inner
        if k == "bin":
            op, lv = BINOPS[x[1]]
            l, r = sub(x[2], lv), sub(x[3], lv - 1)
            if x[1] == "NullishCoalescing" or x[1] in ("LogicOr", "LogicAnd"):
                # JS forbids mixing ?? with ||/&& without parentheses; WXML accepts it at one level
                def guard(y, s):
                    if y[0] == "bin" and ((x[1] == "NullishCoalescing") != (y[1] == "NullishCoalescing")) and \
                            y[1] in ("NullishCoalescing", "LogicOr", "LogicAnd") and not s.startswith("("):
                        return "(" + s + ")"
                    return s
                l, r = guard(x[2], l), guard(x[3], r)
            if r[:1] in "+-" and op in "+-":
                r = " " + r
            if op == "/" and r[:1] in "/*":
                r = " " + r
            return l + ws() + op + ws() + r
        if k == "cond":
            return sub(x[1], 12) + ws() + "?" + ws() + sub(x[2], 13) + ws() + ":" + ws() + sub(x[3], 13)
        raise ValueError(k)

    return go(t)


def js_ref_hoisted(t, scope_names=None, concat_spread=False):
    """The reference with the generator's documented evaluation ORDER: every dynamic index expression, every
    left operand of ?? and every condition of a conditional is evaluated once, before the expression itself
    (so it is evaluated even when a short-circuiting operator or an enclosing conditional would have skipped it)."""
    hoist = []
    e = js_ref(t, scope_names, concat_spread, hoist)
    return "(function(){" + "".join(f"var {n}={v};" for n, v in hoist) + "return " + e + "})()"


def js_ref(t, scope_names=None, concat_spread=False, hoist=None):
    """Reference JavaScript for the INTENDED tree: native operators, fully parenthesised; member reads via
    M(o,k) (null-safe), calls via CALL(f,...args) (non-function -> undefined), data fields read from D."""
    k = t[0]
    r = lambda x: js_ref(x, scope_names, concat_spread, hoist)
    if hoist is not None and k == "dmember":
        idx = r(t[2])
        name = f"$h{len(hoist)}"
        hoist.append((name, idx))
        return f"M({r(t[1])},{name})"
    if hoist is not None and k == "bin" and BINOPS[t[1]][0] == "??":
        left = r(t[2])
        name = f"$h{len(hoist)}"
        hoist.append((name, left))
        return "(" + name + " ?? " + r(t[3]) + ")"
    if hoist is not None and k == "cond":
        c = r(t[1])
        name = f"$h{len(hoist)}"
        hoist.append((name, c))
        return "(" + name + " ? " + r(t[2]) + " : " + r(t[3]) + ")"
    if k == "scope":
        return (scope_names[t[1]] if scope_names else f"s{t[1]}")
    if k == "data":
        return f"D[{js_str(t[1])}]"
    if k == "tostr":
        return f"TOSTR({r(t[1])})"
    if k == "undef":
        return "(void 0)"
    if k == "null":
        return "null"
    if k == "str":
        return js_str(t[1])
    if k == "int":
        return "(" + (t[2] if len(t) > 2 else str(t[1])).replace("(", "").replace(")", "") + ")" if len(t) > 2 and t[2].startswith("0") and len(t[2]) > 1 and t[2][1] in "01234567" else "(" + str(t[1]) + ")"
    if k == "float":
        return "(" + t[1] + ")"
    if k == "bool":
        return "true" if t[1] else "false"
    if k == "obj":
        parts = []
        for f in t[1]:
            if f[0] == "named":
                parts.append(f"{js_str(f[1])}:{r(f[3])}")
            else:
                parts.append(f"...SPREADOBJ({r(f[1])})")
        return "({" + ",".join(parts) + "})"
    if k == "arr":
        if concat_spread and any(f[0] == "spread" for f in t[1]):
            # the documented deviation: spread by Array.prototype.concat (non-arrays become one element, holes stay holes)
            segs, cur = [], []
            def seg_text(items):
                parts = [r(f[1]) if f[0] == "item" else "" for f in items]
                s = ",".join(parts)
                if items and items[-1][0] == "hole":
                    s += ","
                return "[" + s + "]"
            for f in t[1]:
                if f[0] == "spread":
                    segs.append(seg_text(cur)); cur = []
                    segs.append("(" + r(f[1]) + ")")
                else:
                    cur.append(f)
            segs.append(seg_text(cur))
            return "[].concat(" + ",".join(segs) + ")"
        parts = []
        for f in t[1]:
            parts.append(r(f[1]) if f[0] == "item" else (f"...({r(f[1])})" if f[0] == "spread" else ""))
        s = ",".join(parts)
        if t[1] and t[1][-1][0] == "hole":
            s += ","
        return "[" + s + "]"
    if k == "smember":
        return f"M({r(t[1])},{js_str(t[2])})"
    if k == "dmember":
        return f"M({r(t[1])},{r(t[2])})"
    if k == "call":
        return "CALL(" + ",".join([r(t[1])] + [r(a) for a in t[2]]) + ")"
    if k == "un":
        return "(" + UNOPS[t[1]] + " " + r(t[2]) + ")"
    if k == "bin":
        return "(" + r(t[2]) + " " + BINOPS[t[1]][0] + " " + r(t[3]) + ")"
    if k == "cond":
        return "(" + r(t[1]) + " ? " + r(t[2]) + " : " + r(t[3]) + ")"
    raise ValueError(k)


def js_str(s):
    o = ['"']
    for c in s:
        if c in '"\\':
            o.append("\\" + c)
        elif " " <= c <= "~":
            o.append(c)
        else:
            o.append("\\u{%X}" % ord(c))
    o.append('"')
    return "".join(o)


LEAVES = [
    ("data", "a"), ("data", "b"), ("data", "c"), ("int", 1), ("int", 0), ("str", "s"), ("bool", True), ("null",), ("undef",),
    ("float", "1.5", "1.5"), ("scope", 0), ("data", "f"), ("data", "o"), ("data", "n"),
]
LEAVES_SMALL = [("data", "a"), ("data", "b"), ("int", 2), ("str", "x")]


def forms(kids):
    """Every compound form over the operand supplier `kids(i)` (i = operand position)."""
    k = kids
    out = []
    for op in UNOPS:
        out.append(("un", op, k(0)))
    for op in BINOPS:
        out.append(("bin", op, k(0), k(1)))
    out.append(("cond", k(0), k(1), k(2)))
    out.append(("smember", k(0), "p"))
    out.append(("smember", k(0), "length"))      # an inherited property: exists on '' (falsy, not nullish)
    out.append(("dmember", k(0), k(1)))
    out.append(("call", k(0), []))
    out.append(("call", k(0), [k(1)]))
    out.append(("call", k(0), [k(1), k(2)]))
    out.append(("obj", [("named", "p", False, k(0))]))
    out.append(("obj", [("named", "p", False, k(0)), ("named", "q", False, k(1))]))
    out.append(("obj", [("spread", k(0))]))
    out.append(("obj", [("named", "p", False, k(0)), ("spread", k(1)), ("named", "q", False, k(2))]))
    out.append(("obj", [("named", "p", False, k(0)), ("named", "q", False, ("int", 1)), ("named", "r", False, k(1))]))
    out.append(("obj", [("named", "p", False, ("int", 1)), ("named", "q", False, k(0)), ("named", "r", False, ("str", "c", '"')), ("named", "s", False, k(1))]))
    out.append(("arr", [("item", k(0)), ("item", ("int", 1)), ("item", k(1))]))
    out.append(("arr", [("item", k(0))]))
    out.append(("arr", [("item", k(0)), ("item", k(1))]))
    out.append(("arr", [("hole",), ("item", k(0))]))
    out.append(("arr", [("item", k(0)), ("hole",)]))
    out.append(("arr", [("item", k(0)), ("hole",), ("hole",), ("item", k(1))]))
    out.append(("arr", [("spread", k(0))]))
    out.append(("arr", [("item", k(0)), ("spread", k(1)), ("hole",), ("item", k(2))]))
    return out


def enum_depth2():
    """All (parent form x child form x child position) combinations; other operands are leaves."""
    leafs = [("data", "a"), ("data", "b"), ("data", "c")]
    children = forms(lambda i: [("data", "x"), ("data", "y"), ("data", "z")][i])
    res = []
    # parents with one slot replaced by each child form
    for pos in range(3):
        for ch in children:
            ps = forms(lambda i, pos=pos, ch=ch: ch if i == pos else leafs[i])
            base = forms(lambda i: leafs[i])
            for p, b in zip(ps, base):
                if p != b:
                    res.append(p)
    # dedupe
    seen, out = set(), []
    for t in res:
        s = sexp(t)
        if s not in seen:
            seen.add(s)
            out.append(t)
    return out


def rand_tree(rng, depth, nscopes=1):
    if depth <= 0 or rng.chance(1, 5):
        c = rng.below(16)
        if c < 5:
            return ("data", rng.choice(["a", "b", "c", "d", "f", "o", "l", "n", "$x", "_y"]))
        if c == 5 and nscopes:
            return ("scope", rng.below(nscopes))
        if c == 6:
            return ("int", rng.choice([0, 1, 2, 7, 10, 255, 2 ** 31, 2 ** 53 + 1, 9007199254740993]))
        if c == 7:
            return ("str", rng.choice(["", "s", "a b", "\"", "'", "\\", "\n", "é", "\U0001F600", "\0", "{{", "}}", "<a>", "&amp;", "length", "toFixed"]), rng.choice(['"', "'"]))
        if c == 8:
            return ("bool", rng.chance(1, 2))
        if c == 9:
            return ("null",)
        if c == 10:
            return ("undef",)
        if c == 11:
            return ("float", rng.choice(["1.5", "0.1", ".5", "1e3", "1e-7", "2.5e10", "1e21", "0.000001"]))
        if c == 12:
            v = rng.choice([0o17, 0x1F, 0xFF, 0o7, 0x10])
            return ("int", v, rng.choice([oct(v).replace("0o", "0"), hex(v)]))
        return ("data", rng.choice(["a", "b", "c"]))
    fs = forms(lambda i: ("$slot", i))
    shape = fs[rng.below(len(fs))]
    return subst(shape, lambda i: rand_tree(rng, depth - 1, nscopes))


def subst(t, f):
    """replace ("$slot", i) markers by f(i)"""
    if isinstance(t, tuple):
        if len(t) == 2 and t[0] == "$slot":
            return f(t[1])
        return tuple(subst(x, f) for x in t)
    if isinstance(t, list):
        return [subst(x, f) for x in t]
    return t
