#!/usr/bin/env python3
"""tools/keep_seed7.py <Cxx> <n> <caught-by> <detail…>  — copies /tmp/s8-<Cxx>/seeded.<n>.diff + demo into the next free /verif/seeded/<Cxx>-<k>/ (round 8)"""
import json, os, shutil, subprocess, sys
pid, n, caught = sys.argv[1], int(sys.argv[2]), sys.argv[3]
detail = " ".join(sys.argv[4:])
src = f"/tmp/s8-{pid}"
k = 1
while os.path.exists(f"/verif/seeded/{pid}-{k}"):
    k += 1
dst = f"/verif/seeded/{pid}-{k}"
os.makedirs(dst)
shutil.copy(f"{src}/seeded.{n}.diff", f"{dst}/patch.diff")
shutil.copy(f"{src}/demo.{n}.md", f"{dst}/demonstration.md")
head = subprocess.check_output(["git", "-C", "/repo", "log", "--format=%h", "-1"]).decode().strip()
files = [l[6:].strip() for l in open(f"{dst}/patch.diff") if l.startswith("+++ b/")]
json.dump({"property": pid, "source": "fresh sub-agent (round 8: properties with the fewest kept changes, plus C04 / C14 aimed at how tags become the tree) given only the property text and a scratch worktree",
           "applies_to_repo_commit": head, "files": files, "compiles": True,
           "pinned_suite": "84 passed / 0 failed with the patch applied (tools/verify_seed_scratch.sh)",
           "confirmed_by": "tools/seed_scratch.sh: applied in a scratch worktree, a scratch copy of /verif run against it (GE_REPO); /repo untouched",
           "caught_by": caught, "detail": detail},
          open(f"{dst}/meta.json", "w"), indent=1, ensure_ascii=False)
print(dst)
