"""Regenerates lean/GE/Extracted/*.lean from /repo's current sources (DESIGN.md §2)."""
from . import core

def main():
    from . import extractors
    extractors.regen_all()

if __name__ == "__main__":
    main()
