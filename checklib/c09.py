"""C09 — class prefixing hits every class selector and nothing else (DESIGN.md §9 C09)."""
from . import csscheck

THEOREMS = [
    "GE.Css.rule_rewrite_exact",
    "GE.Css.convRpx_wrote",
    "GE.Css.convCls_wrote",
    "GE.Css.qualLoop_wrote",
    "GE.Css.no_prefix_no_change",
    "GE.Css.not_class_unchanged",
    "GE.Css.class_prefixed_once",
]


def focus(r, o):
    # most cases have a prefix (the rewrite under test); one in five has none (nothing may change)
    if o["class_prefix"] is None and r.chance(4, 5):
        o["class_prefix"] = r.choice(["p", "", "é中", "pre-fix"])


def extra_cases(rng, quick):
    """class positions next to other tokens inside nested contexts (round 10): a `.` followed by white space / a comment is NOT a class selector,
    a class glued to a type selector, a pseudo-class name, an id, an attribute selector or a closing bracket IS one — in selector functions,
    bracketed blocks and the blocks of at-rule preludes"""
    from . import cssgen
    sheets = [
        ".list :is(. item, .row){color:red}", "view:not(.\n  hidden) .x{color:green}", "@container style(--sep: . dot){.y{top:1rpx}}", "[data-k=. v] . w{color:blue}",
        ":where(./**/gap, .q){a:b}", ":is(.\t tab){a:b}", "@scope (. root) to (.\n limit){.z{a:b}}", ":not(:is(. deep)){a:b}", ":has(> . child){a:b}",
        ":not(view.hidden){a:b}", ":is(text.b, .c){a:b}", "@scope (view.card) to (:hover.inner){.k{a:b}}", ":not(#id.x, [a].y, :is(p).z){a:b}",
        ":nth-child(2n+1 of li.odd){a:b}", "::slotted(span.s){a:b}", "view.top :is(a.b.c, d.e){a:b}", "@container card (min-width:1px){p.in{a:b}}",
        "@media screen{:not(i.j){a:b} k.l{c:d}}", "@supports selector(m.n){o.p{a:b}}", ":is(*.star, &.amp){a:b}", ":not(.a.b .c.d){a:b}",
    ]
    out = []
    for css in sheets:
        for o in ({"class_prefix": "p"}, {"class_prefix": "p", "class_prefix_sign": "S"}, {"class_prefix": None}):
            base = cssgen.gen_options(rng.fork(("o", len(out))))
            base.update({"import_sign": None, "convert_host": False, "class_prefix_sign": None})
            base.update(o)
            out.append((base, css))
    return out


def run(chk):
    chk.rule = ("generated stylesheets (nested rule-bearing at-rules, selector functions to depth 3, every token kind) x option sets; "
                "(1) token tree through the Lean model vs the implementation's outputs; (2) oracle: set of rewritten identifiers == identifiers "
                "immediately after a `.` delimiter in selector context, sign comments exactly there; non-trivial = stylesheet containing a class selector")
    chk.trusted = csscheck.TRUSTED
    chk.assumptions = ["the theorems (rule_rewrite_exact …) are about one style rule and the blocks nested in it: every identifier is written "
                       "exactly once, in order, prefixed iff it immediately follows `.` in selector context, and no other token kind changes; "
                       "sheet_idents (GE/Thm/C09Sheet.lean) lifts this to the WHOLE stylesheet model `transform` (no import sign): the identifiers of both outputs "
                       "are exactly those of the fuel-free reading `goI` of the token tree — class positions in style-rule selectors and in the "
                       "parenthesised / functional blocks of at-rule preludes, at any depth, in every rule nested inside any rule-bearing at-rule; "
                       "loose prelude identifiers, at-keywords, declaration blocks and calc() untouched; `:host` rules carry the chain's identifiers. "
                       "PARTIAL: with an import sign the whole-sheet theorem is not stated; sign comments are covered per rule and by the oracle"]
    csscheck.run_property(chk, "C09", "GE.Thm.C09", THEOREMS, 700, 12000, focus=focus, extra_cases=extra_cases,
                          nontrivial=lambda o, css, res: "." in css)
    failed, log = chk.prove("GE.Thm.C09Sheet", ["GE.Css.sheet_idents", "GE.Css.rules_sheetI", "GE.Css.qualRule_sheetI", "GE.Css.atLoop_sheetI",
                                                "GE.Css.writeLow_idents"])
    for t in failed:
        chk.violation("proof", f"obligation {t} no longer checks", theorem=t, log=log[-3000:])


def replay(chk, path):
    return csscheck.replay(chk, "C09", path)
