// Stub of glass-easel/src/tmpl/native_rendering.ts (external-component DOM templates; never used here).
export class GlassEaselTemplateDOM {
  constructor() {
    throw new Error('stub backend: GlassEaselTemplateDOM (externalComponent templates) is not supported')
  }
}
