import GE.Model.Rlm
/-!
Model of what the generated code and the template runtime do to the shadow tree, at the level of template
structure (`proc_gen/tag.rs` + `glass-easel/src/tmpl/proc_gen_wrapper.ts`: `handleChildrenCreation`,
`handleChildrenUpdate`; the one-by-one comparison of `RangeListManager.diff` for lists without `wx:key`).

Expressions are abstract (`Sem`): their values, their guards (`dirty`: may the value have changed under this
update-path tree and these scope trees) and the update-path tree of a list expression (`treeOf`) come from the
expression-level models (`ExprGen`, `PathAnalysis`), which have their own theorems (`gen_preserves`,
`guard_sound`).  What is modelled here is the bookkeeping around them:

* creation builds text nodes, elements (attributes evaluated), a virtual node per `<block>`, a `wx:if` virtual
  node that remembers the selected branch, a `wx:for` virtual node with one item node per list entry, each
  remembering its index;
* update walks the existing nodes in step with the template: a text or attribute is rewritten only when its
  guard says so; a `wx:if` node whose branch is still selected is updated in place, otherwise replaced by a
  newly created one; list items are matched by position: a position whose index (field name) is the same
  gets the subtree of the list's tree at that index, a position whose index changed is told `true` for both
  item and index (finding D67), surplus nodes are dropped, missing ones created.

Every node carries `born`: the step that created it.  It plays no part in the semantics; it makes node
reuse observable, so that the model's reuse decisions can be compared with the real runtime's.
-/
namespace GE.TagSem

/-- what the bookkeeping needs to know about expressions, values and update-path trees -/
structure Sem (E V T : Type) where
  eval : E → V → List V → V          -- value under the data and the scope variables (outermost first)
  truthy : V → Bool
  str : V → String
  items : V → List (V × V)           -- the (item, index) pairs a `wx:for` iterates over
  same : V → V → Bool                -- `===` on indexes
  all : T                            -- the tree `true`
  none : T                           -- no tree (`undefined`)
  dirty : E → T → List T → Bool      -- the guard of a binding
  treeOf : E → T → List T → T        -- the update-path tree of a list expression
  child : T → V → T                  -- `tree[index]`
  -- lists with `wx:key`
  rawKey : String → V → String       -- the key of an item (`String(item[key])`, `*this`: the item)
  isAll : T → Bool                   -- `tree === true`
  isNone : T → Bool                  -- `tree === undefined`
  keyMarks : String → T → Bool       -- does this subtree mark the key field (any subtree does for `*this`)
  anyMarked : String → T → Bool      -- is some child of the list's tree `true` or marking the key field
  -- the binding map
  reads : E → String → Bool          -- does the expression read this top-level data field
  -- `<template is data>`
  keyStr : V → String                -- `String(v)`: the name a template is looked up by
  mkObj : List (String × V) → V      -- the data object of a sub-template
  mkTree : T → List (String × T) → T -- its update-path tree (from the enclosing tree and the trees of the field expressions)

mutual
inductive Tpl (E : Type) where
  | text (e : E)
  | elem (tag : String) (attrs : List (String × E)) (children : Tpls E)
  /-- `<block>`; with `incl` the content of an `<include>`d file: it sees the data but none of the includer's scope variables, and it is
  out of the binding map's reach whatever it reads -/
  | block (incl : Bool) (children : Tpls E)
  /-- `wx:if` / `wx:elif` … chain -/
  | cond (branches : Branches E)
  /-- `wx:for` without `wx:key` -/
  | loop (list : E) (body : Tpls E)
  /-- `wx:for` with `wx:key` -/
  | loopK (list : E) (key : String) (body : Tpls E)
  /-- `<template is="…" data="{{ f: e, … }}"/>`: `cases` are the templates the name can select (first match), already resolved;
  the selected one is instantiated with the data object built from the fields and sees no scope variable -/
  | tref (is : E) (fields : List (String × E)) (cases : TCases E)
inductive Tpls (E : Type) where
  | nil
  | cons (t : Tpl E) (r : Tpls E)
/-- the chain ends with the `wx:else` body when `hasElse` -/
inductive Branches (E : Type) where
  | last (hasElse : Bool) (els : Tpls E)
  | cons (c : E) (body : Tpls E) (r : Branches E)
inductive TCases (E : Type) where
  | nil
  | cons (name : String) (body : Tpls E) (r : TCases E)
end

mutual
inductive Node (V : Type) where
  | text (born : Nat) (s : String)
  | elem (born : Nat) (tag : String) (attrs : List (String × V)) (children : Nodes V)
  | virt (born : Nat) (children : Nodes V)
  | ifn (born : Nat) (key : Nat) (children : Nodes V)
  | forn (born : Nat) (items : Items V)
  /-- a keyed list remembers the keys of its items (as computed, before they are made unique) -/
  | fornK (born : Nat) (raw : List String) (items : Items V)
  /-- the node of a `<template is>`: it remembers the value of `is` -/
  | tnode (born : Nat) (key : V) (children : Nodes V)
inductive Nodes (V : Type) where
  | nil
  | cons (n : Node V) (r : Nodes V)
/-- the `wx:for-item` nodes with the index each was rendered for -/
inductive Items (V : Type) where
  | nil
  | cons (born : Nat) (index : V) (children : Nodes V) (r : Items V)
end

variable {E V T : Type}

/-- the branch key: 1-based number of the first branch whose condition holds, 0 when none does (`c1?1:c2?2:…:0`; the `wx:else`
branch, if any, is the one with key 0) -/
def firstTrue (s : Sem E V T) (D : V) (sc : List V) : Branches E → Nat → Nat
  | .last _ _, _ => 0
  | .cons c _ r, i => if s.truthy (s.eval c D sc) then i else firstTrue s D sc r (i + 1)

def branchKey (s : Sem E V T) (D : V) (sc : List V) (bs : Branches E) : Nat := firstTrue s D sc bs 1

/-- the template name selected by the value of `is` (none when the value is falsy) -/
def selOf (s : Sem E V T) (k : V) : Option String := if s.truthy k then some (s.keyStr k) else none

def evalAttrs (s : Sem E V T) (D : V) (sc : List V) (attrs : List (String × E)) : List (String × V) :=
  attrs.map fun a => (a.1, s.eval a.2 D sc)

def mkItems (now : Nat) (mk : V → V → Nodes V) : List (V × V) → Items V
  | [] => .nil
  | (a, x) :: r => .cons now x (mk a x) (mkItems now mk r)

mutual
def create (s : Sem E V T) (now : Nat) (D : V) (sc : List V) : Tpl E → Node V
  | .text e => .text now (s.str (s.eval e D sc))
  | .elem tag attrs ch => .elem now tag (evalAttrs s D sc attrs) (createL s now D sc ch)
  | .block inc ch => .virt now (createL s now D (if inc then [] else sc) ch)
  | .cond bs =>
    let k := branchKey s D sc bs
    .ifn now k (createBr s now D sc bs k 1)
  | .loop l body =>
    .forn now (mkItems now (fun a x => createL s now D (sc ++ [a, x]) body) (s.items (s.eval l D sc)))
  | .loopK l key body =>
    let its := s.items (s.eval l D sc)
    .fornK now (its.map fun p => s.rawKey key p.1) (mkItems now (fun a x => createL s now D (sc ++ [a, x]) body) its)
  | .tref is fields cases =>
    let k := s.eval is D sc
    .tnode now k (createT s now (s.mkObj (evalAttrs s D sc fields)) cases (selOf s k))
def createL (s : Sem E V T) (now : Nat) (D : V) (sc : List V) : Tpls E → Nodes V
  | .nil => .nil
  | .cons t r => .cons (create s now D sc t) (createL s now D sc r)
/-- the children of the branch with key `k` (`i`: number of the first branch of the remaining list) -/
def createBr (s : Sem E V T) (now : Nat) (D : V) (sc : List V) : Branches E → Nat → Nat → Nodes V
  | .last he els, k, _ => if he && k == 0 then createL s now D sc els else .nil
  | .cons _ body r, k, i => if k == i then createL s now D sc body else createBr s now D sc r k (i + 1)
/-- the content of the selected template under its own data -/
def createT (s : Sem E V T) (now : Nat) (D : V) : TCases E → Option String → Nodes V
  | .nil, _ => .nil
  | .cons name body r, sel => if sel = some name then createL s now D [] body else createT s now D r sel
end

def updAttrs (s : Sem E V T) (D : V) (sc : List V) (U : T) (su : List T) : List (String × E) → List (String × V) → List (String × V)
  | [], _ => []
  | a :: r, [] => (a.1, s.eval a.2 D sc) :: updAttrs s D sc U su r []
  | a :: r, o :: r' => (a.1, if s.dirty a.2 U su then s.eval a.2 D sc else o.2) :: updAttrs s D sc U su r r'

/-- `RangeListManager.diff` without a key (and with a key when the list's tree is `undefined`): positions are matched one by one;
`treeAt x` is the tree handed to a position whose index `x` is unchanged -/
def zipItems (s : Sem E V T) (now : Nat) (treeAt : V → T) (upd : V → V → T → T → Nodes V → Nodes V) (mk : V → V → Nodes V) :
    List (V × V) → Items V → Items V
  | [], _ => .nil
  | (a, x) :: r, .nil => .cons now x (mk a x) (zipItems s now treeAt upd mk r .nil)
  | (a, x) :: r, .cons b ox och orest =>
    let changed := !(s.same x ox)
    .cons b x (upd a x (if changed then s.all else treeAt x) (if changed then s.all else s.none) och) (zipItems s now treeAt upd mk r orest)

/-- how `RangeListManager` classifies a subtree -/
def subMark (s : Sem E V T) (key : String) (t : T) : GE.Rlm.Mark :=
  if s.isNone t then .none else if s.isAll t then .all else .sub (s.keyMarks key t)

/-- the tree handed to the item with unique key `k` and index `x` of a keyed list (`need`: the transformation of the tree is needed;
`rold`, `rnew`: the keys that were renamed to make them unique in the old / new list) -/
def itemTree (s : Sem E V T) (key : String) (L : T) (need : Bool) (rold rnew : List String) (k : String) (x : V) : T :=
  if s.isAll L then s.all
  else if need then
    if k ∈ rold ∨ k ∈ rnew then s.all
    else match subMark s key (s.child L x) with
      | .none => s.none
      | .all => s.all
      | .sub true => s.all
      | .sub false => s.child L x
  else s.child L x

def getItem : Items V → Nat → Option (Nat × V × Nodes V)
  | .nil, _ => none
  | .cons b x ch _, 0 => some (b, x, ch)
  | .cons _ _ _ r, n + 1 => getItem r n

/-- the old item node that carried the unique key `k` (`oldKeyMap[k]`) -/
def lookupOld (ouk : List String) (oitems : Items V) (k : String) : Option (Nat × V × Nodes V) :=
  if ouk.idxOf k < ouk.length then getItem oitems (ouk.idxOf k) else none

/-- `RangeListManager.diff` with a key: every new item takes the node that carried its unique key (`ouk`: the old unique keys), else a new one;
the final order is the new list's (the moves that get there are not modelled) -/
def keyedItems (s : Sem E V T) (now : Nat) (ouk : List String) (oitems : Items V) (tr : String → V → T)
    (upd : V → V → T → T → Nodes V → Nodes V) (mk : V → V → Nodes V) : List (V × V) → List String → Items V
  | (a, x) :: r, k :: ks =>
    match lookupOld ouk oitems k with
    | some (b, ox, och) =>
      .cons b x (upd a x (tr k x) (if s.same x ox then s.none else s.all) och) (keyedItems s now ouk oitems tr upd mk r ks)
    | none => .cons now x (mk a x) (keyedItems s now ouk oitems tr upd mk r ks)
  | _, _ => .nil

mutual
def update (s : Sem E V T) (now : Nat) (D : V) (sc : List V) (U : T) (su : List T) : Tpl E → Node V → Node V
  | .text e, .text b old => .text b (if s.dirty e U su then s.str (s.eval e D sc) else old)
  | .elem _ attrs ch, .elem b tag old och => .elem b tag (updAttrs s D sc U su attrs old) (updateL s now D sc U su ch och)
  | .block inc ch, .virt b och => .virt b (updateL s now D (if inc then [] else sc) U (if inc then [] else su) ch och)
  | .cond bs, .ifn b k och =>
    let k' := branchKey s D sc bs
    if k' = k then .ifn b k (updateBr s now D sc U su bs k 1 och)
    else .ifn now k' (createBr s now D sc bs k' 1)
  | .loop l body, .forn b oitems =>
    .forn b (zipItems s now (s.child (s.treeOf l U su))
      (fun a x ti tx och => updateL s now D (sc ++ [a, x]) U (su ++ [ti, tx]) body och)
      (fun a x => createL s now D (sc ++ [a, x]) body)
      (s.items (s.eval l D sc)) oitems)
  | .loopK l key body, .fornK b oraw oitems =>
    let L := s.treeOf l U su
    let its := s.items (s.eval l D sc)
    let nraw := its.map fun p => s.rawKey key p.1
    let upd := fun a x ti tx och => updateL s now D (sc ++ [a, x]) U (su ++ [ti, tx]) body och
    let mk := fun a x => createL s now D (sc ++ [a, x]) body
    if s.isNone L then .fornK b nraw (zipItems s now (fun _ => s.none) upd mk its oitems)
    else .fornK b nraw (keyedItems s now (GE.Rlm.uniq oraw) oitems
      (itemTree s key L (s.anyMarked key L) (GE.Rlm.renamed oraw) (GE.Rlm.renamed nraw)) upd mk its (GE.Rlm.uniq nraw))
  | .tref is fields cases, .tnode b k och =>
    let k' := s.eval is D sc
    let D' := s.mkObj (evalAttrs s D sc fields)
    if s.same k' k then
      .tnode b k (updateT s now D' (s.mkTree U (fields.map fun a => (a.1, s.treeOf a.2 U su))) cases (selOf s k') och)
    else .tnode now k' (createT s now D' cases (selOf s k'))
  -- (a node that was not made from this template: cannot happen, see `renders`)
  | t, _ => create s now D sc t
def updateL (s : Sem E V T) (now : Nat) (D : V) (sc : List V) (U : T) (su : List T) : Tpls E → Nodes V → Nodes V
  | .nil, _ => .nil
  | .cons t r, .nil => .cons (create s now D sc t) (updateL s now D sc U su r .nil)
  | .cons t r, .cons n ns => .cons (update s now D sc U su t n) (updateL s now D sc U su r ns)
def updateBr (s : Sem E V T) (now : Nat) (D : V) (sc : List V) (U : T) (su : List T) :
    Branches E → Nat → Nat → Nodes V → Nodes V
  | .last he els, k, _, och => if he && k == 0 then updateL s now D sc U su els och else .nil
  | .cons _ body r, k, i, och =>
    if k == i then updateL s now D sc U su body och else updateBr s now D sc U su r k (i + 1) och
def updateT (s : Sem E V T) (now : Nat) (D : V) (U : T) : TCases E → Option String → Nodes V → Nodes V
  | .nil, _, _ => .nil
  | .cons name body r, sel, och => if sel = some name then updateL s now D [] U [] body och else updateT s now D U r sel och
end

/-! ### the binding-map fast path (`ProcGenWrapper.bindingMapUpdate`): the updaters of one top-level data field

The generated code registers, for every text and attribute binding in the static part of the template (not inside a `wx:if` / `wx:for`
subtree), an updater under each data field the binding reads; running the updaters of `f` rewrites exactly those bindings. -/

def bmAttrs (s : Sem E V T) (D : V) (sc : List V) (f : String) : List (String × E) → List (String × V) → List (String × V)
  | [], _ => []
  | _ :: _, [] => []
  | a :: r, o :: r' => (o.1, if s.reads a.2 f then s.eval a.2 D sc else o.2) :: bmAttrs s D sc f r r'

mutual
def bmUpdate (s : Sem E V T) (D : V) (sc : List V) (f : String) : Tpl E → Node V → Node V
  | .text e, .text b old => .text b (if s.reads e f then s.str (s.eval e D sc) else old)
  | .elem _ attrs ch, .elem b tag old och => .elem b tag (bmAttrs s D sc f attrs old) (bmUpdateL s D sc f ch och)
  | .block inc ch, .virt b och => .virt b (bmUpdateL s D sc f ch och)
  | _, n => n
def bmUpdateL (s : Sem E V T) (D : V) (sc : List V) (f : String) : Tpls E → Nodes V → Nodes V
  | .cons t r, .cons n ns => .cons (bmUpdate s D sc f t n) (bmUpdateL s D sc f r ns)
  | _, ns => ns
end

/-! does any expression of the template read `f` -/
mutual
def occurs (s : Sem E V T) (f : String) : Tpl E → Bool
  | .text e => s.reads e f
  | .elem _ attrs ch => attrs.any (fun a => s.reads a.2 f) || occursL s f ch
  | .block inc ch => occursL s f ch
  | .cond bs => occursBr s f bs
  | .loop l body => s.reads l f || occursL s f body
  | .loopK l _ body => s.reads l f || occursL s f body
  | .tref is fields _ => s.reads is f || fields.any (fun a => s.reads a.2 f)      -- (the sub-template sees its own data object only)
def occursL (s : Sem E V T) (f : String) : Tpls E → Bool
  | .nil => false
  | .cons t r => occurs s f t || occursL s f r
def occursBr (s : Sem E V T) (f : String) : Branches E → Bool
  | .last _ els => occursL s f els
  | .cons c body r => s.reads c f || occursL s f body || occursBr s f r
end

/-! does `f` occur where the binding map cannot reach: in a `wx:if` chain or a `wx:for` (conditions, list expression, bodies) -/
mutual
def dynOccurs (s : Sem E V T) (f : String) : Tpl E → Bool
  | .text _ => false
  | .elem _ _ ch => dynOccursL s f ch
  | .block inc ch => inc || dynOccursL s f ch
  | .cond bs => occursBr s f bs
  | .loop l body => s.reads l f || occursL s f body
  | .loopK l _ body => s.reads l f || occursL s f body
  | .tref is fields _ => s.reads is f || fields.any (fun a => s.reads a.2 f)
def dynOccursL (s : Sem E V T) (f : String) : Tpls E → Bool
  | .nil => false
  | .cons t r => dynOccurs s f t || dynOccursL s f r
end

/-! is there an `<include>` anywhere (it switches the whole binding map off) -/
mutual
def hasIncl : Tpl E → Bool
  | .text _ => false
  | .elem _ _ ch => hasInclL ch
  | .block inc ch => inc || hasInclL ch
  | .cond bs => hasInclBr bs
  | .loop _ body => hasInclL body
  | .loopK _ _ body => hasInclL body
  | .tref _ _ _ => false       -- (an include inside a sub-template switches off that template's own map, which nobody uses)
def hasInclL : Tpls E → Bool
  | .nil => false
  | .cons t r => hasIncl t || hasInclL r
def hasInclBr : Branches E → Bool
  | .last _ els => hasInclL els
  | .cons _ body r => hasInclL body || hasInclBr r
end

/-- the fields the generated binding map offers: read somewhere, nowhere out of reach, and no `<include>` in the template -/
def advertised (s : Sem E V T) (f : String) (t : Tpl E) : Bool := occurs s f t && !dynOccurs s f t && !hasIncl t

/-! ### "this node tree is a rendering of the template under these data" (whenever its nodes were born) -/

def rendersItems (p : V → V → Nodes V → Prop) : List (V × V) → Items V → Prop
  | [], .nil => True
  | (a, x) :: r, .cons _ ix ch rest => ix = x ∧ p a x ch ∧ rendersItems p r rest
  | _, _ => False

mutual
def renders (s : Sem E V T) (D : V) (sc : List V) : Tpl E → Node V → Prop
  | .text e, .text _ str => str = s.str (s.eval e D sc)
  | .elem tag attrs ch, .elem _ tag' vs nch => tag' = tag ∧ vs = evalAttrs s D sc attrs ∧ rendersL s D sc ch nch
  | .block inc ch, .virt _ nch => rendersL s D (if inc then [] else sc) ch nch
  | .cond bs, .ifn _ k nch => k = branchKey s D sc bs ∧ rendersBr s D sc bs k 1 nch
  | .loop l body, .forn _ items =>
    rendersItems (fun a x nch => rendersL s D (sc ++ [a, x]) body nch) (s.items (s.eval l D sc)) items
  | .loopK l key body, .fornK _ raw items =>
    raw = (s.items (s.eval l D sc)).map (fun p => s.rawKey key p.1) ∧
    rendersItems (fun a x nch => rendersL s D (sc ++ [a, x]) body nch) (s.items (s.eval l D sc)) items
  | .tref is fields cases, .tnode _ k nch =>
    k = s.eval is D sc ∧ rendersT s (s.mkObj (evalAttrs s D sc fields)) cases (selOf s k) nch
  | _, _ => False
def rendersL (s : Sem E V T) (D : V) (sc : List V) : Tpls E → Nodes V → Prop
  | .nil, .nil => True
  | .cons t r, .cons n ns => renders s D sc t n ∧ rendersL s D sc r ns
  | _, _ => False
def rendersBr (s : Sem E V T) (D : V) (sc : List V) : Branches E → Nat → Nat → Nodes V → Prop
  | .last he els, k, _, nch => if he && k == 0 then rendersL s D sc els nch else nch = .nil
  | .cons _ body r, k, i, nch => if k == i then rendersL s D sc body nch else rendersBr s D sc r k (i + 1) nch
def rendersT (s : Sem E V T) (D : V) : TCases E → Option String → Nodes V → Prop
  | .nil, _, nch => nch = .nil
  | .cons name body r, sel, nch => if sel = some name then rendersL s D [] body nch else rendersT s D r sel nch
end

/-! ### forgetting when nodes were born -/

mutual
def Node.shape : Node V → Node V
  | .text _ s => .text 0 s
  | .elem _ tag a ch => .elem 0 tag a ch.shape
  | .virt _ ch => .virt 0 ch.shape
  | .ifn _ k ch => .ifn 0 k ch.shape
  | .forn _ its => .forn 0 its.shape
  | .fornK _ raw its => .fornK 0 raw its.shape
  | .tnode _ k ch => .tnode 0 k ch.shape
def Nodes.shape : Nodes V → Nodes V
  | .nil => .nil
  | .cons n r => .cons n.shape r.shape
def Items.shape : Items V → Items V
  | .nil => .nil
  | .cons _ x ch r => .cons 0 x ch.shape r.shape
end

end GE.TagSem
