/-
C18 — the wrappers of an `@import` placeholder are balanced.

`importRule` (GE/Model/Css.lean, the `@import` branch of `parse_at_rule`, tied by `corr:css`) turns
`@import <path> layer(…) supports(…) <media>;` into `@layer …{@supports (…){@media …{/*sign path*/}}}`.
`import_balanced`: whenever the import is accepted (`importOk`: a path was read, no unexpected token in the
conditions, no `{}` block in the media part), the tokens written to the current output are a BALANCED sequence
with respect to `{` / `}` — read from any depth `d` they never close below `d` and end at depth `d` — whatever the
conditions contain (nested blocks, any token), for every token tree.  So the placeholder never leaks an open
wrapper into, or closes a block of, the rest of the stylesheet.
(When the import is rejected the real code, like the model, leaves the wrappers it had already opened unclosed; that
input is malformed and outside C18 — recorded in DESIGN.md §13.)
-/
import GE.Thm.C09

namespace GE.Css

/-- depth tracking over `{` / `}` only: `none` when a `}` arrives at depth 0 -/
def bal : List Shape → Nat → Option Nat
  | [], d => some d
  | .open .curly :: r, d => bal r (d + 1)
  | .close .curly :: r, d => match d with
    | 0 => none
    | d' + 1 => bal r d'
  | _ :: r, d => bal r d

theorem bal_append (a b : List Shape) (d : Nat) : bal (a ++ b) d = (bal a d).bind (bal b) := by
  induction a generalizing d with
  | nil => simp [bal]
  | cons x xs ih =>
    cases x with
    | leaf t => simp [bal, ih]
    | «open» k => cases k <;> simp [bal, ih]
    | close k =>
      cases k <;> simp only [List.cons_append, bal, ih]
      cases d <;> simp

mutual
theorem bal_inShape : ∀ (t : Tok) (d : Nat), bal (inShape t) d = some d
  | .leaf k _, d => by cases k <;> simp [inShape, bal]
  | .block k _ body _, d => by
    have ih := bal_inShapes body
    cases k <;> simp [inShape, bal, bal_append, ih, closeOf]
theorem bal_inShapes : ∀ (ts : List Tok) (d : Nat), bal (inShapes ts) d = some d
  | [], d => by simp [inShapes, bal]
  | t :: ts, d => by simp [inShapes, bal_append, bal_inShape t, bal_inShapes ts]
end

/-- the current output was extended by items of kinds `shs` (warnings may have been added) -/
structure WroteW (st st' : St) (shs : List Shape) : Prop where
  opts : st'.opts = st.opts
  ul : st'.usingLow = st.usingLow
  ext : ∃ new, st'.cur.items = st.cur.items ++ new ∧ shapes new = shs

theorem WroteW.refl (st : St) : WroteW st st [] := ⟨rfl, rfl, ⟨[], by simp, rfl⟩⟩

theorem WroteW.trans {a b c : St} {s1 s2} (h1 : WroteW a b s1) (h2 : WroteW b c s2) : WroteW a c (s1 ++ s2) :=
  ⟨h2.opts.trans h1.opts, h2.ul.trans h1.ul, by
    obtain ⟨n1, e1, hs1⟩ := h1.ext
    obtain ⟨n2, e2, hs2⟩ := h2.ext
    exact ⟨n1 ++ n2, by rw [e2, e1, List.append_assoc], by rw [shapes_append, hs1, hs2]⟩⟩

theorem WroteW.ofWrote {st st' : St} {ids shs} (h : Wrote st st' ids shs) : WroteW st st' shs :=
  ⟨h.opts, h.ul, by obtain ⟨n, e, _, hs⟩ := h.ext; exact ⟨n, e, hs⟩⟩

theorem WroteW.warn (st : St) (k : WarnK) (p : Pos) : WroteW st (st.warn k p) [] :=
  ⟨rfl, rfl, ⟨[], by rw [List.append_nil]; rfl, rfl⟩⟩

theorem WroteW.congr {a b : St} {s s'} (h : WroteW a b s) (e : s = s') : WroteW a b s' := by subst e; exact h

/-! ## the pieces of `importRule` -/

theorem bal_single_open (d : Nat) : bal [.open .curly] d = some (d + 1) := by simp [bal]

theorem wroteW_tok (st : St) (k : OutK) (pos : Pos) (name : Option String) : WroteW st (st.tok k pos name) (shapeOfK k) :=
  WroteW.ofWrote (wrote_tok st k pos name)

/-- the condition loop: every wrapper it opens is one `{` deeper, and it records exactly those -/
theorem importConds_bal : ∀ (ts : List Tok) (st : St) (closes : List Pos),
    ∃ shs, WroteW st (importConds st closes ts).st shs ∧
      closes.length ≤ (importConds st closes ts).closes.length ∧
      ∀ d, bal shs d = some (d + ((importConds st closes ts).closes.length - closes.length))
  | [], st, closes => ⟨[], by simpa [importConds] using WroteW.refl st, by simp [importConds], by simp [importConds, bal]⟩
  | .leaf k pos :: ts, st, closes => by
    cases k with
    | ws =>
      simp only [importConds]
      exact importConds_bal ts st closes
    | ident x =>
      simp only [importConds]
      split
      · have w1 := wroteW_tok st (.leaf (.at "layer")) pos (some x)
        have w2 := WroteW.ofWrote (wrote_open (st.tok (.leaf (.at "layer")) pos (some x)) .curly "" pos)
        obtain ⟨shs, h1, h2, h3⟩ := importConds_bal ts (openTok (st.tok (.leaf (.at "layer")) pos (some x)) .curly "" pos) (closes ++ [pos])
        refine ⟨_, (w1.trans w2).trans h1, by simp at h2; omega, ?_⟩
        intro d
        simp only [List.length_append, List.length_singleton] at h2 h3
        simp [bal_append, shapeOfK, leafTag, bal, h3]
        omega
      · exact ⟨[], by simpa using WroteW.refl st, by simp, by simp [bal]⟩
    | semi => simp only [importConds]; exact ⟨[], by simpa using WroteW.refl st, by simp, by simp [bal]⟩
    | _ =>
      simp only [importConds]
      exact ⟨[], by simpa using WroteW.warn st _ _, by simp, by simp [bal]⟩
  | .block k name body pos :: ts, st, closes => by
    cases k with
    | fn =>
      simp only [importConds]
      split
      · -- layer(…)
        have w1 := wroteW_tok st (.leaf (.at name)) pos (some (name ++ "("))
        have w2 := WroteW.ofWrote (convRpx_wrote body (st.tok (.leaf (.at name)) pos (some (name ++ "("))) false none)
        have w3 := WroteW.ofWrote (wrote_open (convRpx (st.tok (.leaf (.at name)) pos (some (name ++ "("))) false body none) .curly "" pos)
        obtain ⟨shs, h1, h2, h3⟩ := importConds_bal ts _ (closes ++ [pos])
        refine ⟨_, ((w1.trans w2).trans w3).trans h1, by simp at h2; omega, ?_⟩
        intro d
        simp only [List.length_append, List.length_singleton] at h2 h3
        simp [bal_append, shapeOfK, leafTag, bal, bal_inShapes, h3]
        omega
      · split
        · -- supports(…)
          have w1 := wroteW_tok st (.leaf (.at name)) pos (some (name ++ "("))
          have w2 := WroteW.ofWrote (wrote_open (st.tok (.leaf (.at name)) pos (some (name ++ "("))) .paren "" pos)
          have w3 := WroteW.ofWrote (convCls_wrote body (openTok (st.tok (.leaf (.at name)) pos (some (name ++ "("))) .paren "" pos) true false false)
          have w4 := WroteW.ofWrote (wrote_close (convCls (openTok (st.tok (.leaf (.at name)) pos (some (name ++ "("))) .paren "" pos) body true false false) .paren pos)
          have w5 := WroteW.ofWrote (wrote_open (closeTok (convCls (openTok (st.tok (.leaf (.at name)) pos (some (name ++ "("))) .paren "" pos) body true false false) .paren pos) .curly "" pos)
          obtain ⟨shs, h1, h2, h3⟩ := importConds_bal ts _ (closes ++ [pos])
          refine ⟨_, ((((w1.trans w2).trans w3).trans w4).trans w5).trans h1, by simp at h2; omega, ?_⟩
          intro d
          simp only [List.length_append, List.length_singleton] at h2 h3
          simp [bal_append, shapeOfK, leafTag, bal, bal_inShapes, closeOf, h3]
          omega
        · exact ⟨[], by simpa using WroteW.warn st _ _, by simp, by simp [bal]⟩
    | paren => simp only [importConds]; exact ⟨[], by simpa using WroteW.refl st, by simp, by simp [bal]⟩
    | square => simp only [importConds]; exact ⟨[], by simpa using WroteW.warn st _ _, by simp, by simp [bal]⟩
    | curly => simp only [importConds]; exact ⟨[], by simpa using WroteW.warn st _ _, by simp, by simp [bal]⟩

/-- the media-query part writes a balanced sequence (in every case, also when it gives up at a `{}` block) -/
theorem importMedia_bal : ∀ (ts : List Tok) (st : St) (e : Pos),
    ∃ shs, WroteW st (importMedia st e ts).1 shs ∧ ∀ d, bal shs d = some d
  | [], st, e => ⟨[], by simpa [importMedia] using WroteW.refl st, by simp [bal]⟩
  | .leaf k pos :: ts, st, e => by
    cases k with
    | ws => simp only [importMedia]; exact importMedia_bal ts st e
    | semi => simp only [importMedia]; exact ⟨[], by simpa using WroteW.refl st, by simp [bal]⟩
    | _ =>
      simp only [importMedia]
      obtain ⟨shs, h1, h2⟩ := importMedia_bal ts (st.tok (.leaf _) pos) e
      refine ⟨_, (wroteW_tok st (.leaf _) pos none).trans h1, ?_⟩
      intro d
      simp [bal_append, shapeOfK, leafTag, bal, h2]
  | .block k name body pos :: ts, st, e => by
    have other : k ≠ .curly →
        ∃ shs, WroteW st (importMedia (closeTok (convCls (openTok st k name pos) body true false false) k pos) e ts).1 shs ∧
          ∀ d, bal shs d = some d := by
      intro hk
      have w1 := WroteW.ofWrote (wrote_open st k name pos)
      have w2 := WroteW.ofWrote (convCls_wrote body (openTok st k name pos) true false false)
      have w3 := WroteW.ofWrote (wrote_close (convCls (openTok st k name pos) body true false false) k pos)
      obtain ⟨shs, h1, h2⟩ := importMedia_bal ts (closeTok (convCls (openTok st k name pos) body true false false) k pos) e
      refine ⟨_, ((w1.trans w2).trans w3).trans h1, ?_⟩
      intro d
      cases k <;> simp_all [bal_append, bal, bal_inShapes, closeOf]
    cases k with
    | curly => simp only [importMedia]; exact ⟨[], by simpa using WroteW.warn st _ _, by simp [bal]⟩
    | fn => simp only [importMedia]; exact other (by simp)
    | paren => simp only [importMedia]; exact other (by simp)
    | square => simp only [importMedia]; exact other (by simp)

/-- closing the recorded wrappers, innermost first -/
theorem closes_bal : ∀ (ps : List Pos) (st : St),
    ∃ shs, WroteW st (ps.foldl (fun st p => closeTok st .curly p) st) shs ∧ ∀ d, bal shs (d + ps.length) = some d
  | [], st => ⟨[], by simpa using WroteW.refl st, by simp [bal]⟩
  | p :: ps, st => by
    have w1 := WroteW.ofWrote (wrote_close st .curly p)
    obtain ⟨shs, h1, h2⟩ := closes_bal ps (closeTok st .curly p)
    refine ⟨_, w1.trans h1, ?_⟩
    intro d
    have : d + (p :: ps).length = (d + ps.length) + 1 := by simp; omega
    rw [this]
    simp [bal, closeOf, h2]

/-- the import is accepted: a path is read, the conditions and the media part raise no error — exactly the case in which the
placeholder comment is written -/
def importOk (st : St) (atStart : Bool) (startPos : Pos) (ts : List Tok) : Bool :=
  let st := if atStart then st else st.warn .illegalImportPosition startPos
  match dropWs ts with
  | t :: r =>
    match importPath t with
    | none => false
    | some _ =>
      let c := importConds st [] r
      if c.err then false else
      if c.hasMedia then
        !(importMedia (c.st.tok (.leaf (.at "media")) startPos) (nextPos c.rest startPos) c.rest).2.1
      else true
  | _ => false

/-- **C18: the wrappers of an accepted import are balanced.**  What `importRule` writes to the current output — the `@layer …{`,
`@supports (…){`, `@media …{` wrappers, the placeholder comment, the closers — never closes below the depth it started at and
ends at that depth, for every token tree. -/
theorem import_balanced (st : St) (sign : String) (atStart : Bool) (startPos : Pos) (ts : List Tok)
    (hok : importOk st atStart startPos ts = true) :
    ∃ shs, WroteW st (importRule st sign atStart startPos ts).1 shs ∧ ∀ d, bal shs d = some d := by
  unfold importOk at hok
  unfold importRule
  have w0 : WroteW st (if atStart then st else st.warn .illegalImportPosition startPos) [] := by
    split
    · exact WroteW.refl st
    · exact WroteW.warn st _ _
  generalize (if atStart then st else st.warn .illegalImportPosition startPos) = st0 at hok w0 ⊢
  cases hd : dropWs ts with
  | nil => simp [hd] at hok
  | cons t r =>
    simp only [hd] at hok ⊢
    cases hp : importPath t with
    | none => simp [hp] at hok
    | some path =>
      simp only [hp] at hok ⊢
      obtain ⟨s1, c1, c2, c3⟩ := importConds_bal r st0 []
      cases herr : (importConds st0 [] r).err with
      | true => simp [herr] at hok
      | false =>
        simp only [herr, Bool.false_eq_true, if_false] at hok ⊢
        simp only [List.length_nil, Nat.sub_zero] at c3
        cases hm : (importConds st0 [] r).hasMedia with
        | false =>
          simp only [hm, Bool.false_eq_true, if_false]
          have w2 := wroteW_tok (importConds st0 [] r).st (.leaf (.comment (sign ++ " " ++ urlEncode path))) startPos none
          obtain ⟨s3, h3, b3⟩ := closes_bal (importConds st0 [] r).closes.reverse
            ((importConds st0 [] r).st.tok (.leaf (.comment (sign ++ " " ++ urlEncode path))) startPos)
          refine ⟨_, ((w0.trans c1).trans w2).trans h3, ?_⟩
          intro d
          have := b3 d
          simp only [List.length_reverse] at this
          simp [bal_append, c3, shapeOfK, bal, this]
        | true =>
          simp only [hm, if_true] at hok ⊢
          have wm := wroteW_tok (importConds st0 [] r).st (.leaf (.at "media")) startPos none
          obtain ⟨s2, m1, m2⟩ := importMedia_bal (importConds st0 [] r).rest
            ((importConds st0 [] r).st.tok (.leaf (.at "media")) startPos) (nextPos (importConds st0 [] r).rest startPos)
          have hmerr : (importMedia ((importConds st0 [] r).st.tok (.leaf (.at "media")) startPos)
              (nextPos (importConds st0 [] r).rest startPos) (importConds st0 [] r).rest).2.1 = false := by
            simpa using hok
          simp only [hmerr, Bool.false_eq_true, if_false]
          have wo := WroteW.ofWrote (wrote_open (importMedia ((importConds st0 [] r).st.tok (.leaf (.at "media")) startPos)
              (nextPos (importConds st0 [] r).rest startPos) (importConds st0 [] r).rest).1 .curly "" startPos)
          have w2 := wroteW_tok (openTok (importMedia ((importConds st0 [] r).st.tok (.leaf (.at "media")) startPos)
              (nextPos (importConds st0 [] r).rest startPos) (importConds st0 [] r).rest).1 .curly "" startPos)
              (.leaf (.comment (sign ++ " " ++ urlEncode path))) startPos none
          obtain ⟨s3, h3, b3⟩ := closes_bal ((importConds st0 [] r).closes ++ [startPos]).reverse
            ((openTok (importMedia ((importConds st0 [] r).st.tok (.leaf (.at "media")) startPos)
              (nextPos (importConds st0 [] r).rest startPos) (importConds st0 [] r).rest).1 .curly "" startPos).tok
              (.leaf (.comment (sign ++ " " ++ urlEncode path))) startPos)
          refine ⟨_, (((((w0.trans c1).trans wm).trans m1).trans wo).trans w2).trans h3, ?_⟩
          intro d
          have := b3 d
          simp only [List.length_reverse, List.length_append, List.length_singleton] at this
          simp [bal_append, c3, m2, shapeOfK, leafTag, bal]
          rw [show d + (importConds st0 [] r).closes.length + 1 = d + ((importConds st0 [] r).closes.length + 1) by omega]
          exact this

/-! non-vacuity: `@import "a" layer(l) supports(x) screen;` is accepted, and its wrappers are three deep -/
def exImport : List Tok :=
  [.leaf .ws ⟨0,7⟩, .leaf (.str "a") ⟨0,8⟩, .leaf .ws ⟨0,11⟩, .block .fn "layer" [.leaf (.ident "l") ⟨0,18⟩] ⟨0,12⟩, .leaf .ws ⟨0,20⟩,
   .block .fn "supports" [.leaf (.ident "x") ⟨0,30⟩] ⟨0,21⟩, .leaf .ws ⟨0,32⟩, .leaf (.ident "screen") ⟨0,33⟩, .leaf .semi ⟨0,39⟩]

example : importOk ⟨⟨none, none, 0x443b8000, some "I", false, none⟩, .empty, .empty, false, [], []⟩ true ⟨0,7⟩ exImport = true := by
  simp [importOk, exImport, dropWs, Tok.isWs, importPath, importConds, importMedia, lower]

end GE.Css
