"""Self-test of the stylesheet generator + oracles.

  GE_CSS_HARNESS=/tmp/harness_css/target/debug/geharness python3 -m checklib.css_selftest [N] [seed] [--no-shrink]

* N generated stylesheets x generated options (plus N/4 mutated ones, C01 only) go through the
  harness `css` op; every check runs; a table classification -> count is printed, with one
  (shrunk) example input per classification.
* fault injection: for cases on which every check holds, the output is damaged (a span of
  non-blank characters deleted, re-tokenised through the harness) and the checks must notice;
  checking with other options than the ones used (prefix, ratio) must be noticed too.

Without GE_CSS_HARNESS the regular harness binary (`geharness run`) is used; it must know `css`.
"""
import json, os, re, sys, time

sys.path.insert(0, os.path.dirname(os.path.dirname(os.path.abspath(__file__))))
from checklib import core, cssgen, cssoracle  # noqa: E402


def harness_cmd():
    b = os.environ.get("GE_CSS_HARNESS")
    if b:
        return b, []
    return core.HARNESS_BIN, ["run"]


def run_css(cases):
    """cases: [(opts dict, css text)] -> [decoded answer]"""
    if not cases:
        return []
    lines = [core.req("css", json.dumps(o), s) for o, s in cases]
    b, args = harness_cmd()
    rc, out, err = core.run_lines(b, args, lines)
    if rc != 0 or len(out) != len(lines):
        raise core.BrokenTie("harness-run", "rc=%s answers=%d/%d %s" % (rc, len(out), len(lines), err[-2000:]))
    return [json.loads(l) for l in out]


CHECKS = dict(cssoracle.ALL_CHECKS)

_P = {"class_prefix": "p"}
_S = {"class_prefix_sign": "S"}
_H = {"convert_host": True}
_I = {"import_sign": "I"}
# hand-written minimal inputs; each shows its classification on the pinned commit (a fixed
# defect makes its lines print "no longer triggers")
EXAMPLES = [
    ("C08", "ws-lost-in-nested-selector-function", _P, ".x:not(:is(.a .b)){}"),
    ("C08", "ws-lost-in-at-rule:layer", _P, "@layer l{.a .b{}}"),
    ("C08", "ws-lost-in-at-rule:container", _P, "@container (min-width:1px){.a .b{}}"),
    ("C08", "ws-lost-in-at-rule:scope", _P, "@scope (.s){.a .b{}}"),
    ("C08", "ws-lost-in-at-rule:starting-style", _P, "@starting-style{.a .b{}}"),
    ("C08", "ws-lost-in-at-rule:media(uppercase)", _P, "@MEDIA screen{.a .b{}}"),
    ("C08", "ws-lost-in-nested-selector-function+at-prelude:supports", _P, "@supports selector(:is(.a .b)){.c{}}"),
    ("C08", "ws-lost-in-nested-selector-function+at-prelude:scope", _P, "@scope (:is(.a .b)){.c{}}"),
    ("C08", "calc-ws-lost-in-nested-paren", {}, ".a{width:calc(1px*(2px + 3px))}"),
    ("C08", "calc-ws-lost-in-nested-fn:min", {}, ".a{width:calc(1px*min(2px + 3px,4px))}"),
    ("C08", "calc-ws-lost-in-nested-fn:max", {}, ".a{width:calc(1px*max(2px + 3px,4px))}"),
    ("C08", "calc-ws-lost-in-nested-fn:clamp", {}, ".a{width:calc(clamp(1px,2px + 3px,4px))}"),
    ("C08", "calc-ws-lost-in-nested-fn:var", {}, ".a{width:calc(var(--x,1px + 2px))}"),
    ("C08", "unicode-range-split", {}, "@font-face{unicode-range:U+26}"),
    ("C09", "class-not-prefixed-in-nested-selector-function", _P, ".x:not(:is(.a)){}"),
    ("C09", "class-not-prefixed-in-at-rule:layer", _P, "@layer l{.a{}}"),
    ("C09", "class-not-prefixed-in-at-rule:container", _P, "@container (min-width:1px){.a{}}"),
    ("C09", "class-not-prefixed-in-at-rule:scope", _P, "@scope{.a{}}"),
    ("C09", "class-not-prefixed-in-nested-selector-function+at-prelude:scope", _P, "@scope (:is(.a)){}"),
    ("C09", "class-sign-missing-in-nested-selector-function", _S, ".x:not(:is(.a)){}"),
    ("C09", "class-sign-missing-in-at-rule:layer", _S, "@layer l{.a{}}"),
    ("C09", "non-class-ident-prefixed-in-import-layer-name", _P, "@import 'a.css' layer(a.b);"),
    ("C09", "class-sign-at-non-class-position-in-import-layer-name", _S, "@import 'a.css' layer(a.b);"),
    ("C09", "non-class-ident-prefixed-in-at-prelude:document", _P, "@document domain(x.com){.a{}}"),
    ("C10", "int-lost-digits", {}, ".a{z-index:2147483647}"),
    ("C10", "int-lost-digits", {}, ".a{width:9999999px}"),
    ("C10", "non-integer-6-digits", {}, ".a{line-height:1.2345678}"),
    ("C10", "rpx-6-digits", {}, ".a{width:1rpx}"),
    ("C17", "host-rule-left-in-normal-output-in-at-rule:layer", _H, "@layer l{:host{color:red}}"),
    ("C17", "host-rule-missing-from-low-output-in-at-rule:layer", _H, "@layer l{:host{color:red}}"),
    ("C17", "host-combination-left-in-normal-output-in-at-rule:layer", _H, "@layer l{:host .a{color:red}}"),
    ("C17", "host-combination-warning-missing-in-at-rule:layer", _H, "@layer l{:host .a{color:red}}"),
    ("C18", "import-url-dropped", _I, "@import url(a.css);"),
    ("C18", "import-url-dropped", _I, "@import url(\"a.css\") screen;"),
    ("C18", "import-layer-keyword-as-media", _I, "@import 'a.css' layer;"),
    ("C19", "map-position-before-comment", {}, ".a/*c*/.b{}"),
]


def check_examples():
    res = run_css([(o, s) for _, _, o, s in EXAMPLES])
    n = 0
    lines = []
    for (pid, cls, o, s), r in zip(EXAMPLES, res):
        hit = (pid, cls) in classes_of(o, r)
        n += hit
        lines.append("   %-14s %s %-64s %s  %s  ->  %s%s" % ("triggers" if hit else "NO LONGER", pid, cls, json.dumps(o), s, r.get("normal"),
                                                           (" | low: " + r["low"]) if r.get("low") else ""))
    return n, lines


def classes_of(opts, res, well_formed=True, only=None):
    """{(prop, classification): first problem}"""
    if only is not None:
        probs = {only: CHECKS[only](opts, res)}
    else:
        probs = cssoracle.run_all(opts, res) if well_formed else {"C01": cssoracle.check_c01(opts, res)}
    found = {}
    for pid, ps in probs.items():
        for p in ps:
            found.setdefault((pid, p["classification"]), p)
    return found


def is_well_formed(res):
    """brackets balanced, no bad-string / bad-url / stray closer tokens in the input"""
    ti = res.get("tokens_in", "")
    if any(("(" + k + " ") in ti for k in ("badstr", "badurl", "closeparen", "closesquare", "closecurly")):
        return False
    return all(c[4] for c in res.get("closers_in", []))


def looks_like_css(res):
    """rough shape test used while shrinking examples (keeps them readable): every rule has a
    prelude and a block (or `;`), declarations look like `name: value`, `.` `#` `:` are followed
    by a name in selectors"""
    if not is_well_formed(res):
        return False
    sig = lambda ts: [t for t in ts if t.kind not in ("ws", "comment")]

    def decls(ts):
        cur = []
        for t in sig(ts) + [None]:
            if t is None or t.kind == "semi":
                if cur:
                    if cur[0].kind == "at":
                        pass
                    elif len(cur) < 3 or cur[0].kind != "ident" or cur[1].kind != "colon":
                        return False
                cur = []
            elif t.kind == "curly" and cur and cur[0].kind == "at":
                cur = []
            else:
                cur.append(t)
        return True

    def selector(ts):
        ts = sig(ts)
        if not ts:
            return False
        for a, b in zip(ts, ts[1:] + [None]):
            if (a.kind == "delim" and a.val in ".#") or a.kind == "colon":
                if b is None or b.kind not in ("ident", "fn", "colon"):
                    return False
            if a.kind in ("fn", "paren") and not selector(a.children):
                return False
        return ts[-1].kind != "comma" and not (ts[-1].kind == "delim" and ts[-1].val in ">+~")

    def rules(ts):
        ts = sig(ts)
        i = 0
        while i < len(ts):
            j = i
            if ts[i].kind == "at":
                while j < len(ts) and ts[j].kind not in ("semi", "curly"):
                    j += 1
                if j == len(ts):
                    return False
                name = ts[i].val.lower()
                if ts[j].kind == "curly":
                    if name in cssoracle.RULE_BEARING:
                        if not rules(ts[j].children):
                            return False
                    elif name not in cssoracle.KEYFRAMES and not decls(ts[j].children):
                        return False
                elif j == i + 1:
                    return False
            else:
                while j < len(ts) and ts[j].kind != "curly":
                    j += 1
                if j == len(ts) or j == i or not selector(ts[i:j]) or not decls(ts[j].children):
                    return False
            i = j + 1
        return True

    return rules(cssoracle.parse_tree(res["tokens_in"]))


def family(cls):
    """classification with the at-rule chain left out (one shrunk example per family is enough)"""
    return re.sub(r"(at-rule:)[^+ ]+", r"\\1*", cls)


def shrink(opts, css, key, well_formed, budget=600):
    """delta-debugging on characters: smallest input (found) that still shows classification `key`
    (and is still well-formed, if the original was)"""
    cur = css
    size = max(1, len(cur) // 2)
    used = 0
    while size >= 1 and used < budget:
        cands = []
        i = 0
        while i < len(cur):
            cands.append(cur[:i] + cur[i + size:])
            i += size
        cands = [c for c in cands if c != cur]
        # smaller first; one harness batch per round
        answers = run_css([(opts, c) for c in cands])
        used += len(cands)
        hit = None
        for c, res in zip(cands, answers):
            if well_formed and not looks_like_css(res):
                continue
            if key in classes_of(opts, res, well_formed, only=key[0]):
                hit = c
                break
        if hit is not None:
            cur = hit
            size = min(size, max(1, len(cur) // 2))
        else:
            size //= 2
    return cur


def fault_injection(clean, rng):
    """clean: [(opts, css, res)] on which every check holds"""
    stats = dict(damaged=0, damaged_caught=0, opts=0, opts_caught=0, missed=[])
    # 1. damaged outputs
    jobs = []
    for o, s, res in clean:
        out = res["normal"]
        idx = [i for i, c in enumerate(out) if not c.isspace()]
        if not idx:
            continue
        i = idx[rng.below(len(idx))]
        j = i + 1 + rng.below(3)
        bad = out[:i] + out[j:]
        if bad == out:
            continue
        jobs.append((o, s, res, bad, (i, j)))
    retok = run_css([({}, bad) for _, _, _, bad, _ in jobs])
    for (o, s, res, bad, span), rt in zip(jobs, retok):
        if "panic" in rt:
            continue
        r2 = {k: v for k, v in res.items() if not k.startswith("_")}
        r2["normal"] = bad
        r2["tokens_normal"] = rt["tokens_in"]
        r2["closers_normal"] = rt["closers_in"]
        found = classes_of(o, r2)
        stats["damaged"] += 1
        if any(k[0] in ("C08", "C09", "C10", "C17", "C18", "C19") for k in found):
            stats["damaged_caught"] += 1
        else:
            stats["missed"].append(dict(opts=o, css=s, output=res["normal"], damaged=bad, span=span, found=sorted(found)))
    # 1b. damaged source maps
    stats.update(maps=0, maps_caught=0)
    for o, s, res in clean:
        m = res.get("map_normal") or []
        if len(m) < 2:
            continue
        k = rng.below(len(m))
        how = rng.below(4)
        m2 = [list(x) for x in m]
        if how == 0:
            del m2[k]                       # an entry is missing
        elif how == 1:
            m2[k][3] += 1 + rng.below(3)    # source column off
        elif how == 2:
            m2[k][1] += 1                   # generated column off
        else:
            m2[k][2] += 1                   # source line off
        r2 = {kk: v for kk, v in res.items() if not kk.startswith("_")}
        r2["map_normal"] = m2
        found = classes_of(o, r2, only="C19")
        stats["maps"] += 1
        if found:
            stats["maps_caught"] += 1
        else:
            stats["missed"].append(dict(opts=o, css=s, output=res["normal"], map=m, damaged_map=m2, how=how, k=k))
    # 2. checking against other options than the ones the output was made with
    for o, s, res in clean:
        r2 = {k: v for k, v in res.items() if not k.startswith("_")}
        has_class = '(delim "." ' in res["tokens_in"]
        has_rpx = '"rpx" ' in res["tokens_in"]
        if has_rpx:
            o2 = dict(o, rpx_ratio=o["rpx_ratio"] * 2)
            stats["opts"] += 1
            found = classes_of(o2, dict(r2))
            if any(k == ("C10", "rpx-wrong") for k in found):
                stats["opts_caught"] += 1
            else:
                stats["missed"].append(dict(opts=o, check_opts=o2, css=s, found=sorted(found)))
        if has_class and "selector" in "selector":
            o2 = dict(o, class_prefix=(o["class_prefix"] or "") + "zz")
            found = classes_of(o2, dict(r2))
            # only meaningful if a class selector (not `.5` or `a.b` in a value) exists: judged by C09 speaking up
            an = cssoracle.analyze(o2, dict(r2))
            n_class = sum(1 for e in cssoracle._walk_e(an.exp_n) if e.role == "class")
            if n_class:
                stats["opts"] += 1
                if any(k[0] == "C09" for k in found):
                    stats["opts_caught"] += 1
                else:
                    stats["missed"].append(dict(opts=o, check_opts=o2, css=s, found=sorted(found)))
    return stats


def main():
    args = [a for a in sys.argv[1:] if not a.startswith("--")]
    do_shrink = "--no-shrink" not in sys.argv
    n = int(args[0]) if len(args) > 0 else 2000
    seed = int(args[1]) if len(args) > 1 else 20260929
    rng = core.SplitMix64(seed)
    t0 = time.time()
    cases = []
    for i in range(n):
        r = rng.fork("css:%d" % i)
        css = cssgen.gen_stylesheet(r.fork("sheet"), 1 + r.below(6))
        cases.append((cssgen.gen_options(r.fork("opts")), css, i, "wf"))
    nm = max(1, n // 4)
    for i in range(nm):
        r = rng.fork("mut:%d" % i)
        base = cases[r.below(n)][1]
        cases.append((cssgen.gen_options(r.fork("opts")), cssgen.mutate(r.fork("m"), base), i, "mut"))
    t1 = time.time()
    answers = run_css([(o, s) for o, s, _, _ in cases])
    t2 = time.time()
    table = {}
    clean = []
    not_wf = 0
    for (o, s, i, kind), res in zip(cases, answers):
        if kind == "wf" and not is_well_formed(res):
            not_wf += 1
        probs = {"C01": cssoracle.check_c01(o, res)} if kind == "mut" else cssoracle.run_all(o, res)
        any_p = False
        for pid, ps in probs.items():
            for p in ps:
                any_p = True
                k = (pid, p["classification"])
                e = table.setdefault(k, dict(count=0, cases=set(), example=None))
                e["count"] += 1
                e["cases"].add((kind, i))
                if e["example"] is None or len(s) < len(e["example"][1]):
                    e["example"] = (o, s, p, kind)
        if not any_p and kind == "wf":
            clean.append((o, s, res))
    t3 = time.time()
    print("stylesheets: %d well-formed + %d mutated; generator produced %d inputs that are not well-formed; "
          "well-formed cases on which every check holds: %d" % (n, nm, not_wf, len(clean)))
    print("generate %.2fs  harness %.2fs (%.0f sheets/s)  oracles %.2fs (%.0f sheets/s)  end-to-end %.0f sheets/s"
          % (t1 - t0, t2 - t1, len(cases) / max(1e-9, t2 - t1), t3 - t2, len(cases) / max(1e-9, t3 - t2),
             len(cases) / max(1e-9, t3 - t0)))
    fi = fault_injection(clean[:400], rng.fork("fault"))
    print("fault injection: damaged outputs noticed %d/%d; damaged source maps noticed %d/%d; wrong-options noticed %d/%d"
          % (fi["damaged_caught"], fi["damaged"], fi["maps_caught"], fi["maps"], fi["opts_caught"], fi["opts"]))
    for m in fi["missed"][:5]:
        print("   MISSED: %s" % json.dumps(m, ensure_ascii=False)[:1500])
    nex, lines = check_examples()
    print("hand-written examples: %d/%d show their classification" % (nex, len(EXAMPLES)))
    print("\n".join(lines))
    print()
    print("%-5s %-82s %7s %6s" % ("prop", "classification", "count", "cases"))
    for (pid, cls), e in sorted(table.items()):
        print("%-5s %-82s %7d %6d" % (pid, cls, e["count"], len(e["cases"])))
    print()
    t4 = time.time()
    seen_families = set()
    for (pid, cls), e in sorted(table.items()):
        o, s, p, kind = e["example"]
        fam = (pid, family(cls))
        if do_shrink and fam not in seen_families:
            seen_families.add(fam)
            s2 = shrink(o, s, (pid, cls), kind == "wf")
            res = run_css([(o, s2)])[0]
            p = classes_of(o, res, kind == "wf").get((pid, cls), p)
            s = s2
        print("== %s %s" % (pid, cls))
        print("   what:    %s" % p["what"])
        for k in ("at", "expected", "got", "context"):
            if p.get(k) is not None:
                print("   %-8s %s" % (k + ":", json.dumps(p[k], ensure_ascii=False) if not isinstance(p[k], str) else p[k].replace("\n", "\\n")))
        print("   opts:    %s" % json.dumps(o, ensure_ascii=False))
        print("   css:     %s" % json.dumps(s if len(s) < 400 else s[:400] + "…", ensure_ascii=False))
    if do_shrink:
        print("(examples shrunk in %.1fs)" % (time.time() - t4))
    return 0


if __name__ == "__main__":
    sys.exit(main())
