"""C07 — binding-map fast path is sound and only offered where complete (DESIGN.md §9 C07)."""
import copy, json
from . import exprgen as eg, core, tmplgen as tg, render, update as up

THEOREMS = [
    "GE.BM.advertised_iff",
    "GE.BM.disabled_stays_disabled",
    "GE.BM.size_eq_count",
    "GE.BM.fstate_step",
]


DIRECTED_D0 = {"l": [{"k": "x"}, {"k": "y"}], "n": 0, "c": True, "a": "A", "b": "B", "d": None, "o": {"p": 1, "q": 2}, "k": "p", "f": {"$": "fn", "name": "id"}}
DIRECTED_FLIPS = {"n": [1], "c": [False, 0], "d": ["D", 0], "k": ["q"], "a": ["A2"], "b": ["B2"], "o": [{"p": 3, "q": 4}], "l": [[{"k": "z"}, {"k": "w"}]]}


def directed_templates():
    d = lambda n: ("data", n)
    exprs = [("smember", ("dmember", d("l"), d("n")), "k"), ("cond", d("c"), d("a"), d("b")), ("bin", "NullishCoalescing", d("d"), d("b")),
             ("dmember", d("o"), d("k")), ("bin", "Plus", ("dmember", d("o"), d("k")), ("cond", d("c"), d("a"), d("b"))),
             ("call", d("f"), [("dmember", d("o"), d("k"))])]
    fams = [("plain", "title"), ("plain", "hidden"), ("class", "class"), ("style", "style"), ("id", "id"), ("slot", "slot"), ("data-", "a-b"), ("data:", "xy"),
            ("mark:", "m"), ("model:", "value"), ("bind:", "tap"), ("change:", "prop")]
    out = []
    for e in exprs:
        try:
            eg.src(e, "min")
        except Exception:
            continue
        for fam, name in fams:
            if fam in ("model:",) and e[0] not in ("smember", "dmember", "cond"):
                continue
            for v in (("expr", e), ("mixed", [("s", "p"), ("e", e), ("s", "q")])):
                if v[0] == "mixed" and fam in ("model:", "bind:", "change:"):
                    continue
                out.append({"path": "p", "nodes": [("elem", "view", [(fam, name, v)], [])], "subs": {}, "modules": [], "slot_values": False, "src_modules": []})
        out.append({"path": "p", "nodes": [("elem", "view", [], [("text", ("expr", e))]), ("text", ("mixed", [("s", "t"), ("e", e)]))], "subs": {}, "modules": [],
                    "slot_values": False, "src_modules": []})
    # components whose property changes are queued and applied when the updaters move on to another node: every order of a component and its neighbours
    A = ("expr", d("a"))
    pieces = [("elem", "cmp-x", [("plain", "foo-bar", A)], []), ("elem", "view", [("plain", "title", A)], []), ("elem", "cmp-y", [("style", "style", A)], []),
              ("elem", "cmp-y", [("plain", "title", A), ("class", "class", A)], []), ("elem", "text", [], [("text", A)]),
              ("elem", "cmp-x", [("plain", "hover-class", A), ("plain", "value", ("mixed", [("s", "v"), ("e", d("a"))]))], [("elem", "cmp-x", [("plain", "x-1", A)], [])])]
    for i, p1 in enumerate(pieces):
        for j, p2 in enumerate(pieces):
            if i != j:
                out.append({"path": "p", "nodes": [p1, p2], "subs": {}, "modules": [], "slot_values": False, "src_modules": []})
            for k, p3 in enumerate(pieces):
                if i < j and k not in (i, j):
                    out.append({"path": "p", "nodes": [p1, p3, p2], "subs": {}, "modules": [], "slot_values": False, "src_modules": []})
    return out


def run(chk):
    quick = chk.tier != "thorough"
    chk.rule = ("(1) random operation sequences (add/disable/disable_all over a small field alphabet) through the real BindingMapCollector vs the model; "
                "(2) generated templates: for every advertised field f and several new values: create(D0); run exactly B[f] with D1 == create(D1) under the "
                "real runtime; and no field read in a dynamic subtree / structural position (computed independently from the abstract template) is advertised; "
                "non-trivial = template advertising at least one field")
    chk.trusted = ["Lean 4.33 kernel", "axioms ⊆ {propext, Classical.choice, Quot.sound}",
                   "GE/Model/BindingMap.lean tied to BindingMapCollector by differential runs through a cfg hook",
                   "independent use-site analysis in checklib/tmplgen.py (oracle)", "real ProcGenWrapper.bindingMapUpdate under node 22 with a stub backend"]
    chk.assumptions = ["PARTIAL: advertised_tag_iff (GE/Thm/C05Tag.lean): over the model of the whole parse-side traversal (tied to the implementation by corr:tag_scopes, which "
                       "this check re-runs, and by the advertised sets below), a data field is advertised iff the template has no include, the field occurs in no "
                       "structural value and in no value inside a wx:if / wx:for / template-is / slot element, and it occurs in some other value; advertised_iff etc. are "
                       "about the collector state machine. That the emitted updaters re-evaluate every occurrence is established by the oracle only"]
    chk.model_tie([("GE.Thm.C07", THEOREMS), ("GE.Thm.C05Tag", ["GE.TagScope.advertised_tag_iff", "GE.TagScope.opsOk_node", "GE.TagScope.run_main_eq_spec"]),
                   ("GE.Thm.C07Tag", ["GE.TagSem.bindmap_refines", "GE.TagSem.bm_renders", "GE.TagSem.renders_congr", "GE.TagSem.not_advertised_of_dynOccurs", "GE.TagSem.not_advertised_of_include"]),
                   ("GE.Thm.C07TagJson", ["GE.TagSem.json_bindmap_refines", "GE.TagSem.json_sameBut", "GE.TagSem.evalE_congr"])])
    rng = chk.rng.fork("c07")
    # the tag-level model (bindmap_refines is about it) vs the real compiler + runtime: advertised sets and the effect of the updaters of every field
    from . import tagsem
    tagsem.stream(chk, chk.rng.fork("tagsem7"), 120 if quick else 2500, bindmap=True)
    # ---- collector: model vs implementation -----------------------------------------------------
    reqs = []
    names = ["a", "b", "c", "é", "ab"]
    for i in range(1500 if quick else 30000):
        ops = []
        for _ in range(rng.below(9)):
            c = rng.below(12)
            ops.append("*" if c == 0 else ("d" if c < 4 else "a") + rng.choice(names))
        reqs.append(core.req("bmc", *ops))
    core.diff_streams(chk, "collector", reqs, core.run_harness(reqs), core.run_driver(reqs))
    # ---- oracle ----------------------------------------------------------------------------------
    n = 400 if quick else 8000
    ts, srcs = [], []
    for i in range(n):
        g = tg.TmplGen(rng.fork(("t", i)), max_depth=2 if i % 2 else 3, dyn=True)
        t = g.template()
        ts.append(t)
        srcs.append(tg.Printer().template(t))
    # directed: every attribute family (and text) x expressions with hoisted temporaries (index, condition, ?? operand) in the static part of
    # the tree, updated through the binding map of the field the temporary depends on
    ndirected = 0
    for t in directed_templates():
        ts.append(t)
        srcs.append(tg.Printer().template(t))
        ndirected += 1
    from .c05 import tag_scope_stream
    model_adv = tag_scope_stream(chk, srcs) or {}
    groups = render.compile_templates([[["p", s]] for s in srcs])
    reqs, meta = [], []
    for i, (t, g) in enumerate(zip(ts, groups)):
        if "panic" in g or not isinstance(g.get("gen_groups"), str):
            chk.violation("input", "compiler failed on generated template", template=srcs[i], answer=json.dumps(g)[:300])
            continue
        D0 = render.DATA_POOL[i % len(render.DATA_POOL)] if i < len(ts) - ndirected else DIRECTED_D0
        reqs.append({"op": "render", "gen_groups": g["gen_groups"], "path": "p", "steps": [{"create": D0}]})
        meta.append((i, D0))
    outs = core.run_node(reqs)
    reqs2, meta2 = [], []
    reqs3, meta3 = [], []
    for (i, D0), o in zip(meta, outs):
        if "snapshots" not in o or not o["snapshots"]:
            continue
        B = o["snapshots"][0].get("B") or []
        # the advertised set of the model of the traversal + collector (advertised_tag_iff is about this set) is the runtime's
        if srcs[i] in model_adv and core.MODEL_OK:
            chk.bump("corr:advertised-sets")
            if sorted(B) != model_adv[srcs[i]]:
                chk.violation("correspondence", f"advertised fields: the model of the traversal gives {model_adv[srcs[i]]}, the generated binding map has {sorted(B)}",
                              stream="advertised", template=srcs[i][:1500], model=model_adv[srcs[i]], real=sorted(B))
        reach, unreach, has_inc = tg.field_uses(ts[i])
        chk.case(("B", srcs[i]), nontrivial=len(B) > 0, sample=dict(template=srcs[i][:200], advertised=B) if B and len(chk.samples) < 3 and len(srcs[i]) < 200 else None)
        for f in B:
            if f in unreach or has_inc:
                chk.violation("input", f"field {f!r} is advertised in the binding map although it is read in a dynamic subtree / structural position",
                              template=srcs[i], field=f, advertised=B)
            if f not in reach:
                chk.violation("input", f"field {f!r} is advertised but never read in a statically reachable position", template=srcs[i], field=f)
        r = rng.fork(("v", i))
        for f in B:
            flips = DIRECTED_FLIPS.get(f, []) if D0 is DIRECTED_D0 else []
            for k in range(2 + len(flips)):
                D1 = dict(D0)
                D1[f] = copy.deepcopy(r.choice(up.LEAF_POOL)) if k < 2 else flips[k - 2]
                g = groups[i]
                reqs2.append({"op": "render", "gen_groups": g["gen_groups"], "path": "p", "steps": [{"create": D0}, {"bindmap": f, "D": D1}]})
                reqs2.append({"op": "render", "gen_groups": g["gen_groups"], "path": "p", "steps": [{"create": D1}]})
                meta2.append((i, f, D0, D1))
        # the runtime's own choice (updateMode ''): one changed field goes through the binding map when it is advertised and the map is usable,
        # else through the tree update; either way the result is a fresh creation's. Fields the map does not advertise are tried too.
        others = [f for f in sorted(D0) if f not in B and ("{{" in srcs[i]) and f in srcs[i]][:3]
        for f in list(B) + others:
            D1 = dict(D0)
            D1[f] = copy.deepcopy(r.choice(up.LEAF_POOL))
            reqs3.append({"op": "render", "gen_groups": groups[i]["gen_groups"], "path": "p", "updateMode": "",
                          "steps": [{"create": D0}, {"changes": [[[f], D1[f]]], "D": D1}]})
            reqs3.append({"op": "render", "gen_groups": groups[i]["gen_groups"], "path": "p", "steps": [{"create": D1}]})
            meta3.append((i, f, D0, D1, f in B))
    outs2 = core.run_node(reqs2) if reqs2 else []
    nb = 0
    for k, (i, f, D0, D1) in enumerate(meta2):
        a, b = outs2[2 * k], outs2[2 * k + 1]
        if "snapshots" not in b or not b["snapshots"]:
            continue
        chk.evaluations += 1
        if "error" in a or len(a.get("snapshots", [])) != 2:
            nb += 1
            if nb <= 3:
                chk.violation("input", f"binding-map update of {f!r} threw: {a.get('error')}", template=srcs[i], field=f, D0=D0, D1=D1)
            continue
        if a["snapshots"][1].get("ret") is not True and "<cmp-dyn" in srcs[i]:
            # content of a dynamic-slot component is created once per slot instance: the runtime switches the map off and falls back (sound)
            chk.bump("oracle:bindmap-off-dynamic-slots")
            continue
        if a["snapshots"][1].get("ret") is not True:
            chk.violation("input", f"bindingMapUpdate refused advertised field {f!r}", template=srcs[i], field=f)
            continue
        x, y = up.project_state(a["snapshots"][1]["tree"]), up.project_state(b["snapshots"][0]["tree"])
        if json.dumps(x) != json.dumps(y):
            nb += 1
            if nb <= 3:
                chk.violation("input", f"after running exactly the binding-map updaters of {f!r} the tree differs from a fresh creation",
                              template=srcs[i], field=f, D0=D0, D1=D1, updated=x, fresh=y)
    outs3 = core.run_node(reqs3) if reqs3 else []
    nb = 0
    for k, (i, f, D0, D1, adv) in enumerate(meta3):
        a, b = outs3[2 * k], outs3[2 * k + 1]
        if "snapshots" not in b or not b["snapshots"]:
            continue
        chk.evaluations += 1
        if "error" in a or len(a.get("snapshots", [])) != 2:
            nb += 1
            if nb <= 3:
                chk.violation("input", f"updateValues for the single field {f!r} threw: {a.get('error')}", template=srcs[i], field=f, D0=D0, D1=D1, mode="")
            continue
        via = (a["snapshots"][1].get("ret") or {}).get("via")
        chk.bump(f"oracle:single-change:{'advertised' if adv else 'other'}:{via}")
        x, y = up.project_state(a["snapshots"][1]["tree"]), up.project_state(b["snapshots"][0]["tree"])
        if json.dumps(x) != json.dumps(y):
            nb += 1
            if nb <= 3:
                chk.violation("input", f"after updateValues for the single field {f!r} (via {via}) the tree differs from a fresh creation",
                              template=srcs[i], field=f, D0=D0, D1=D1, updated=x, fresh=y, mode="")
    # <include>: the included file's bindings are out of the map's reach wherever the include stands (top level, inside wx:if / wx:for / block /
    # an element), so every field must lose its updaters; checked on the real map by running the updaters of whatever is still advertised
    inc_cases = []
    incs = {"i1": "<text>{{a}}!</text>", "i2": "<v title=\"{{b}}\">{{a}}{{c}}</v><include src=\"./i1\"/>"}
    for host in ('<include src="./i1"/>', '<block wx:if="{{c}}"><include src="./i1"/></block>', '<view wx:for="{{l}}"><include src="./i1"/></view>',
                 '<block><include src="./i1"/></block>', '<view><view><include src="./i2"/></view></view>', '<block wx:if="{{c}}"><block wx:if="{{b}}"><include src="./i2"/></block></block>',
                 '<template name="t"><include src="./i1"/></template><template is="t" data="{{a}}"/>'):
        for before in ('<view class="{{c}}">{{a}}</view>', '<v title="{{a}}{{b}}"/>', ''):
            inc_cases.append([["p", before + host + '<text>{{b}}</text>']] + [[k_, v_] for k_, v_ in incs.items()])
    igroups = render.compile_templates(inc_cases)
    D0i = {"a": "old", "b": "B", "c": True, "l": [1, 2]}
    ireqs, imeta = [], []
    for files, g in zip(inc_cases, igroups):
        if "panic" in g or not isinstance(g.get("gen_groups"), str):
            chk.violation("input", "compiler failed on an include template", template=files[0][1], answer=json.dumps(g)[:300])
            continue
        for f, v in (("a", "NEW"), ("b", "B2"), ("c", False), ("c", 0)):
            D1 = dict(D0i); D1[f] = v
            ireqs.append({"op": "render", "gen_groups": g["gen_groups"], "path": "p", "updateMode": "", "steps": [{"create": D0i}, {"changes": [[[f], v]], "D": D1}]})
            ireqs.append({"op": "render", "gen_groups": g["gen_groups"], "path": "p", "steps": [{"create": D1}]})
            imeta.append((files, f, D1))
    iouts = core.run_node(ireqs) if ireqs else []
    for k, (files, f, D1) in enumerate(imeta):
        a, b = iouts[2 * k], iouts[2 * k + 1]
        if "snapshots" not in b or not b["snapshots"]:
            continue
        chk.evaluations += 1
        if "error" in a or len(a.get("snapshots", [])) != 2:
            chk.violation("input", f"updateValues for {f!r} threw on an include template: {a.get('error')}", template=files[0][1], files=files, field=f)
            continue
        via = (a["snapshots"][1].get("ret") or {}).get("via")
        chk.bump(f"oracle:include:{via}")
        x, y = up.project_state(a["snapshots"][1]["tree"]), up.project_state(b["snapshots"][0]["tree"])
        if json.dumps(x) != json.dumps(y):
            chk.violation("input", f"template with <include>: after updateValues for the single field {f!r} (via {via}, advertised {a['snapshots'][0].get('B')}) the tree "
                          "differs from a fresh creation", template=files[0][1], files=files, field=f, D0=D0i, D1=D1, updated=x, fresh=y)
    chk.programs = len(meta2) + len(meta3) + len(imeta)
    chk.bump("oracle:bindmap-runs", len(meta2))
    chk.bump("oracle:single-change-runs", len(meta3))


def replay(chk, path):
    o = json.load(open(path))["first"]
    print(json.dumps(o)[:3000])
    return chk.finish()
