"""C11 — emitted l-value paths address exactly the value the expression reads (DESIGN.md §9 C11)."""
import re, json, copy
from . import core, exprgen as eg, render, tmplgen as tg

THEOREMS = [
    "GE.PA.path_denotes",
    "GE.PA.path_denotes_suffix",
    "GE.PA.reads_value",
    "GE.PA.not_assignable_no_path",
    "GE.PA.invalid_scope_no_path",
    "GE.PA.analyze_wf",
]

U = {"$": "undefined"}


# ---------------------------------------------------------------------------------------------------
# expressions: access chains mixed with things that are not assignable
def chain(rng, depth, roots, idx_pool, conds):
    """an expression tree that is mostly an access chain"""
    c = rng.below(12) if depth > 0 else rng.below(3)
    if c < 3:
        return rng.choice(roots)
    k = lambda: chain(rng, depth - 1, roots, idx_pool, conds)
    if c < 6:
        return ("smember", k(), rng.choice(["p", "q", "v", "sub", "b", "k", "g", "o", "f"]))
    if c < 8:
        return ("dmember", k(), rng.choice(idx_pool))
    if c < 10:
        return ("cond", rng.choice(conds), k(), k())
    if c == 10:
        return rng.choice([("int", 1), ("str", "s", '"'), ("bin", "Plus", k(), ("int", 1)), ("call", k(), []), ("un", "Reverse", k()),
                           ("arr", [("item", k())]), ("obj", [("named", "p", False, k())]), ("bin", "LogicOr", k(), k()), ("null",)])
    return ("cond", rng.choice(conds), k(), rng.choice([("int", 0), ("str", "", '"'), ("call", ("data", "fn"), [])]))


# ---------------------------------------------------------------------------------------------------
# independent reference: value of simple expressions and the location an expression reads
def truthy(v):
    if v is None or v is False or v == 0 or v == "" or v == U:
        return False
    if isinstance(v, float) and v != v:
        return False
    return True


def member(o, k):
    if isinstance(o, dict) and "$" not in o:
        if isinstance(k, bool) or k is None or isinstance(k, (dict, list)):
            return U
        kk = str(k) if not isinstance(k, float) else (str(int(k)) if k == int(k) else str(k))
        return o.get(kk, U)
    if isinstance(o, list):
        try:
            i = int(k) if not isinstance(k, bool) else -1
        except (TypeError, ValueError):
            return U
        if str(i) != str(k).strip() and not isinstance(k, int):
            return U
        return o[i] if 0 <= i < len(o) else U
    if isinstance(o, str) and isinstance(k, int) and not isinstance(k, bool):
        return o[k] if 0 <= k < len(o) else U
    return U


class Scope:
    def __init__(self, name, value, path):
        self.name, self.value, self.path = name, value, path   # path: general (tagged) path list or None


def value_of(t, D, scopes):
    """value of the simple expressions used as conditions and indexes (identifiers, literals, members, !x)"""
    k = t[0]
    if k == "data":
        for s in reversed(scopes):
            if s.name == t[1]:
                return s.value
        return D.get(t[1], U)
    if k == "int":
        return t[1]
    if k == "str":
        return t[1]
    if k == "bool":
        return t[1]
    if k == "null":
        return None
    if k == "smember":
        return member(value_of(t[1], D, scopes), t[2])
    if k == "dmember":
        return member(value_of(t[1], D, scopes), value_of(t[2], D, scopes))
    if k == "arr" and all(f[0] == "item" for f in t[1]):
        return [value_of(f[1], D, scopes) for f in t[1]]
    if k == "bin" and t[1] == "LogicOr":
        a = value_of(t[2], D, scopes)
        return a if truthy(a) else value_of(t[3], D, scopes)
    if k == "un" and t[1] == "Reverse":
        return not truthy(value_of(t[2], D, scopes))
    if k == "cond":
        return value_of(t[2] if truthy(value_of(t[1], D, scopes)) else t[3], D, scopes)
    raise ValueError("not simple: %r" % (t,))


def loc_of(t, D, scopes):
    """general (tagged) location the expression reads, or None"""
    k = t[0]
    if k == "data":
        for s in reversed(scopes):
            if s.name == t[1]:
                return s.path
        return [0, t[1]]
    if k == "smember":
        p = loc_of(t[1], D, scopes)
        return None if p is None else p + [t[2]]
    if k == "dmember":
        p = loc_of(t[1], D, scopes)
        return None if p is None else p + [value_of(t[2], D, scopes)]
    if k == "cond":
        return loc_of(t[2] if truthy(value_of(t[1], D, scopes)) else t[3], D, scopes)
    return None


def by_mode(p, mode):
    if p is None:
        return None
    if mode == "model":
        return p[1:] if p[0] == 0 else None
    if mode == "script":
        return p if p[0] in (1, 2) else None
    return p


def static_roots(t, scopes):
    """set of root tags the expression may statically have (over all branches)"""
    k = t[0]
    if k == "data":
        for s in reversed(scopes):
            if s.name == t[1]:
                return {s.path[0]} if s.path is not None else (set() if not getattr(s, "maybe", None) else set(s.maybe))
        return {0}
    if k in ("smember", "dmember"):
        return static_roots(t[1], scopes)
    if k == "cond":
        return static_roots(t[2], scopes) | static_roots(t[3], scopes)
    return set()


VIRTUAL = object()


def lookup(D, path):
    """value at a data path; VIRTUAL when the path runs through a number (wx:for over a number enumerates 0..n-1: those
    items exist only in the loop, the runtime still extends the list's path with the index)"""
    v = D
    for k in path:
        if isinstance(v, (int, float)) and not isinstance(v, bool):
            return VIRTUAL
        if isinstance(v, (str, bool)) and not (isinstance(k, int) and not isinstance(k, bool)):
            return VIRTUAL     # an inherited property of a primitive ("b".sub): not a data location
        v = member(v, k)
    return v


def canon_path(p):
    return None if p is None else [str(x) if not isinstance(x, bool) else x for x in p]


# ---------------------------------------------------------------------------------------------------
DATA = [
    {"a": {"b": {"c": 1, "p": "x"}, "k": "b", "p": {"q": 3}}, "l": [{"v": {"p": 5}, "sub": [{"q": 1}, {"q": 2}], "p": 1}, {"v": {"p": 6}, "sub": [], "p": 2}],
     "o": {"p": {"q": 2, "v": 9}, "q": {"q": 4}}, "i": "p", "n": 1, "c": 1, "z": 0, "k": "b", "s": "sub", "fn": {"$": "fn", "name": "id"}, "e": ""},
    {"a": {"b": {"c": 2, "p": "y"}, "k": "p", "p": {"q": 7}}, "l": [{"v": {"p": 1}, "sub": [{"q": 9}], "p": 3}],
     "o": {"p": {"q": 5, "v": 8}}, "i": "q", "n": 0, "c": 0, "z": 1, "k": "p", "s": "v", "fn": {"$": "fn", "name": "id"}, "e": "x"},
]
CONDS = [("data", "c"), ("data", "z"), ("un", "Reverse", ("data", "c")), ("smember", ("data", "a"), "k"), ("data", "e"), ("bool", True), ("int", 0)]
IDX = [("data", "i"), ("data", "n"), ("data", "k"), ("int", 0), ("str", "p", '"'), ("smember", ("data", "a"), "k"), ("data", "s")]
WXS_INLINE = "exports.f=function(){};exports.o={g:function(){},p:{q:function(){}}};exports.p={q:1}"
WXS_FILE = "exports.f=function(){};exports.o={g:function(){}};exports.p={q:2}"


def gen_template(rng):
    """(source, structure): nested wx:for loops around one element with model / event / change bindings"""
    depth = rng.below(4)
    roots = [("data", n) for n in ("a", "o", "l", "a", "o")] + [("data", "m"), ("data", "w")]
    loops = []
    names = []
    for d in range(depth):
        item, index = "it%d" % d, "ix%d" % d
        if rng.chance(1, 3):
            item, index = "item", "index"
        prev = names[-1][0] if names else None
        choices = [("data", "l"), ("data", "o"), ("smember", ("data", "a"), "b"), ("cond", rng.choice(CONDS), ("data", "l"), ("data", "o")),
                   ("cond", rng.choice(CONDS), ("data", "l"), ("int", 2)), ("cond", rng.choice(CONDS), ("arr", [("item", ("int", 1))]), ("data", "l")),
                   ("int", 2), ("bin", "LogicOr", ("data", "l"), ("data", "o")), ("dmember", ("data", "a"), ("data", "k")),
                   # lists that live in a script module, alone and mixed with a data list in a conditional (no item path may be a data path then)
                   ("smember", ("data", "m"), "o"), ("cond", rng.choice(CONDS), ("data", "l"), ("smember", ("data", "m"), "o")),
                   ("cond", rng.choice(CONDS), ("smember", ("data", "m"), "p"), ("data", "o"))]
        if prev:
            choices += [("smember", ("data", prev), "sub"), ("smember", ("data", prev), "v"), ("data", prev), ("dmember", ("data", prev), ("data", "s")),
                        ("cond", rng.choice(CONDS), ("smember", ("data", prev), "sub"), ("data", "l"))] * 2
        lst = rng.choice(choices)
        key = rng.choice([None, None, "p", "*this"])
        loops.append((lst, item, index, key))
        names.append((item, index))
    item_roots = [("data", n[0]) for n in names] * 3 + [("data", n[1]) for n in names]
    rs = roots + item_roots
    e_model = chain(rng, 3, rs, IDX + [("data", n[1]) for n in names], CONDS)
    e_event = chain(rng, 3, [("data", "m"), ("data", "w"), ("data", "m"), ("data", "w"), ("data", "a")] + item_roots[:1], IDX, CONDS)
    e_change = chain(rng, 2, [("data", "m"), ("data", "w"), ("data", "o")], IDX, CONDS)
    q = lambda t: eg.src(tg.requote(t, "'"), "min")      # attribute values are double-quoted
    src = '<wxs module="m">%s</wxs><wxs module="w" src="./x.wxs"/>' % WXS_INLINE
    for (lst, item, index, key) in loops:
        src += '<block wx:for="{{ %s }}" wx:for-item="%s" wx:for-index="%s"%s>' % (q(lst), item, index, "" if key is None else ' wx:key="%s"' % key)
    # (the bound property is usually `value`; names that look like legacy event attributes once camel-cased are two-way bindings all the same: round 12, C04-15)
    mname = rng.choice(["value", "value", "value", "on-off", "online", "binding"])
    src += '<input model:%s="{{ %s }}" bind:tap="{{ %s }}" change:prop="{{ %s }}"/>' % (mname, q(e_model), q(e_event), q(e_change))
    src += "</block>" * len(loops)
    return src, (loops, e_model, e_event, e_change)


def directed_templates():
    """conditionals nested as the HEAD of member chains at several levels, every combination of conditions (both branches of each level are
    taken under DATA[0] / DATA[1]), with static and dynamic trailing members at each level"""
    d = lambda n: ("data", n)
    sm = lambda o, k: ("smember", o, k)
    dm = lambda o, k: ("dmember", o, k)
    out = []
    conds = [d("c"), d("z"), d("e")]
    inner_tails = [lambda x: sm(x, "p"), lambda x: dm(x, d("i")), lambda x: sm(sm(x, "b"), "p"), lambda x: x]
    outer_tails = [lambda x: sm(x, "q"), lambda x: dm(x, d("i")), lambda x: dm(sm(x, "v"), ("str", "p", '"')), lambda x: x]
    for c1 in conds:
        for c2 in conds:
            for it in inner_tails:
                for ot in outer_tails:
                    inner = it(("cond", c2, d("a"), d("o")))
                    for e in (ot(("cond", c1, inner, sm(d("o"), "p"))), ot(("cond", c1, sm(d("a"), "p"), inner)),
                              ot(sm(("cond", c1, it(("cond", c2, it(("cond", c1, d("o"), d("a"))), d("a"))), d("o")), "p"))):
                        q = eg.src(tg.requote(e, "'"), "min")
                        src = '<wxs module="m">%s</wxs><wxs module="w" src="./x.wxs"/><input model:value="{{ %s }}" bind:tap="{{ m.f }}" change:prop="{{ m.f }}"/>' % (WXS_INLINE, q)
                        out.append((src, ([], e, sm(d("m"), "f"), sm(d("m"), "f"))))
    return out


def list_items(v):
    """[(item, index)] as the runtime enumerates a wx:for list"""
    if isinstance(v, list):
        return [(x, i) for i, x in enumerate(v)]
    if isinstance(v, dict) and "$" not in v:
        return [(x, k) for k, x in v.items()]
    if isinstance(v, str):
        return [(c, i) for i, c in enumerate(v)]
    if isinstance(v, int) and not isinstance(v, bool) and v >= 0:
        return [(i, i) for i in range(v)]
    return []


def expected_leaves(struct, D, path="p"):
    """for every rendered <input>, in document order: (model path, event path, change path, value of the model expression)"""
    loops, e_model, e_event, e_change = struct
    out = []
    FN_ = {"$": "fn"}
    # the values of the two script modules (WXS_INLINE, WXS_FILE)
    base = [Scope("m", {"f": FN_, "o": {"g": FN_, "p": {"q": FN_}}, "p": {"q": 1}}, [2, path, "m"]), Scope("w", {"f": FN_, "o": {"g": FN_}, "p": {"q": 2}}, [1, "x"])]

    def rec(d, scopes):
        if d == len(loops):
            out.append((by_mode(loc_of(e_model, D, scopes), "model"), by_mode(loc_of(e_event, D, scopes), "script"),
                        by_mode(loc_of(e_change, D, scopes), "script")))
            return
        lst, item, index, key = loops[d]
        try:
            v = value_of(lst, D, scopes)
        except ValueError:
            v = None   # list expression outside the simple fragment: only its location matters; such lists are given no items below
            return
        lp = loc_of(lst, D, scopes)
        roots = static_roots(lst, scopes)
        # the compiler drops the item path when it cannot tell statically whether the list is data or script
        if 0 in roots and (1 in roots or 2 in roots):
            lp = None
            roots = set()      # (dropped statically: expressions over the item have no root at all for the loops inside)
        for (x, i) in list_items(v):
            ip = None if lp is None else lp + [i]
            s_item = Scope(item, x, ip)
            s_item.maybe = roots
            rec(d + 1, scopes + [s_item, Scope(index, i, None)])

    rec(0, base)
    return out


def module_value_free(t):
    """conditions / indexes / lists must not need the VALUE of a script module"""
    return True


def collect_inputs(tree, out):
    for n in tree:
        if isinstance(n, dict):
            if n.get("tag") == "input":
                out.append(n)
            collect_inputs(n.get("children", []), out)
    return out


def template_data_getput(chk):
    """model: bindings inside a <template name> body: the emitted path is relative to the template's own data object, the runtime applies it to
    the host's data. Get-put on the real system: write a sentinel at the emitted path of the host data, render again, read what the binding shows."""
    SENT = "§sentinel§"
    D = {"a": "A", "b": "B", "o": {"p": "P", "q": {"k": "K"}}, "l": [{"p": 1}, {"p": 2}], "c": True}
    cases = []
    for data in ("a", "a, b", "...o", "a: a", "a: b", "a: o.p", "a: !a", "p: a", "o: o.q", "a: l[0].p", "a: c ? a : b", "...o.q, a"):
        for e in ("a", "p", "o.p", "k", "o.k"):
            cases.append(('<template name="t"><input model:value="{{ %s }}"/></template><template is="t" data="{{ %s }}"/>' % (e, data), e, data))
    groups = render.compile_templates([[["p", c[0]]] for c in cases])
    first = core.run_node([{"op": "render", "gen_groups": g["gen_groups"], "path": "p", "steps": [{"create": D}]} for g in groups])

    def the_input(o):
        t = (o.get("snapshots") or [{}])[0].get("tree") or []
        return collect_inputs(t, [])[0] if collect_inputs(t, []) else None

    reqs, meta = [], []
    for (src, e, data), g, o in zip(cases, groups, first):
        n = the_input(o)
        p = (n or {}).get("modelPaths", {}).get("value") if n else None
        chk.evaluations += 1
        if not isinstance(p, list):
            continue
        D2 = copy.deepcopy(D)
        cur = D2
        try:
            for k in p[:-1]:
                cur = cur[k]
            cur[p[-1]] = SENT
        except (KeyError, IndexError, TypeError):
            chk.violation("input", f"model:value inside <template name>: the emitted path {p} does not exist in the data (template data {data!r})",
                          template=src, classification="template-data-path")
            continue
        reqs.append({"op": "render", "gen_groups": g["gen_groups"], "path": "p", "steps": [{"create": D2}]})
        meta.append((src, e, data, p))
    outs = core.run_node(reqs) if reqs else []
    for (src, e, data, p), o in zip(meta, outs):
        n = the_input(o)
        got = (n or {}).get("attrs", {}).get("value") if n else None
        if got != SENT:
            chk.violation("input", f"model:value=\"{{{{ {e} }}}}\" inside <template name>, instantiated with data=\"{{{{ {data} }}}}\": after writing a sentinel at the "
                          f"emitted path {p} of the host's data the binding shows {json.dumps(got)}", template=src, path=p, classification="template-data-path")
    chk.bump("oracle:template-data-getput", len(meta))


def run(chk):
    quick = chk.tier != "thorough"
    chk.rule = ("(1) random access-chain expressions (members, indexes, nested conditionals, non-assignable operands) x scope configurations (invalid, "
                "item from data / not from data, file script, inline script): the three emitted paths and the two has-path flags, model vs implementation; "
                "(2) generated templates (nested wx:for over arrays / objects / conditionals / items' members, model: + event + change: bindings, file and "
                "inline script modules) rendered by the real runtime: every observed path equals the location computed independently from the "
                "expression and the data, the value found at the model path equals the value the binding delivered (get), and writing a sentinel there "
                "makes a re-evaluation deliver the sentinel (put); non-trivial = a binding that received a path")
    chk.trusted = ["Lean 4.33 kernel", "axioms ⊆ {propext, Classical.choice, Quot.sound}",
                   "GE/Model/LvaluePath.lean + PathAnalysis.lean tied to to_lvalue_path_arr / is_legal_lvalue_path by byte-equality of the emitted path texts through a cfg hook",
                   "independent location semantics in checklib/c11.py (oracle)", "real ProcGenWrapper under node 22 with a stub backend"]
    chk.assumptions = ["path_denotes: evaluating the emitted path expression yields exactly the location read by the expression (branch actually taken, "
                       "module and member for scripts, null iff not assignable in that mode), for every expression / scope configuration / environment; "
                       "reads_value: the model path looked up in the data is the expression's value. PARTIAL: the environment (values of hoisted "
                       "temporaries, item path = list path ++ [index] as threaded by F in proc_gen_wrapper.ts and ElementKind::For) is assumed in the "
                       "theorems and established by the oracle"]
    chk.model_tie([("GE.Thm.C11", THEOREMS), ("GE.Thm.C11Tag", ["GE.TagSem.model_paths_sound", "GE.TagSem.mpaths_sound", "GE.TagSem.loop_inv",
                                                                  "GE.TagSem.sub_binding_unsound"])], regen=False)
    rng = chk.rng.fork("c11")
    # ---- (1) model vs implementation ------------------------------------------------------------
    cases = []
    nsc = 3
    roots = [("data", "a"), ("data", "b")] + [("scope", i) for i in range(nsc)] * 2
    idx = [("data", "i"), ("int", 0), ("str", "k", '"'), ("scope", 1), ("smember", ("data", "a"), "k")]
    conds = [("data", "c"), ("scope", 2), ("bin", "Lt", ("data", "a"), ("int", 1)), ("bool", True)]
    for i in range(3000 if quick else 60000):
        t = chain(rng, 1 + i % 4, roots, idx, conds)
        sc = ",".join("%d:%d" % (rng.below(2), rng.below(5)) for _ in range(nsc))
        cases.append((t, sc))
    reqs = [core.req("expr", eg.src(t, "min"), sc, "0") for t, sc in cases]
    real = core.run_harness(reqs)
    dreqs, dreal = [], []
    for (t, sc), a in zip(cases, real):
        f = a.split("\t")
        if a.startswith("PANIC") or f[0] == "none" or len(f) < 13:
            chk.violation("input", f"expression {eg.src(t, 'min')!r} was not compiled: {a[:120]}", src=eg.src(t, "min"))
            continue
        dreqs.append(core.req("lvalue", core.unesc(f[0]), sc))
        dreal.append("\t".join(f[7:12]))
        chk.case((f[0], sc), nontrivial=core.unesc(f[9]) != "null")
    core.diff_streams(chk, "lvalue", dreqs, dreal, core.run_driver(dreqs))
    # ---- (2) oracle ---------------------------------------------------------------------------------
    n = 500 if quick else 10000
    tpls = [gen_template(rng.fork(("t", i))) for i in range(n)] + directed_templates()
    answers = core.run_harness([core.req("group", json.dumps({"files": [["p", src]], "scripts": [["x", WXS_FILE]]})) for src, _ in tpls])
    rreqs, meta = [], []
    for i, ((src, st), a) in enumerate(zip(tpls, answers)):
        if a.startswith("PANIC"):
            chk.violation("input", "compiler panicked on generated template", template=src, answer=a[:300])
            continue
        g = json.loads(a)
        for di, D in enumerate(DATA):
            rreqs.append({"op": "render", "gen_groups": g["gen_groups"], "path": "p", "steps": [{"create": D}]})
            meta.append((i, di))
    outs = core.run_node(rreqs)
    nbad = 0
    put_reqs, put_meta = [], []
    for (i, di), o in zip(meta, outs):
        src, st = tpls[i]
        D = DATA[di]
        if "error" in o and re.search(r"TypeError: \w+\.prototype\.\w+ called on null or undefined", str(o.get("error"))) and "()" in src:
            # an event-handler expression that CALLS an inherited method of a primitive ("x".sub) as a plain function: JavaScript throws
            # this TypeError too (the property asks for plain-function calls); not a verdict about paths (false alarm of thorough seed 41)
            chk.bump("oracle:builtin-method-called-as-plain-function")
            continue
        if "error" in o or not o.get("snapshots"):
            nbad += 1
            if nbad <= 4:
                chk.violation("input", f"rendering threw: {o.get('error')}", template=src, data=D)
            continue
        try:
            exp = expected_leaves(st, D)
        except ValueError:
            chk.bump("oracle:skipped-outside-simple-fragment")
            continue
        got = collect_inputs(o["snapshots"][0]["tree"], [])
        if len(got) != len(exp):
            nbad += 1
            if nbad <= 4:
                chk.violation("input", f"{len(got)} elements rendered, {len(exp)} expected from the list data", template=src, data=D)
            continue
        for li, (n_, (pm, pe, pc)) in enumerate(zip(got, exp)):
            om = (n_.get("modelPaths") or {}).get(mkey(src))
            oe = None
            for c in n_.get("log", []):
                if c[0] == "v" and c[1] == "tap":
                    oe = c[7] if len(c) > 7 else None
            oc = None
            for c in n_.get("log", []):
                if c[0] == "p" and c[1] == "prop":
                    oc = c[3] if len(c) > 3 else None
            chk.case((src, di, li), nontrivial=pm is not None or pe is not None or pc is not None)
            for what, want, have in (("model:value", pm, om), ("bind:tap", pe, oe), ("change:prop", pc, oc)):
                if canon_path(want) != canon_path(have):
                    nbad += 1
                    if nbad <= 6:
                        chk.violation("input", f"{what}: emitted path {json.dumps(have)} but the expression reads {json.dumps(want)} (element #{li})",
                                      template=src, data=D, binding=what, expected=want, got=have)
            if om is not None and isinstance(om, list):
                # get: the value at the path is the value the binding delivered
                delivered = (n_.get("attrs") or {}).get(mkey(src), U)
                at = lookup(D, om)
                if at is VIRTUAL:
                    chk.bump("oracle:get-skipped-not-a-data-location")
                elif json.dumps(at, sort_keys=True) != json.dumps(delivered, sort_keys=True):
                    nbad += 1
                    if nbad <= 6:
                        chk.violation("input", f"model:value path {json.dumps(om)} holds {json.dumps(at)[:80]} but the binding delivered {json.dumps(delivered)[:80]}",
                                      template=src, data=D, binding="get", got=om)
    # ---- (3) the same after an update of one field: through the update-path tree and through the binding map ------
    ureqs, umeta = [], []
    k = -1
    for (i, di), o in zip(meta, outs):
        src, st = tpls[i]
        if di != 0 or "error" in o or not o.get("snapshots"):
            continue
        D0 = DATA[0]
        B = o["snapshots"][0].get("B") or []
        for f in ("i", "k", "c", "z", "n", "s", "e"):
            if f not in src:
                continue
            D1 = dict(D0)
            D1[f] = DATA[1][f]
            g = json.loads(answers[i])
            ureqs.append({"op": "render", "gen_groups": g["gen_groups"], "path": "p", "steps": [{"create": D0}, {"update": D1, "U": {f: True}}]})
            umeta.append((i, f, D1, "update"))
            if f in B:
                ureqs.append({"op": "render", "gen_groups": g["gen_groups"], "path": "p", "steps": [{"create": D0}, {"bindmap": f, "D": D1}]})
                umeta.append((i, f, D1, "binding-map"))
    uouts = core.run_node(ureqs) if ureqs else []
    for (i, f, D1, how), o in zip(umeta, uouts):
        src, st = tpls[i]
        if "error" in o and re.search(r"TypeError: \w+\.prototype\.\w+ called on null or undefined", str(o.get("error"))) and "()" in src:
            # (an event-handler expression that calls an inherited method of a primitive as a plain function: JavaScript throws too)
            chk.bump("oracle:builtin-method-called-as-plain-function")
            continue
        if "error" in o or len(o.get("snapshots", [])) != 2:
            nbad += 1
            if nbad <= 6:
                chk.violation("input", f"{how} of field {f} threw: {o.get('error')}", template=src, data=D1, field=f)
            continue
        try:
            exp = expected_leaves(st, D1)
        except ValueError:
            continue
        got = collect_inputs(o["snapshots"][1]["tree"], [])
        if len(got) != len(exp):
            continue        # the list itself changed shape: C06's subject
        for li, (n_, (pm, pe, pc)) in enumerate(zip(got, exp)):
            om = (n_.get("modelPaths") or {}).get(mkey(src))
            chk.case((src, f, how, li), nontrivial=pm is not None)
            if canon_path(pm) != canon_path(om):
                nbad += 1
                if nbad <= 6:
                    chk.violation("input", f"after a {how} of field {f}: model:value path is {json.dumps(om)} but the expression now reads {json.dumps(pm)}",
                                  template=src, data=D1, field=f, how=how, expected=pm, got=om)
    chk.bump("oracle:update-steps", len(umeta))
    chk.bump("oracle:templates", len(tpls))
    chk.bump("oracle:path-mismatches", nbad)
    template_data_getput(chk)
    # the tag-level model (mpaths_sound is about it) vs the real compiler + runtime: the path of every model: binding after creation and after
    # every update, in document order
    from . import tagsem
    tagsem.stream(chk, chk.rng.fork("tagsem11"), 250 if quick else 5000, paths=True)


def mkey(src):
    """the property a generated template binds with `model:` (camel-cased, as the generated code names it)"""
    m = re.search(r"model:([A-Za-z-]+)=", src)
    nm = m.group(1) if m else "value"
    return re.sub(r"-([a-z])", lambda x: x.group(1).upper(), nm)


def replay(chk, path):
    o = json.load(open(path))["first"]
    if "template" in o:
        a = json.loads(core.run_harness([core.req("group", json.dumps({"files": [["p", o["template"]]], "scripts": [["x", WXS_FILE]]}))])[0])
        r = core.run_node([{"op": "render", "gen_groups": a["gen_groups"], "path": "p", "steps": [{"create": o["data"]}]}])[0]
        print(json.dumps(r)[:3000])
    return chk.finish()
