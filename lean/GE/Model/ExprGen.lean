import GE.Model.Expr
import GE.Model.VarName
import GE.Model.JsLit
import GE.Spec.JsGrammar
import GE.Extracted.ExprTables
/-!
Model of `Expression::to_proc_gen_rec` (`proc_gen/expr.rs`): the value expression, the hoisted
`var $x=…` statements and the private identifier counter.  The generator returns the emitted
*tokens* (whose spellings concatenate to the exact Rust output) together with the JavaScript tree
they are meant to denote; `GE.Thm.C02Expr` proves the two agree under the ECMAScript grammar.
Levels and the unary/binary arms come from tables regenerated from the Rust source.
-/
namespace GE.Gen
open GE.Spec GE.Extracted

/-! ### extracted tables, interpreted -/

def levelIdx (name : String) : Nat := levelNames.idxOf name

/-- `proc_gen_expression_level` -/
def procGenLevelOfKind (kind : String) : Nat :=
  match procGenLevels.lookup kind with
  | some l => levelIdx l
  | none => 99

/-- `ExpressionLevel::from_expression` (the stringifier's table) -/
def stringifyLevelOfKind (kind : String) : Nat :=
  match stringifyLevels.lookup kind with
  | some l => levelIdx l
  | none => 99

def condLevel : Nat := levelIdx "Cond"

def unArm (op : UnOp) : String × Nat :=
  match unArmTable.lookup op.name with
  | some (t, l) => (t, levelIdx l)
  | none => ("?", 0)

def binArm (op : BinOp) : Nat × String × Nat :=
  match binArmTable.lookup op.name with
  | some (l, t, r) => (levelIdx l, t, levelIdx r)
  | none => (0, "?", 0)

def lvl (e : Expr) : Nat := procGenLevelOfKind e.kind

/-! ### scopes -/

structure ScopeInfo where
  var : String
  tree : Option String
  /-- 0 invalid, 1 var from data scope, 2 var not from data scope, 3 script, 4 inline script -/
  lv : Nat
  lvName : String
  absPath : String
  modName : String
deriving Repr, Inhabited

/-- what indexing `scopes[i]` out of range does in the model: an identifier no program contains
(the real code panics there; see `scopesInRange`) -/
def ScopeInfo.bad : ScopeInfo := ⟨"<out-of-range>", none, 0, "", "", ""⟩

def scopeAt (scopes : List ScopeInfo) (i : Nat) : ScopeInfo := scopes.getD i .bad

mutual
/-- every `ScopeRef` index is below `n` (otherwise `scopes[*index]` panics) -/
def scopesInRange (n : Nat) : Expr → Bool
  | .scope i => i < n
  | .data _ | .undef | .null | .str _ | .int _ | .float _ | .bool _ => true
  | .toStr e => scopesInRange n e
  | .obj fs => scopesInRangeObj n fs
  | .arr fs => scopesInRangeArr n fs
  | .smember o _ => scopesInRange n o
  | .dmember o f => scopesInRange n o && scopesInRange n f
  | .call f args => scopesInRange n f && scopesInRangeList n args
  | .un _ e => scopesInRange n e
  | .bin _ l r => scopesInRange n l && scopesInRange n r
  | .cond c t f => scopesInRange n c && scopesInRange n t && scopesInRange n f
def scopesInRangeList (n : Nat) : Exprs → Bool
  | .nil => true
  | .cons e r => scopesInRange n e && scopesInRangeList n r
def scopesInRangeObj (n : Nat) : ObjFields → Bool
  | .nil => true
  | .named _ _ v r => scopesInRange n v && scopesInRangeObj n r
  | .spread v r => scopesInRange n v && scopesInRangeObj n r
def scopesInRangeArr (n : Nat) : ArrFields → Bool
  | .nil => true
  | .item v r => scopesInRange n v && scopesInRangeArr n r
  | .spread v r => scopesInRange n v && scopesInRangeArr n r
  | .hole r => scopesInRangeArr n r
end

/-! ### output -/

/-- a hoisted statement `var name=init` -/
structure Stmt where
  name : String
  js : Js
  toks : List Tok

structure Out where
  toks : List Tok
  js : Js
  stmts : List Stmt
  next : Nat

/-- output of an object / array literal body: tokens of the current `{…}` / `[…]` segment and of
everything after it, the fields of the current segment, the remaining `Object.assign` /
`concat` arguments -/
structure ObjOut where
  toks : List Tok
  seg : JsFields
  rest : JsList
  hasSpread : Bool
  stmts : List Stmt
  next : Nat

structure ArrOut where
  toks : List Tok
  seg : JsItems
  rest : JsList
  hasSpread : Bool
  stmts : List Stmt
  next : Nat

structure ArgsOut where
  toks : List Tok
  js : JsList
  stmts : List Stmt
  next : Nat

def privName (n : Nat) : String := String.ofList (GE.VarName.privateName n)

def idTok (s : String) : Tok := .id s
def p (s : String) : Tok := .p s

def callJs (f : String) (a : Js) : Js := .call (.id f) (.cons a .nil)

/-- the literal text of a float: Rust `Display`, except that infinities print as `Infinity` -/
def floatToks (t : String) : List Tok × Js :=
  if t = "inf" ∨ t = "-inf" then ([.id "Infinity"], .id "Infinity") else ([.num t], .num t)

def objNeedsComma : ObjFields → Bool
  | .named .. => true
  | _ => false

def arrNeedsComma : ArrFields → Bool
  | .item .. | .hole .. => true
  | _ => false

def argsNeedComma : Exprs → Bool
  | .cons .. => true
  | .nil => false

mutual
/-- the arm bodies of `to_proc_gen_rec` (everything after the parenthesising rule) -/
def genBody (scopes : List ScopeInfo) (e : Expr) (n : Nat) : Out :=
  match e with
  | .scope i => ⟨[.id (scopeAt scopes i).var], .id (scopeAt scopes i).var, [], n⟩
  | .data x => ⟨[.id "D", .p ".", .id x], .member (.id "D") x, [], n⟩
  | .toStr x =>
    let o := gen scopes x condLevel n
    ⟨.id "Y" :: .p "(" :: (o.toks ++ [.p ")"]), callJs "Y" o.js, o.stmts, o.next⟩
  | .undef => ⟨[.id "undefined"], .id "undefined", [], n⟩
  | .null => ⟨[.id "null"], .id "null", [], n⟩
  | .str s => ⟨[.str s], .str s, [], n⟩
  | .int v => ⟨[.num (toString v)], .num (toString v), [], n⟩
  | .float t => ⟨(floatToks t).1, (floatToks t).2, [], n⟩
  | .bool b => ⟨[.id (toString b)], .id (toString b), [], n⟩
  | .obj fs =>
    let o := genObj scopes fs n
    if o.hasSpread then
      ⟨.id "Object" :: .p "." :: .id "assign" :: .p "(" :: .p "{" :: (o.toks ++ [.p "}", .p ")"]),
        .call (.member (.id "Object") "assign") (.cons (.obj o.seg) o.rest), o.stmts, o.next⟩
    else ⟨.p "{" :: (o.toks ++ [.p "}"]), .obj o.seg, o.stmts, o.next⟩
  | .arr fs =>
    let o := genArr scopes fs n
    if o.hasSpread then
      ⟨.p "[" :: .p "]" :: .p "." :: .id "concat" :: .p "(" :: .p "[" :: (o.toks ++ [.p "]", .p ")"]),
        .call (.member (.arr .nil) "concat") (.cons (.arr o.seg) o.rest), o.stmts, o.next⟩
    else ⟨.p "[" :: (o.toks ++ [.p "]"]), .arr o.seg, o.stmts, o.next⟩
  | .smember o f =>
    let oo := gen scopes o condLevel n
    ⟨.id "X" :: .p "(" :: (oo.toks ++ [.p ")", .p ".", .id f]), .member (callJs "X" oo.js) f,
      oo.stmts, oo.next⟩
  | .dmember o f =>
    let ident := privName n
    let of := gen scopes f condLevel (n + 1)
    let oo := gen scopes o condLevel of.next
    ⟨.id "X" :: .p "(" :: (oo.toks ++ [.p ")", .p "[", .id ident, .p "]"]),
      .index (callJs "X" oo.js) (.id ident),
      of.stmts ++ ⟨ident, of.js, of.toks⟩ :: oo.stmts, oo.next⟩
  | .call f args =>
    let of := gen scopes f condLevel n
    let oa := genArgs scopes args of.next
    ⟨.id "P" :: .p "(" :: (of.toks ++ .p ")" :: .p "(" :: (oa.toks ++ [.p ")"])),
      .call (callJs "P" of.js) oa.js, of.stmts ++ oa.stmts, oa.next⟩
  | .un op x =>
    let o := gen scopes x (unArm op).2 n
    ⟨.p (unArm op).1 :: o.toks, .un op o.js, o.stmts, o.next⟩
  | .bin op x y =>
    if op = .NullishCoalescing then
      let ident := privName n
      let ox := gen scopes x condLevel (n + 1)
      let oy := gen scopes y condLevel ox.next
      ⟨.id ident :: .p "!=" :: .id "null" :: .p "?" :: .id ident :: .p ":" :: oy.toks,
        .cond (.bin .Ne (.id ident) (.id "null")) (.id ident) oy.js,
        ox.stmts ++ ⟨ident, ox.js, ox.toks⟩ :: oy.stmts, oy.next⟩
    else
      let ox := gen scopes x (binArm op).1 n
      let oy := gen scopes y (binArm op).2.2 ox.next
      ⟨ox.toks ++ .p (binArm op).2.1 :: oy.toks, .bin op ox.js oy.js, ox.stmts ++ oy.stmts, oy.next⟩
  | .cond c t f =>
    let ident := privName n
    let oc := gen scopes c condLevel (n + 1)
    let ot := gen scopes t condLevel oc.next
    let ofl := gen scopes f condLevel ot.next
    ⟨.id ident :: .p "?" :: (ot.toks ++ .p ":" :: ofl.toks), .cond (.id ident) ot.js ofl.js,
      oc.stmts ++ ⟨ident, oc.js, oc.toks⟩ :: (ot.stmts ++ ofl.stmts), ofl.next⟩
/-- `to_proc_gen_rec`: parenthesise when the expression's level exceeds the allowed one -/
def gen (scopes : List ScopeInfo) (e : Expr) (allow : Nat) (n : Nat) : Out :=
  if lvl e > allow then
    let o := genBody scopes e n
    ⟨.p "(" :: (o.toks ++ [.p ")"]), o.js, o.stmts, o.next⟩
  else genBody scopes e n
def genArgs (scopes : List ScopeInfo) (args : Exprs) (n : Nat) : ArgsOut :=
  match args with
  | .nil => ⟨[], .nil, [], n⟩
  | .cons e r =>
    let o := gen scopes e condLevel n
    let orr := genArgs scopes r o.next
    ⟨o.toks ++ (if argsNeedComma r then [.p ","] else []) ++ orr.toks, .cons o.js orr.js,
      o.stmts ++ orr.stmts, orr.next⟩
def genObj (scopes : List ScopeInfo) (fs : ObjFields) (n : Nat) : ObjOut :=
  match fs with
  | .nil => ⟨[], .nil, .nil, false, [], n⟩
  | .named k _ v r =>
    let o := gen scopes v condLevel n
    let orr := genObj scopes r o.next
    ⟨.id k :: .p ":" :: (o.toks ++ (if objNeedsComma r then [.p ","] else []) ++ orr.toks),
      .field k o.js orr.seg, orr.rest, orr.hasSpread, o.stmts ++ orr.stmts, orr.next⟩
  | .spread v r =>
    let o := gen scopes v condLevel n
    let orr := genObj scopes r o.next
    ⟨.p "}" :: .p "," :: .id "X" :: .p "(" :: (o.toks ++ .p ")" :: .p "," :: .p "{" :: orr.toks),
      .nil, .cons (callJs "X" o.js) (.cons (.obj orr.seg) orr.rest), true,
      o.stmts ++ orr.stmts, orr.next⟩
def genArr (scopes : List ScopeInfo) (fs : ArrFields) (n : Nat) : ArrOut :=
  match fs with
  | .nil => ⟨[], .nil, .nil, false, [], n⟩
  | .item v r =>
    let o := gen scopes v condLevel n
    let orr := genArr scopes r o.next
    ⟨o.toks ++ (if arrNeedsComma r then [.p ","] else []) ++ orr.toks,
      .item o.js orr.seg, orr.rest, orr.hasSpread, o.stmts ++ orr.stmts, orr.next⟩
  | .hole r =>
    let orr := genArr scopes r n
    ⟨.p "," :: orr.toks, .hole orr.seg, orr.rest, orr.hasSpread, orr.stmts, orr.next⟩
  | .spread v r =>
    let o := gen scopes v condLevel n
    let orr := genArr scopes r o.next
    ⟨.p "]" :: .p "," :: (o.toks ++ .p "," :: .p "[" :: orr.toks),
      .nil, .cons o.js (.cons (.arr orr.seg) orr.rest), true, o.stmts ++ orr.stmts, orr.next⟩
end

/-! ### spelling -/

def jsLitStr (s : String) : String := String.ofList (GE.JsLit.genLitStr s.toList)

def Tok.spell : Tok → String
  | .p s => s
  | .id s => s
  | .num s => s
  | .str s => jsLitStr s

def spellAll (ts : List Tok) : String := String.join (ts.map Tok.spell)

/-- the text `w.expr_stmt` writes for a hoisted statement -/
def Stmt.spell (s : Stmt) : String := "var " ++ s.name ++ "=" ++ spellAll s.toks

/-- hoisted statements as written into the function scope (first statement, `;`-separated) -/
def spellStmts (ss : List Stmt) : String := String.intercalate ";" (ss.map Stmt.spell)

/-- `to_proc_gen_prepare` -/
def prepare (scopes : List ScopeInfo) (e : Expr) : Out := gen scopes e condLevel 0

/-- `above_cond_expr` -/
def aboveCond (e : Expr) : Bool := lvl e ≥ condLevel

end GE.Gen
