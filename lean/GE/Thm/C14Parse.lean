/-
C14 / C03 — the expression parser reads the printed expression back as the same tree.

`parse_print`: for every printable expression `e`, the token-level parser model (`GE/Model/ExprParse.lean`,
tied to `parse/expr.rs` by differential runs on ~10k sources per run) applied to the tokens the printer model
writes for `e` (`GE.Str.strExpr`, tied to `stringify/expr.rs`) returns `norm e` and consumes every token — for
every fuel above a bound that depends on `e`.  `norm e` is `e` with scope references read as identifiers
(the parser produces data fields; `convert_scopes` is C05's subject), numeric literals passed through the
number reader (`Cfg.numOf`, C01's subject) and the shorthand flag of object fields as the parser sets it.
Together with `mixture_roundtrip` (whose hypothesis `POk` this discharges at the token level) and
`str_derives`, printing followed by parsing is the identity on binding expressions: parenthesisation by
`ExpressionLevel` is not only sufficient to derive the tree in the grammar, the parser's own precedence
climbing finds it.
-/
import GE.Model.ExprParse
import GE.Thm.C14Expr

namespace GE.Parse
open GE.Spec (Tok spells unText binText)
open GE.SpecW (wLevel)

variable (c : Cfg)

/-! ## "for every sufficient fuel" -/

def PT (L : Nat) (t : List Tok) (res : Expr × List Tok) : Prop := ∃ n, ∀ m, n ≤ m → parseL c m L t = some res
def CT (L : Nat) (x : Expr) (t : List Tok) (res : Expr × List Tok) : Prop := ∃ n, ∀ m, n ≤ m → contAt c m L x t = some res
def PA (t : List Tok) (res : Exprs × List Tok) : Prop := ∃ n, ∀ m, n ≤ m → parseArgs c m t = some res
def PI (t : List Tok) (res : ArrFields × List Tok) : Prop := ∃ n, ∀ m, n ≤ m → parseItems c m t = some res
def PF (t : List Tok) (res : ObjFields × List Tok) : Prop := ∃ n, ∀ m, n ≤ m → parseFields c m t = some res

/-! ### unfolding equations -/

theorem parseL_succ_fuel (n L : Nat) (t : List Tok) : parseL c (n + 1) L t =
    if L = 0 then
      (match t with
       | .id s :: r => some (kwOr s, r)
       | .num s :: r => some (c.numOf s, r)
       | .str s :: r => some (.str s, r)
       | .p s :: r =>
         if s = "(" then
           (match parseL c n 13 r with
            | some (x, .p s' :: r') => if s' = ")" then some (x, r') else none
            | _ => none)
         else if s = "[" then
           (match parseItems c n r with
            | some (fs, .p s' :: r') => if s' = "]" then some (.arr fs, r') else none
            | _ => none)
         else if s = "{" then
           (match parseFields c n r with
            | some (fs, .p s' :: r') => if s' = "}" then some (.obj fs, r') else none
            | _ => none)
         else none
       | [] => none)
    else if L = 2 then
      (match t with
       | .p s :: r =>
         (match unOpOf s with
          | some op =>
            (match parseL c n 2 r with
             | some (x, r') => some (.un op x, r')
             | none => none)
          | none => parseL c n 1 t)
       | _ => parseL c n 1 t)
    else
      (match parseL c n (L - 1) t with
       | some (x, r) => contAt c n L x r
       | none => none) := by
  conv => lhs; unfold parseL
  rfl

theorem contAt_succ_fuel (n L : Nat) (x : Expr) (t : List Tok) : contAt c (n + 1) L x t =
    if L = 1 then
      (match t with
       | .p s :: r =>
         if s = "." then
           (match r with
            | .id f :: r' => contAt c n 1 (.smember x f) r'
            | _ => none)
         else if s = "[" then
           (match parseL c n 13 r with
            | some (i, .p s' :: r') => if s' = "]" then contAt c n 1 (.dmember x i) r' else none
            | _ => none)
         else if s = "(" then
           (match parseArgs c n r with
            | some (as, .p s' :: r') => if s' = ")" then contAt c n 1 (.call x as) r' else none
            | _ => none)
         else some (x, t)
       | _ => some (x, t))
    else if L = 13 then
      (match t with
       | .p s :: r =>
         if s = "?" then
           (match parseL c n 13 r with
            | some (a, .p s' :: r') =>
              if s' = ":" then
                (match parseL c n 13 r' with
                 | some (b, r'') => some (.cond x a b, r'')
                 | none => none)
              else none
            | _ => none)
         else some (x, t)
       | _ => some (x, t))
    else
      (match t with
       | .p s :: r =>
         (match binOpAt L s with
          | some op =>
            (match parseL c n (L - 1) r with
             | some (y, r') => contAt c n L (.bin op x y) r'
             | none => none)
          | none => some (x, t))
       | _ => some (x, t)) := by
  conv => lhs; unfold contAt
  rfl

/-! ### rules: the parser's equations, for every sufficient fuel -/

theorem pt_id (s : String) (r : List Tok) : PT c 0 (.id s :: r) (kwOr s, r) :=
  ⟨1, fun m hm => by obtain ⟨m', rfl⟩ : ∃ m', m = m' + 1 := ⟨m - 1, by omega⟩; rw [parseL_succ_fuel]; simp⟩
theorem pt_num (s : String) (r : List Tok) : PT c 0 (.num s :: r) (c.numOf s, r) :=
  ⟨1, fun m hm => by obtain ⟨m', rfl⟩ : ∃ m', m = m' + 1 := ⟨m - 1, by omega⟩; rw [parseL_succ_fuel]; simp⟩
theorem pt_str (s : String) (r : List Tok) : PT c 0 (.str s :: r) (.str s, r) :=
  ⟨1, fun m hm => by obtain ⟨m', rfl⟩ : ∃ m', m = m' + 1 := ⟨m - 1, by omega⟩; rw [parseL_succ_fuel]; simp⟩

theorem pt_paren {t r : List Tok} {x : Expr} (h : PT c 13 t (x, .p ")" :: r)) : PT c 0 (.p "(" :: t) (x, r) := by
  obtain ⟨n, hn⟩ := h
  refine ⟨n + 1, fun m hm => ?_⟩
  obtain ⟨m', rfl⟩ : ∃ m', m = m' + 1 := ⟨m - 1, by omega⟩
  rw [parseL_succ_fuel]
  simp [hn m' (by omega)]

theorem pt_arr {t r : List Tok} {fs : ArrFields} (h : PI c t (fs, .p "]" :: r)) : PT c 0 (.p "[" :: t) (.arr fs, r) := by
  obtain ⟨n, hn⟩ := h
  refine ⟨n + 1, fun m hm => ?_⟩
  obtain ⟨m', rfl⟩ : ∃ m', m = m' + 1 := ⟨m - 1, by omega⟩
  rw [parseL_succ_fuel]
  simp [hn m' (by omega)]

theorem pt_obj {t r : List Tok} {fs : ObjFields} (h : PF c t (fs, .p "}" :: r)) : PT c 0 (.p "{" :: t) (.obj fs, r) := by
  obtain ⟨n, hn⟩ := h
  refine ⟨n + 1, fun m hm => ?_⟩
  obtain ⟨m', rfl⟩ : ∃ m', m = m' + 1 := ⟨m - 1, by omega⟩
  rw [parseL_succ_fuel]
  simp [hn m' (by omega)]

/-- one level up: the operand, then that level's continuation -/
theorem pt_up {L : Nat} {t r : List Tok} {x : Expr} {res : Expr × List Tok} (h0 : L ≠ 0) (h2 : L ≠ 2)
    (h : PT c (L - 1) t (x, r)) (hc : CT c L x r res) : PT c L t res := by
  obtain ⟨n1, hn1⟩ := h
  obtain ⟨n2, hn2⟩ := hc
  refine ⟨max n1 n2 + 1, fun m hm => ?_⟩
  obtain ⟨m', rfl⟩ : ∃ m', m = m' + 1 := ⟨m - 1, by omega⟩
  rw [parseL_succ_fuel]
  simp only [h0, h2, if_false, hn1 m' (by omega)]
  exact hn2 m' (by omega)

/-- is the token a unary operator (in operand position) -/
def unaryHead : List Tok → Bool
  | .p s :: _ => (unOpOf s).isSome
  | _ => false

theorem pt_two {t : List Tok} {res : Expr × List Tok} (hu : unaryHead t = false) (h : PT c 1 t res) : PT c 2 t res := by
  obtain ⟨n, hn⟩ := h
  refine ⟨n + 1, fun m hm => ?_⟩
  obtain ⟨m', rfl⟩ : ∃ m', m = m' + 1 := ⟨m - 1, by omega⟩
  rw [parseL_succ_fuel]
  simp only [show (2 : Nat) ≠ 0 by decide, if_false, if_true]
  cases t with
  | nil => exact hn m' (by omega)
  | cons a r =>
    cases a with
    | p s =>
      simp only [unaryHead] at hu
      cases hs : unOpOf s with
      | none => simp only [hs]; exact hn m' (by omega)
      | some op => simp [hs] at hu
    | id s => exact hn m' (by omega)
    | num s => exact hn m' (by omega)
    | str s => exact hn m' (by omega)

theorem pt_un {s : String} {op : UnOp} {t r : List Tok} {x : Expr} (hs : unOpOf s = some op)
    (h : PT c 2 t (x, r)) : PT c 2 (.p s :: t) (.un op x, r) := by
  obtain ⟨n, hn⟩ := h
  refine ⟨n + 1, fun m hm => ?_⟩
  obtain ⟨m', rfl⟩ : ∃ m', m = m' + 1 := ⟨m - 1, by omega⟩
  rw [parseL_succ_fuel]
  simp [hs, hn m' (by omega)]

/-- the continuation stops at a token that does not continue this level -/
def trig (L : Nat) : List Tok → Bool
  | .p s :: _ =>
    if L = 1 then s = "." || s = "[" || s = "("
    else if L = 13 then s = "?"
    else (binOpAt L s).isSome
  | _ => false

theorem ct_stop {L : Nat} (x : Expr) {t : List Tok} (h : trig L t = false) : CT c L x t (x, t) := by
  refine ⟨1, fun m hm => ?_⟩
  obtain ⟨m', rfl⟩ : ∃ m', m = m' + 1 := ⟨m - 1, by omega⟩
  rw [contAt_succ_fuel]
  cases t with
  | nil => by_cases h1 : L = 1 <;> by_cases h13 : L = 13 <;> simp [h1, h13]
  | cons a r =>
    cases a with
    | p s =>
      by_cases h1 : L = 1
      · subst h1
        simp only [trig, if_true, Bool.or_eq_false_iff, decide_eq_false_iff_not] at h
        simp [h.1.1, h.1.2, h.2]
      · by_cases h13 : L = 13
        · subst h13
          simp only [trig, h1, if_false, if_true, decide_eq_false_iff_not] at h
          simp [h]
        · simp only [trig, h1, h13, if_false] at h
          cases hb : binOpAt L s with
          | none => simp [h1, h13, hb]
          | some op => simp [hb] at h
    | id s => by_cases h1 : L = 1 <;> by_cases h13 : L = 13 <;> simp [h1, h13]
    | num s => by_cases h1 : L = 1 <;> by_cases h13 : L = 13 <;> simp [h1, h13]
    | str s => by_cases h1 : L = 1 <;> by_cases h13 : L = 13 <;> simp [h1, h13]

theorem ct_member {x : Expr} {f : String} {r : List Tok} {res : Expr × List Tok}
    (h : CT c 1 (.smember x f) r res) : CT c 1 x (.p "." :: .id f :: r) res := by
  obtain ⟨n, hn⟩ := h
  refine ⟨n + 1, fun m hm => ?_⟩
  obtain ⟨m', rfl⟩ : ∃ m', m = m' + 1 := ⟨m - 1, by omega⟩
  rw [contAt_succ_fuel]
  simp [hn m' (by omega)]

theorem ct_index {x i : Expr} {t r : List Tok} {res : Expr × List Tok}
    (hi : PT c 13 t (i, .p "]" :: r)) (h : CT c 1 (.dmember x i) r res) : CT c 1 x (.p "[" :: t) res := by
  obtain ⟨n1, hn1⟩ := hi
  obtain ⟨n2, hn2⟩ := h
  refine ⟨max n1 n2 + 1, fun m hm => ?_⟩
  obtain ⟨m', rfl⟩ : ∃ m', m = m' + 1 := ⟨m - 1, by omega⟩
  rw [contAt_succ_fuel]
  simp [hn1 m' (by omega), hn2 m' (by omega)]

theorem ct_call {x : Expr} {as : Exprs} {t r : List Tok} {res : Expr × List Tok}
    (ha : PA c t (as, .p ")" :: r)) (h : CT c 1 (.call x as) r res) : CT c 1 x (.p "(" :: t) res := by
  obtain ⟨n1, hn1⟩ := ha
  obtain ⟨n2, hn2⟩ := h
  refine ⟨max n1 n2 + 1, fun m hm => ?_⟩
  obtain ⟨m', rfl⟩ : ∃ m', m = m' + 1 := ⟨m - 1, by omega⟩
  rw [contAt_succ_fuel]
  simp [hn1 m' (by omega), hn2 m' (by omega)]

theorem ct_bin {L : Nat} {s : String} {op : BinOp} {x y : Expr} {t r : List Tok} {res : Expr × List Tok}
    (h1 : L ≠ 1) (h13 : L ≠ 13) (hs : binOpAt L s = some op) (hy : PT c (L - 1) t (y, r))
    (h : CT c L (.bin op x y) r res) : CT c L x (.p s :: t) res := by
  obtain ⟨n1, hn1⟩ := hy
  obtain ⟨n2, hn2⟩ := h
  refine ⟨max n1 n2 + 1, fun m hm => ?_⟩
  obtain ⟨m', rfl⟩ : ∃ m', m = m' + 1 := ⟨m - 1, by omega⟩
  rw [contAt_succ_fuel]
  simp [h1, h13, hs, hn1 m' (by omega), hn2 m' (by omega)]

theorem ct_cond {x a b : Expr} {t t' r : List Tok}
    (ha : PT c 13 t (a, .p ":" :: t')) (hb : PT c 13 t' (b, r)) : CT c 13 x (.p "?" :: t) (.cond x a b, r) := by
  obtain ⟨n1, hn1⟩ := ha
  obtain ⟨n2, hn2⟩ := hb
  refine ⟨max n1 n2 + 1, fun m hm => ?_⟩
  obtain ⟨m', rfl⟩ : ∃ m', m = m' + 1 := ⟨m - 1, by omega⟩
  rw [contAt_succ_fuel]
  simp [hn1 m' (by omega), hn2 m' (by omega)]

/-! ### lists: arguments, array items, object fields -/

/-- a token that can start an expression is not a closing bracket, a comma or `...` -/
def good : Tok → Bool
  | .p s => s != ")" && s != "]" && s != "}" && s != "," && s != "..."
  | _ => true

theorem pa_nil (r : List Tok) : PA c (.p ")" :: r) (.nil, .p ")" :: r) :=
  ⟨1, fun m hm => by obtain ⟨m', rfl⟩ : ∃ m', m = m' + 1 := ⟨m - 1, by omega⟩; simp [parseArgs]⟩

theorem pa_one {a : Tok} {ts r : List Tok} {e : Expr} (hg : good a = true)
    (h : PT c 13 (a :: ts) (e, .p ")" :: r)) : PA c (a :: ts) (.cons e .nil, .p ")" :: r) := by
  obtain ⟨n, hn⟩ := h
  refine ⟨n + 1, fun m hm => ?_⟩
  obtain ⟨m', rfl⟩ : ∃ m', m = m' + 1 := ⟨m - 1, by omega⟩
  cases a with
  | p s =>
    simp only [good, Bool.and_eq_true, bne_iff_ne, ne_eq] at hg
    unfold parseArgs
    simp [hg.1.1.1.1, hn m' (by omega)]
  | id s => unfold parseArgs; simp [hn m' (by omega)]
  | num s => unfold parseArgs; simp [hn m' (by omega)]
  | str s => unfold parseArgs; simp [hn m' (by omega)]

theorem pa_cons {a : Tok} {ts t2 r : List Tok} {e : Expr} {as : Exprs} (hg : good a = true)
    (h : PT c 13 (a :: ts) (e, .p "," :: t2)) (h2 : PA c t2 (as, r)) : PA c (a :: ts) (.cons e as, r) := by
  obtain ⟨n1, hn1⟩ := h
  obtain ⟨n2, hn2⟩ := h2
  refine ⟨max n1 n2 + 1, fun m hm => ?_⟩
  obtain ⟨m', rfl⟩ : ∃ m', m = m' + 1 := ⟨m - 1, by omega⟩
  cases a with
  | p s =>
    simp only [good, Bool.and_eq_true, bne_iff_ne, ne_eq] at hg
    unfold parseArgs
    simp [hg.1.1.1.1, hg.1.1.1.2, hg.1.1.2, hg.1.2, hg.2, hn1 m' (by omega), hn2 m' (by omega)]
  | id s => unfold parseArgs; simp [hn1 m' (by omega), hn2 m' (by omega)]
  | num s => unfold parseArgs; simp [hn1 m' (by omega), hn2 m' (by omega)]
  | str s => unfold parseArgs; simp [hn1 m' (by omega), hn2 m' (by omega)]

theorem pi_nil (r : List Tok) : PI c (.p "]" :: r) (.nil, .p "]" :: r) :=
  ⟨1, fun m hm => by obtain ⟨m', rfl⟩ : ∃ m', m = m' + 1 := ⟨m - 1, by omega⟩; simp [parseItems]⟩

theorem pi_hole {t r : List Tok} {fs : ArrFields} (h : PI c t (fs, r)) : PI c (.p "," :: t) (.hole fs, r) := by
  obtain ⟨n, hn⟩ := h
  refine ⟨n + 1, fun m hm => ?_⟩
  obtain ⟨m', rfl⟩ : ∃ m', m = m' + 1 := ⟨m - 1, by omega⟩
  unfold parseItems
  simp [hn m' (by omega)]

theorem pi_spread_one {t r : List Tok} {e : Expr} (h : PT c 13 t (e, .p "]" :: r)) :
    PI c (.p "..." :: t) (.spread e .nil, .p "]" :: r) := by
  obtain ⟨n, hn⟩ := h
  refine ⟨n + 1, fun m hm => ?_⟩
  obtain ⟨m', rfl⟩ : ∃ m', m = m' + 1 := ⟨m - 1, by omega⟩
  unfold parseItems
  simp [hn m' (by omega)]

theorem pi_spread_cons {t t2 r : List Tok} {e : Expr} {fs : ArrFields} (h : PT c 13 t (e, .p "," :: t2))
    (h2 : PI c t2 (fs, r)) : PI c (.p "..." :: t) (.spread e fs, r) := by
  obtain ⟨n1, hn1⟩ := h
  obtain ⟨n2, hn2⟩ := h2
  refine ⟨max n1 n2 + 1, fun m hm => ?_⟩
  obtain ⟨m', rfl⟩ : ∃ m', m = m' + 1 := ⟨m - 1, by omega⟩
  unfold parseItems
  simp [hn1 m' (by omega), hn2 m' (by omega)]

theorem pi_item_one {a : Tok} {ts r : List Tok} {e : Expr} (hg : good a = true)
    (h : PT c 13 (a :: ts) (e, .p "]" :: r)) : PI c (a :: ts) (.item e .nil, .p "]" :: r) := by
  obtain ⟨n, hn⟩ := h
  refine ⟨n + 1, fun m hm => ?_⟩
  obtain ⟨m', rfl⟩ : ∃ m', m = m' + 1 := ⟨m - 1, by omega⟩
  cases a with
  | p s =>
    simp only [good, Bool.and_eq_true, bne_iff_ne, ne_eq] at hg
    unfold parseItems
    simp [hg.1.1.1.1, hg.1.1.1.2, hg.1.1.2, hg.1.2, hg.2, hn m' (by omega)]
  | id s => unfold parseItems; simp [hn m' (by omega)]
  | num s => unfold parseItems; simp [hn m' (by omega)]
  | str s => unfold parseItems; simp [hn m' (by omega)]

theorem pi_item_cons {a : Tok} {ts t2 r : List Tok} {e : Expr} {fs : ArrFields} (hg : good a = true)
    (h : PT c 13 (a :: ts) (e, .p "," :: t2)) (h2 : PI c t2 (fs, r)) : PI c (a :: ts) (.item e fs, r) := by
  obtain ⟨n1, hn1⟩ := h
  obtain ⟨n2, hn2⟩ := h2
  refine ⟨max n1 n2 + 1, fun m hm => ?_⟩
  obtain ⟨m', rfl⟩ : ∃ m', m = m' + 1 := ⟨m - 1, by omega⟩
  cases a with
  | p s =>
    simp only [good, Bool.and_eq_true, bne_iff_ne, ne_eq] at hg
    unfold parseItems
    simp [hg.1.1.1.1, hg.1.1.1.2, hg.1.1.2, hg.1.2, hg.2, hn1 m' (by omega), hn2 m' (by omega)]
  | id s => unfold parseItems; simp [hn1 m' (by omega), hn2 m' (by omega)]
  | num s => unfold parseItems; simp [hn1 m' (by omega), hn2 m' (by omega)]
  | str s => unfold parseItems; simp [hn1 m' (by omega), hn2 m' (by omega)]

theorem pf_nil (r : List Tok) : PF c (.p "}" :: r) (.nil, .p "}" :: r) :=
  ⟨1, fun m hm => by obtain ⟨m', rfl⟩ : ∃ m', m = m' + 1 := ⟨m - 1, by omega⟩; simp [parseFields]⟩

theorem pf_spread_one {t r : List Tok} {e : Expr} (h : PT c 13 t (e, .p "}" :: r)) :
    PF c (.p "..." :: t) (.spread e .nil, .p "}" :: r) := by
  obtain ⟨n, hn⟩ := h
  refine ⟨n + 1, fun m hm => ?_⟩
  obtain ⟨m', rfl⟩ : ∃ m', m = m' + 1 := ⟨m - 1, by omega⟩
  unfold parseFields
  simp [hn m' (by omega)]

theorem pf_spread_cons {t t2 r : List Tok} {e : Expr} {fs : ObjFields} (h : PT c 13 t (e, .p "," :: t2))
    (h2 : PF c t2 (fs, r)) : PF c (.p "..." :: t) (.spread e fs, r) := by
  obtain ⟨n1, hn1⟩ := h
  obtain ⟨n2, hn2⟩ := h2
  refine ⟨max n1 n2 + 1, fun m hm => ?_⟩
  obtain ⟨m', rfl⟩ : ∃ m', m = m' + 1 := ⟨m - 1, by omega⟩
  unfold parseFields
  simp [hn1 m' (by omega), hn2 m' (by omega)]

theorem pf_named_one {k : String} {t r : List Tok} {e : Expr} (h : PT c 13 t (e, .p "}" :: r)) :
    PF c (.id k :: .p ":" :: t) (.named k false e .nil, .p "}" :: r) := by
  obtain ⟨n, hn⟩ := h
  refine ⟨n + 1, fun m hm => ?_⟩
  obtain ⟨m', rfl⟩ : ∃ m', m = m' + 1 := ⟨m - 1, by omega⟩
  unfold parseFields
  simp [hn m' (by omega)]

theorem pf_named_cons {k : String} {t t2 r : List Tok} {e : Expr} {fs : ObjFields} (h : PT c 13 t (e, .p "," :: t2))
    (h2 : PF c t2 (fs, r)) : PF c (.id k :: .p ":" :: t) (.named k false e fs, r) := by
  obtain ⟨n1, hn1⟩ := h
  obtain ⟨n2, hn2⟩ := h2
  refine ⟨max n1 n2 + 1, fun m hm => ?_⟩
  obtain ⟨m', rfl⟩ : ∃ m', m = m' + 1 := ⟨m - 1, by omega⟩
  unfold parseFields
  simp [hn1 m' (by omega), hn2 m' (by omega)]

theorem pf_short_one (k : String) (r : List Tok) :
    PF c (.id k :: .p "}" :: r) (.named k true (.data k) .nil, .p "}" :: r) :=
  ⟨1, fun m hm => by obtain ⟨m', rfl⟩ : ∃ m', m = m' + 1 := ⟨m - 1, by omega⟩; simp [parseFields]⟩

theorem pf_short_cons {k : String} {t2 r : List Tok} {fs : ObjFields} (h2 : PF c t2 (fs, r)) :
    PF c (.id k :: .p "," :: t2) (.named k true (.data k) fs, r) := by
  obtain ⟨n, hn⟩ := h2
  refine ⟨n + 1, fun m hm => ?_⟩
  obtain ⟨m', rfl⟩ : ∃ m', m = m' + 1 := ⟨m - 1, by omega⟩
  unfold parseFields
  simp [hn m' (by omega)]

/-! ## facts about the regenerated tables (checked by `decide` on every run) -/

open GE.Str (lvlS str strBody strArgs strObj strArr strExpr Printable PrintableArgs PrintableObj PrintableArr floatText isNumber isShortcut comma)
open GE.Gen (stringifyLevelOfKind)

def trigTok (L : Nat) (a : Tok) : Bool := trig L [a]

theorem trig_cons (L : Nat) (a : Tok) (r : List Tok) : trig L (a :: r) = trigTok L a := by
  cases a <;> simp [trigTok, trig]

theorem un_table : ∀ op ∈ allUnOps,
    unOpOf (Str.unArm op).1 = some op ∧ (Str.unArm op).2 = 2 ∧ stringifyLevelOfKind op.name = 2 ∧
    good (.p (Str.unArm op).1) = true := by decide

theorem bin_table : ∀ op ∈ allBinOps,
    binOpAt (wLevel op) (Str.binArm op).2.1 = some op ∧ (Str.binArm op).1 = wLevel op ∧
    (Str.binArm op).2.2 = wLevel op - 1 ∧ stringifyLevelOfKind op.name = wLevel op ∧ 3 ≤ wLevel op ∧ wLevel op ≤ 12 := by
  decide

/-- an operator token continues no level below its own -/
theorem bin_notrig : ∀ op ∈ allBinOps, ∀ l ∈ List.range 13, l < wLevel op →
    trigTok l (.p (Str.binArm op).2.1) = false := by decide

theorem cond_table : Str.condArm = (12, 13, 13) ∧ stringifyLevelOfKind "Cond" = 13 ∧
    stringifyLevelOfKind "StaticMember" = 1 ∧ stringifyLevelOfKind "DynamicMember" = 1 ∧ stringifyLevelOfKind "FuncCall" = 1 ∧
    Str.memberLevel = 1 ∧ Str.condLevel = 13 := by decide

/-- closing brackets, commas and colons continue no level; `?` continues only the conditional level -/
theorem punct_notrig : ∀ s ∈ [")", "]", "}", ",", ":"], ∀ l ∈ List.range 14, trigTok l (.p s) = false := by decide
theorem quest_notrig : ∀ l ∈ List.range 13, trigTok l (.p "?") = false := by decide
theorem opener_not_unary : unOpOf "(" = none ∧ unOpOf "[" = none ∧ unOpOf "{" = none := by decide

/-! ## climbing the level chain -/

/-- what follows continues no level below `L` -/
def NoCont (L : Nat) (rest : List Tok) : Prop := ∀ l, 1 ≤ l → l < L → trig l rest = false

theorem NoCont.mono {L L' : Nat} {rest : List Tok} (h : NoCont L rest) (hl : L' ≤ L) : NoCont L' rest :=
  fun l h1 h2 => h l h1 (by omega)

theorem ct_fun {L : Nat} {x : Expr} {t : List Tok} {r1 r2 : Expr × List Tok} (h1 : CT c L x t r1) (h2 : CT c L x t r2) :
    r1 = r2 := by
  obtain ⟨n1, hn1⟩ := h1
  obtain ⟨n2, hn2⟩ := h2
  have a := hn1 (max n1 n2) (by omega)
  have b := hn2 (max n1 n2) (by omega)
  rw [a] at b
  exact Option.some.inj b

/-- level 2 has no continuation of its own -/
theorem trig_two (t : List Tok) : trig 2 t = false := by
  cases t with
  | nil => rfl
  | cons a r =>
    cases a with
    | p s =>
      simp only [trig, show (2 : Nat) ≠ 1 by decide, show (2 : Nat) ≠ 13 by decide, if_false]
      have : binOpAt 2 s = none := by
        unfold binOpAt
        rw [List.find?_eq_none]
        intro op _
        cases op <;> simp [wLevel]
      simp [this]
    | id s => rfl
    | num s => rfl
    | str s => rfl

/-- from a result at level `a` to a higher level `L`, when nothing in between continues -/
theorem climb : ∀ (d a L : Nat) (t r : List Tok) (x : Expr) (res : Expr × List Tok), L = a + d + 1 → L ≤ 13 →
    PT c a t (x, r) → (∀ l, a < l → l < L → trig l r = false) → (a < 2 → 2 ≤ L → unaryHead t = false) →
    CT c L x r res → PT c L t res
  | 0, a, L, t, r, x, res, hL, _, hp, _, hu, hc => by
    subst hL
    by_cases h2 : a + 0 + 1 = 2
    · have ha : a = 1 := by omega
      subst ha
      have := ct_fun c hc (ct_stop c x (trig_two r))
      subst this
      exact pt_two c (hu (by omega) (by omega)) hp
    · exact pt_up c (by omega) h2 (by simpa using hp) hc
  | d + 1, a, L, t, r, x, res, hL, h13, hp, hn, hu, hc => by
    have hstop : CT c (a + 1) x r (x, r) := ct_stop c x (hn (a + 1) (by omega) (by omega))
    have hp' : PT c (a + 1) t (x, r) := by
      by_cases h2 : a + 1 = 2
      · have ha : a = 1 := by omega
        subst ha
        exact pt_two c (hu (by omega) (by omega)) hp
      · exact pt_up c (by omega) h2 (by simpa using hp) hstop
    exact climb d (a + 1) L t r x res (by omega) h13 hp' (fun l h1 h2 => hn l (by omega) h2)
      (fun h1 h2 => hu (by omega) h2) hc

/-- from the claim at the expression's own level `p` to any accepted level `L ≥ p` -/
theorem lift {p L : Nat} {t rest : List Tok} {x : Expr} {res : Expr × List Tok} (hp1 : 1 ≤ p) (hpl : p ≤ L) (hL : L ≤ 13)
    (h : ∀ res0, CT c p x rest res0 → PT c p t res0) (hn : NoCont L rest) (hu : p < 2 → 2 ≤ L → unaryHead t = false)
    (hc : CT c L x rest res) : PT c L t res := by
  by_cases he : p = L
  · subst he; exact h res hc
  · have hstop : CT c p x rest (x, rest) := ct_stop c x (hn p hp1 (by omega))
    exact climb c (L - p - 1) p L t rest x res (by omega) hL (h _ hstop) (fun l h1 h2 => hn l (by omega) h2) hu hc

/-- from a primary (level 0) result to any level -/
theorem lift0 {L : Nat} {t rest : List Tok} {x : Expr} {res : Expr × List Tok} (hL1 : 1 ≤ L) (hL : L ≤ 13)
    (h : PT c 0 t (x, rest)) (hn : NoCont L rest) (hu : unaryHead t = false) (hc : CT c L x rest res) : PT c L t res :=
  climb c (L - 1) 0 L t rest x res (by omega) hL h (fun l h1 h2 => hn l (by omega) h2) (fun _ _ => hu) hc

/-! ## what the parser returns for a printed expression -/

mutual
def norm (names : Nat → String) : Expr → Expr
  | .scope i => kwOr (names i)
  | .data x => kwOr x
  | .toStr e => .toStr e
  | .undef => .undef
  | .null => .null
  | .str s => .str s
  | .int v => c.numOf (toString v)
  | .float t => c.numOf (floatText t)
  | .bool b => .bool b
  | .obj fs => .obj (normObj names fs)
  | .arr fs => .arr (normArr names fs)
  | .smember o f => .smember (norm names o) f
  | .dmember o f => .dmember (norm names o) (norm names f)
  | .call f args => .call (norm names f) (normArgs names args)
  | .un op x => .un op (norm names x)
  | .bin op x y => .bin op (norm names x) (norm names y)
  | .cond a b d => .cond (norm names a) (norm names b) (norm names d)
def normArgs (names : Nat → String) : Exprs → Exprs
  | .nil => .nil
  | .cons e r => .cons (norm names e) (normArgs names r)
def normObj (names : Nat → String) : ObjFields → ObjFields
  | .nil => .nil
  | .named k _ v r =>
    if isShortcut names k v then .named k true (.data k) (normObj names r) else .named k false (norm names v) (normObj names r)
  | .spread v r => .spread (norm names v) (normObj names r)
def normArr (names : Nat → String) : ArrFields → ArrFields
  | .nil => .nil
  | .item v r => .item (norm names v) (normArr names r)
  | .spread v r => .spread (norm names v) (normArr names r)
  | .hole r => .hole (normArr names r)
end

/-! ## the first token of a printed expression -/

def HeadOk (names : Nat → String) (e : Expr) : Prop :=
  ∀ (a : Nat) (rest : List Tok), ∃ t ts, str names e a ++ rest = t :: ts ∧ good t = true ∧
    ((lvlS e ≤ 1 ∨ lvlS e > a) → unaryHead (t :: ts) = false)

def BodyHeadOk (names : Nat → String) (e : Expr) : Prop :=
  ∀ (rest : List Tok), ∃ t ts, strBody names e ++ rest = t :: ts ∧ good t = true ∧
    (lvlS e ≤ 1 → unaryHead (t :: ts) = false)

theorem headOk_of_body {names e} (h : BodyHeadOk names e) : HeadOk names e := by
  intro a rest
  unfold str
  by_cases hl : lvlS e > a
  · simp only [hl, if_true]
    exact ⟨.p "(", strBody names e ++ [.p ")"] ++ rest, by simp, by decide, fun _ => by simp [unaryHead, opener_not_unary.1]⟩
  · simp only [hl, if_false]
    obtain ⟨t, ts, h1, h2, h3⟩ := h rest
    refine ⟨t, ts, h1, h2, fun h' => h3 ?_⟩
    rcases h' with h' | h'
    · exact h'
    · exact h'.elim

theorem lvl_smember (o f) : lvlS (.smember o f) = 1 := by simp [lvlS, Expr.kind, cond_table.2.2.1]
theorem lvl_dmember (o f) : lvlS (.dmember o f) = 1 := by simp [lvlS, Expr.kind, cond_table.2.2.2.1]
theorem lvl_call (f a) : lvlS (.call f a) = 1 := by simp [lvlS, Expr.kind, cond_table.2.2.2.2.1]
theorem lvl_cond (a b d) : lvlS (.cond a b d) = 13 := by simp [lvlS, Expr.kind, cond_table.2.1]
theorem lvl_un (op x) : lvlS (.un op x) = 2 := by simp [lvlS, Expr.kind, (un_table op (mem_allUnOps op)).2.2.1]
theorem lvl_bin (op x y) : lvlS (.bin op x y) = wLevel op := by simp [lvlS, Expr.kind, (bin_table op (mem_allBinOps op)).2.2.2.1]

theorem bodyHeadOk (names : Nat → String) : ∀ (e : Expr), Printable e = true → BodyHeadOk names e
  | .scope i, _ => fun rest => ⟨.id (names i), rest, by simp [strBody], rfl, fun _ => rfl⟩
  | .data x, _ => fun rest => ⟨.id x, rest, by simp [strBody], rfl, fun _ => rfl⟩
  | .toStr e, h => by simp [Printable] at h
  | .undef, _ => fun rest => ⟨.id "undefined", rest, by simp [strBody], rfl, fun _ => rfl⟩
  | .null, _ => fun rest => ⟨.id "null", rest, by simp [strBody], rfl, fun _ => rfl⟩
  | .str s, _ => fun rest => ⟨.str s, rest, by simp [strBody], rfl, fun _ => rfl⟩
  | .int v, _ => fun rest => ⟨.num (toString v), rest, by simp [strBody], rfl, fun _ => rfl⟩
  | .float t, _ => fun rest => ⟨.num (floatText t), rest, by simp [strBody], rfl, fun _ => rfl⟩
  | .bool b, _ => fun rest => ⟨.id (if b then "true" else "false"), rest, by simp [strBody], rfl, fun _ => rfl⟩
  | .obj fs, _ => fun rest => ⟨.p "{", strObj names fs ++ [.p "}"] ++ rest, by simp [strBody], by decide,
      fun _ => by simp [unaryHead, opener_not_unary.2.2]⟩
  | .arr fs, _ => fun rest => ⟨.p "[", strArr names fs ++ [.p "]"] ++ rest, by simp [strBody], by decide,
      fun _ => by simp [unaryHead, opener_not_unary.2.1]⟩
  | .smember o f, h => fun rest => by
    have ho : Printable o = true := by simpa [Printable] using h
    by_cases hn : isNumber o = true
    · exact ⟨.p "(", str names o Str.memberLevel ++ [.p ")"] ++ [.p ".", .id f] ++ rest, by simp [strBody, hn], by decide,
        fun _ => by simp [unaryHead, opener_not_unary.1]⟩
    · obtain ⟨t, ts, h1, h2, h3⟩ := headOk_of_body (bodyHeadOk names o ho) 1 ([.p ".", .id f] ++ rest)
      refine ⟨t, ts, ?_, h2, fun _ => h3 (by omega)⟩
      simpa [strBody, hn, cond_table.2.2.2.2.2.1] using h1
  | .dmember o f, h => fun rest => by
    have ho : Printable o = true := by simp [Printable] at h; exact h.1
    obtain ⟨t, ts, h1, h2, h3⟩ := headOk_of_body (bodyHeadOk names o ho) 1 (.p "[" :: (str names f 13 ++ [.p "]"]) ++ rest)
    refine ⟨t, ts, ?_, h2, fun _ => h3 (by omega)⟩
    simpa [strBody, cond_table.2.2.2.2.2.1, cond_table.2.2.2.2.2.2] using h1
  | .call f args, h => fun rest => by
    have ho : Printable f = true := by simp [Printable] at h; exact h.1
    obtain ⟨t, ts, h1, h2, h3⟩ := headOk_of_body (bodyHeadOk names f ho) 1 (.p "(" :: (strArgs names args ++ [.p ")"]) ++ rest)
    refine ⟨t, ts, ?_, h2, fun _ => h3 (by omega)⟩
    simpa [strBody, cond_table.2.2.2.2.2.1] using h1
  | .un op x, _ => fun rest =>
    ⟨.p (Str.unArm op).1, str names x (Str.unArm op).2 ++ rest, by simp [strBody], (un_table op (mem_allUnOps op)).2.2.2, fun h => by
      rw [lvl_un] at h; omega⟩
  | .bin op x y, h => fun rest => by
    have hx : Printable x = true := by simp [Printable] at h; exact h.1
    obtain ⟨t, ts, h1, h2, _⟩ := headOk_of_body (bodyHeadOk names x hx) (Str.binArm op).1
      (.p (Str.binArm op).2.1 :: str names y (Str.binArm op).2.2 ++ rest)
    refine ⟨t, ts, ?_, h2, fun h => ?_⟩
    · simpa [strBody] using h1
    · rw [lvl_bin] at h
      have := (bin_table op (mem_allBinOps op)).2.2.2.2.1
      omega
  | .cond a b d, h => fun rest => by
    have ha : Printable a = true := by simp [Printable] at h; exact h.1.1
    obtain ⟨t, ts, h1, h2, _⟩ := headOk_of_body (bodyHeadOk names a ha) Str.condArm.1
      (.p "?" :: (str names b Str.condArm.2.1 ++ .p ":" :: str names d Str.condArm.2.2) ++ rest)
    refine ⟨t, ts, ?_, h2, fun h => ?_⟩
    · simpa [strBody] using h1
    · rw [lvl_cond] at h; omega

theorem headOk (names : Nat → String) (e : Expr) (h : Printable e = true) : HeadOk names e :=
  headOk_of_body (bodyHeadOk names e h)

/-! ## the round trip -/

def BodyC (names : Nat → String) (e : Expr) : Prop :=
  ∀ (L : Nat) (rest : List Tok) (res : Expr × List Tok), lvlS e ≤ L → 1 ≤ L → L ≤ 13 → NoCont L rest →
    (L = 13 → trig 13 rest = false) → CT c L (norm c names e) rest res → PT c L (strBody names e ++ rest) res

def StrC (names : Nat → String) (e : Expr) : Prop :=
  ∀ (a L : Nat) (rest : List Tok) (res : Expr × List Tok), a ≤ L → 1 ≤ L → L ≤ 13 → NoCont L rest →
    (L = 13 → trig 13 rest = false) → CT c L (norm c names e) rest res → PT c L (str names e a ++ rest) res

theorem nocont_punct {s : String} (hs : s ∈ [")", "]", "}", ",", ":"]) (L : Nat) (hL : L ≤ 14) (r : List Tok) :
    NoCont L (.p s :: r) := by
  intro l _ h2
  rw [trig_cons]
  exact punct_notrig s hs l (by simp; omega)

theorem trig13_punct {s : String} (hs : s ∈ [")", "]", "}", ",", ":"]) (r : List Tok) : trig 13 (.p s :: r) = false := by
  rw [trig_cons]
  exact punct_notrig s hs 13 (by simp)

theorem strC_of_body {names : Nat → String} {e : Expr} (hb : BodyC c names e) : StrC c names e := by
  intro a L rest res hal h1 h13 hn h13' hc
  unfold str
  by_cases hl : lvlS e > a
  · simp only [hl, if_true]
    have hin : PT c 13 (strBody names e ++ (.p ")" :: rest)) (norm c names e, .p ")" :: rest) :=
      hb 13 (.p ")" :: rest) _ (Str.lvlS_le e) (by omega) (by omega) (nocont_punct (by simp) 13 (by omega) rest)
        (fun _ => trig13_punct (by simp) rest) (ct_stop c _ (trig13_punct (by simp) rest))
    have hp := pt_paren c hin
    have : Tok.p "(" :: (strBody names e ++ [Tok.p ")"]) ++ rest = Tok.p "(" :: (strBody names e ++ (.p ")" :: rest)) := by simp
    rw [this]
    exact lift0 c h1 h13 hp hn (by simp [unaryHead, opener_not_unary.1]) hc
  · simp only [hl, if_false]
    exact hb L rest res (by omega) h1 h13 hn h13' hc

theorem kwOr_bool (b : Bool) : kwOr (if b then "true" else "false") = .bool b := by
  cases b <;> simp [kwOr]

/-- the un-parenthesised body of a member-level expression does not start with a unary operator -/
theorem body_not_unary (names : Nat → String) (e : Expr) (hp : Printable e = true) (hl : lvlS e ≤ 1) (rest : List Tok) :
    unaryHead (strBody names e ++ rest) = false := by
  obtain ⟨t, ts, h1, _, h3⟩ := bodyHeadOk names e hp rest
  rw [h1]
  exact h3 hl

mutual
theorem body_c (names : Nat → String) : ∀ (e : Expr), Printable e = true → BodyC c names e
  | .scope i, _ => fun L rest res _ h1 h13 hn _ hc => by
    simpa [strBody, norm] using lift0 c h1 h13 (pt_id c (names i) rest) hn rfl (by simpa [norm] using hc)
  | .data x, _ => fun L rest res _ h1 h13 hn _ hc => by
    simpa [strBody, norm] using lift0 c h1 h13 (pt_id c x rest) hn rfl (by simpa [norm] using hc)
  | .toStr e, h => by simp [Printable] at h
  | .undef, _ => fun L rest res _ h1 h13 hn _ hc => by
    have hp : PT c 0 (.id "undefined" :: rest) (.undef, rest) := by simpa [kwOr] using pt_id c "undefined" rest
    simpa [strBody, norm] using lift0 c h1 h13 hp hn rfl (by simpa [norm] using hc)
  | .null, _ => fun L rest res _ h1 h13 hn _ hc => by
    have hp : PT c 0 (.id "null" :: rest) (.null, rest) := by simpa [kwOr] using pt_id c "null" rest
    simpa [strBody, norm] using lift0 c h1 h13 hp hn rfl (by simpa [norm] using hc)
  | .str s, _ => fun L rest res _ h1 h13 hn _ hc => by
    simpa [strBody, norm] using lift0 c h1 h13 (pt_str c s rest) hn rfl (by simpa [norm] using hc)
  | .int v, _ => fun L rest res _ h1 h13 hn _ hc => by
    simpa [strBody, norm] using lift0 c h1 h13 (pt_num c (toString v) rest) hn rfl (by simpa [norm] using hc)
  | .float t, _ => fun L rest res _ h1 h13 hn _ hc => by
    simpa [strBody, norm] using lift0 c h1 h13 (pt_num c (floatText t) rest) hn rfl (by simpa [norm] using hc)
  | .bool b, _ => fun L rest res _ h1 h13 hn _ hc => by
    have hp : PT c 0 (.id (if b then "true" else "false") :: rest) (.bool b, rest) := by
      simpa [kwOr_bool] using pt_id c (if b then "true" else "false") rest
    simpa [strBody, norm] using lift0 c h1 h13 hp hn rfl (by simpa [norm] using hc)
  | .obj fs, h => fun L rest res _ h1 h13 hn _ hc => by
    have hf := obj_c names fs (by simpa [Printable] using h) rest
    have hp := pt_obj c hf
    have e1 : strBody names (.obj fs) ++ rest = .p "{" :: (strObj names fs ++ .p "}" :: rest) := by simp [strBody]
    rw [e1]
    exact lift0 c h1 h13 hp hn (by simp [unaryHead, opener_not_unary.2.2]) (by simpa [norm] using hc)
  | .arr fs, h => fun L rest res _ h1 h13 hn _ hc => by
    have hf := arr_c names fs (by simpa [Printable] using h) rest
    have hp := pt_arr c hf
    have e1 : strBody names (.arr fs) ++ rest = .p "[" :: (strArr names fs ++ .p "]" :: rest) := by simp [strBody]
    rw [e1]
    exact lift0 c h1 h13 hp hn (by simp [unaryHead, opener_not_unary.2.1]) (by simpa [norm] using hc)
  | .smember o f, h => fun L rest res hl h1 h13 hn _ hc => by
    have ho : Printable o = true := by simpa [Printable] using h
    have hso := strC_of_body c (body_c names o ho)
    have key : ∀ res0, CT c 1 (norm c names (.smember o f)) rest res0 → PT c 1 (strBody names (.smember o f) ++ rest) res0 := by
      intro res0 hc0
      have hcm := ct_member c (by simpa [norm] using hc0)
      by_cases hnum : isNumber o = true
      · have hin := hso 1 13 (.p ")" :: .p "." :: .id f :: rest) (norm c names o, .p ")" :: .p "." :: .id f :: rest)
          (by omega) (by omega) (by omega) (nocont_punct (by simp) 13 (by omega) _) (fun _ => trig13_punct (by simp) _)
          (ct_stop c _ (trig13_punct (by simp) _))
        have hp := pt_paren c hin
        have e1 : strBody names (.smember o f) ++ rest = .p "(" :: (str names o 1 ++ .p ")" :: .p "." :: .id f :: rest) := by
          simp [strBody, hnum, cond_table.2.2.2.2.2.1]
        rw [e1]
        exact pt_up c (by decide) (by decide) hp hcm
      · have e1 : strBody names (.smember o f) ++ rest = str names o 1 ++ (.p "." :: .id f :: rest) := by
          simp [strBody, hnum, cond_table.2.2.2.2.2.1]
        rw [e1]
        exact hso 1 1 _ res0 (by omega) (by omega) (by omega) (fun l h1' h2' => by omega) (fun h' => by omega) hcm
    rw [lvl_smember] at hl
    exact lift c (by omega) hl h13 key hn (fun _ _ => body_not_unary names _ h (by rw [lvl_smember]; omega) rest) hc
  | .dmember o i, h => fun L rest res hl h1 h13 hn _ hc => by
    have ho : Printable o = true := by simp [Printable] at h; exact h.1
    have hi : Printable i = true := by simp [Printable] at h; exact h.2
    have hso := strC_of_body c (body_c names o ho)
    have hsi := strC_of_body c (body_c names i hi)
    have key : ∀ res0, CT c 1 (norm c names (.dmember o i)) rest res0 → PT c 1 (strBody names (.dmember o i) ++ rest) res0 := by
      intro res0 hc0
      have hpi := hsi 13 13 (.p "]" :: rest) (norm c names i, .p "]" :: rest) (by omega) (by omega) (by omega)
        (nocont_punct (by simp) 13 (by omega) _) (fun _ => trig13_punct (by simp) _) (ct_stop c _ (trig13_punct (by simp) _))
      have hci := ct_index c hpi (by simpa [norm] using hc0)
      have e1 : strBody names (.dmember o i) ++ rest = str names o 1 ++ (.p "[" :: (str names i 13 ++ .p "]" :: rest)) := by
        simp [strBody, cond_table.2.2.2.2.2.1, cond_table.2.2.2.2.2.2]
      rw [e1]
      exact hso 1 1 _ res0 (by omega) (by omega) (by omega) (fun l h1' h2' => by omega) (fun h' => by omega) hci
    rw [lvl_dmember] at hl
    exact lift c (by omega) hl h13 key hn (fun _ _ => body_not_unary names _ h (by rw [lvl_dmember]; omega) rest) hc
  | .call f args, h => fun L rest res hl h1 h13 hn _ hc => by
    have hf : Printable f = true := by simp [Printable] at h; exact h.1
    have ha : PrintableArgs args = true := by simp [Printable] at h; exact h.2
    have hsf := strC_of_body c (body_c names f hf)
    have key : ∀ res0, CT c 1 (norm c names (.call f args)) rest res0 → PT c 1 (strBody names (.call f args) ++ rest) res0 := by
      intro res0 hc0
      have hpa := args_c names args ha rest
      have hcc := ct_call c hpa (by simpa [norm] using hc0)
      have e1 : strBody names (.call f args) ++ rest = str names f 1 ++ (.p "(" :: (strArgs names args ++ .p ")" :: rest)) := by
        simp [strBody, cond_table.2.2.2.2.2.1]
      rw [e1]
      exact hsf 1 1 _ res0 (by omega) (by omega) (by omega) (fun l h1' h2' => by omega) (fun h' => by omega) hcc
    rw [lvl_call] at hl
    exact lift c (by omega) hl h13 key hn (fun _ _ => body_not_unary names _ h (by rw [lvl_call]; omega) rest) hc
  | .un op x, h => fun L rest res hl h1 h13 hn _ hc => by
    have hx : Printable x = true := by simpa [Printable] using h
    have hsx := strC_of_body c (body_c names x hx)
    obtain ⟨hu1, hu2, _, _⟩ := un_table op (mem_allUnOps op)
    rw [lvl_un] at hl
    have hpx := hsx 2 2 rest (norm c names x, rest) (by omega) (by omega) (by omega) (hn.mono hl) (fun h' => by omega)
      (ct_stop c _ (trig_two rest))
    have hpu := pt_un c hu1 hpx
    have e1 : strBody names (.un op x) ++ rest = .p (Str.unArm op).1 :: (str names x 2 ++ rest) := by simp [strBody, hu2]
    rw [e1]
    refine lift c (by omega) hl h13 (fun res0 hc0 => ?_) hn (fun h' => by omega) hc
    have := ct_fun c hc0 (ct_stop c _ (trig_two rest))
    subst this
    simpa [norm] using hpu
  | .bin op x y, h => fun L rest res hl h1 h13 hn _ hc => by
    have hx : Printable x = true := by simp [Printable] at h; exact h.1
    have hy : Printable y = true := by simp [Printable] at h; exact h.2
    have hsx := strC_of_body c (body_c names x hx)
    have hsy := strC_of_body c (body_c names y hy)
    obtain ⟨hb1, hb2, hb3, _, hb5, hb6⟩ := bin_table op (mem_allBinOps op)
    rw [lvl_bin] at hl
    have key : ∀ res0, CT c (wLevel op) (norm c names (.bin op x y)) rest res0 →
        PT c (wLevel op) (strBody names (.bin op x y) ++ rest) res0 := by
      intro res0 hc0
      have hpy := hsy (wLevel op - 1) (wLevel op - 1) rest (norm c names y, rest) (by omega) (by omega) (by omega)
        (hn.mono (by omega)) (fun h' => by omega) (ct_stop c _ (hn (wLevel op - 1) (by omega) (by omega)))
      have hcb := ct_bin c (by omega) (by omega) hb1 hpy (by simpa [norm] using hc0)
      have e1 : strBody names (.bin op x y) ++ rest =
          str names x (wLevel op) ++ (.p (Str.binArm op).2.1 :: (str names y (wLevel op - 1) ++ rest)) := by
        simp [strBody, hb2, hb3]
      rw [e1]
      refine hsx (wLevel op) (wLevel op) _ res0 (by omega) (by omega) (by omega) ?_ (fun h' => by omega) hcb
      intro l hl1 hl2
      rw [trig_cons]
      exact bin_notrig op (mem_allBinOps op) l (by simp; omega) hl2
    exact lift c (by omega) hl h13 key hn (fun h' => by omega) hc
  | .cond a b d, h => fun L rest res hl h1 h13 hn h13' hc => by
    have ha : Printable a = true := by simp [Printable] at h; exact h.1.1
    have hb : Printable b = true := by simp [Printable] at h; exact h.1.2
    have hd : Printable d = true := by simp [Printable] at h; exact h.2
    have hsa := strC_of_body c (body_c names a ha)
    have hsb := strC_of_body c (body_c names b hb)
    have hsd := strC_of_body c (body_c names d hd)
    rw [lvl_cond] at hl
    have hL : L = 13 := by omega
    subst hL
    have hst := h13' rfl
    have := ct_fun c hc (ct_stop c _ hst)
    subst this
    have hpb := hsb 13 13 (.p ":" :: (str names d 13 ++ rest)) (norm c names b, .p ":" :: (str names d 13 ++ rest))
      (by omega) (by omega) (by omega) (nocont_punct (by simp) 13 (by omega) _) (fun _ => trig13_punct (by simp) _)
      (ct_stop c _ (trig13_punct (by simp) _))
    have hpd := hsd 13 13 rest (norm c names d, rest) (by omega) (by omega) (by omega) hn (fun _ => hst) (ct_stop c _ hst)
    have hcq := ct_cond c (x := norm c names a) hpb hpd
    have hq : NoCont 12 (.p "?" :: (str names b 13 ++ .p ":" :: (str names d 13 ++ rest))) := by
      intro l _ hl2
      rw [trig_cons]
      exact quest_notrig l (by simp; omega)
    have hpa := hsa 12 12 (.p "?" :: (str names b 13 ++ .p ":" :: (str names d 13 ++ rest)))
      (norm c names a, .p "?" :: (str names b 13 ++ .p ":" :: (str names d 13 ++ rest))) (by omega) (by omega) (by omega)
      hq (fun h' => by omega) (ct_stop c _ (by rw [trig_cons]; exact quest_notrig 12 (by simp)))
    have e1 : strBody names (.cond a b d) ++ rest =
        str names a 12 ++ (.p "?" :: (str names b 13 ++ .p ":" :: (str names d 13 ++ rest))) := by
      simp [strBody, cond_table.1]
    rw [e1]
    simpa [norm] using pt_up c (by decide) (by decide) (by simpa using hpa) hcq
theorem args_c (names : Nat → String) : ∀ (args : Exprs), PrintableArgs args = true → ∀ rest,
    PA c (strArgs names args ++ .p ")" :: rest) (normArgs c names args, .p ")" :: rest)
  | .nil, _, rest => by simpa [strArgs, normArgs] using pa_nil c rest
  | .cons e r, h, rest => by
    have he : Printable e = true := by simp [PrintableArgs] at h; exact h.1
    have hr : PrintableArgs r = true := by simp [PrintableArgs] at h; exact h.2
    have hse := strC_of_body c (body_c names e he)
    match r, hr with
    | .nil, _ =>
      obtain ⟨t, ts, h1, h2, _⟩ := headOk names e he 13 (.p ")" :: rest)
      have hp := hse 13 13 (.p ")" :: rest) (norm c names e, .p ")" :: rest) (by omega) (by omega) (by omega)
        (nocont_punct (by simp) 13 (by omega) _) (fun _ => trig13_punct (by simp) _) (ct_stop c _ (trig13_punct (by simp) _))
      rw [h1] at hp
      have := pa_one c h2 hp
      rw [← h1] at this
      simpa [strArgs, normArgs, comma, Str.Exprs.isNil, cond_table.2.2.2.2.2.2] using this
    | .cons e2 r2, hr' =>
      have ih := args_c names (.cons e2 r2) hr' rest
      obtain ⟨t, ts, h1, h2, _⟩ := headOk names e he 13 (.p "," :: (strArgs names (.cons e2 r2) ++ .p ")" :: rest))
      have hp := hse 13 13 (.p "," :: (strArgs names (.cons e2 r2) ++ .p ")" :: rest))
        (norm c names e, .p "," :: (strArgs names (.cons e2 r2) ++ .p ")" :: rest)) (by omega) (by omega) (by omega)
        (nocont_punct (by simp) 13 (by omega) _) (fun _ => trig13_punct (by simp) _) (ct_stop c _ (trig13_punct (by simp) _))
      rw [h1] at hp
      have := pa_cons c h2 hp ih
      rw [← h1] at this
      simpa [strArgs, normArgs, comma, Str.Exprs.isNil, cond_table.2.2.2.2.2.2] using this
theorem obj_c (names : Nat → String) : ∀ (fs : ObjFields), PrintableObj fs = true → ∀ rest,
    PF c (strObj names fs ++ .p "}" :: rest) (normObj c names fs, .p "}" :: rest)
  | .nil, _, rest => by simpa [strObj, normObj] using pf_nil c rest
  | .named k b v r, h, rest => by
    have hv : Printable v = true := by simp [PrintableObj] at h; exact h.1
    have hr : PrintableObj r = true := by simp [PrintableObj] at h; exact h.2
    have hsv := strC_of_body c (body_c names v hv)
    by_cases hsc : isShortcut names k v = true
    · match r, hr with
      | .nil, _ =>
        simpa [strObj, normObj, hsc, comma, Str.ObjFields.isNil] using pf_short_one c k rest
      | .named k2 b2 v2 r2, hr' =>
        have ih := obj_c names (.named k2 b2 v2 r2) hr' rest
        simpa [strObj, normObj, hsc, comma, Str.ObjFields.isNil] using pf_short_cons c (k := k) ih
      | .spread v2 r2, hr' =>
        have ih := obj_c names (.spread v2 r2) hr' rest
        simpa [strObj, normObj, hsc, comma, Str.ObjFields.isNil] using pf_short_cons c (k := k) ih
    · match r, hr with
      | .nil, _ =>
        have hp := hsv 13 13 (.p "}" :: rest) (norm c names v, .p "}" :: rest) (by omega) (by omega) (by omega)
          (nocont_punct (by simp) 13 (by omega) _) (fun _ => trig13_punct (by simp) _) (ct_stop c _ (trig13_punct (by simp) _))
        simpa [strObj, normObj, hsc, comma, Str.ObjFields.isNil, cond_table.2.2.2.2.2.2] using pf_named_one c (k := k) hp
      | .named k2 b2 v2 r2, hr' =>
        have ih := obj_c names (.named k2 b2 v2 r2) hr' rest
        have hp := hsv 13 13 (.p "," :: (strObj names (.named k2 b2 v2 r2) ++ .p "}" :: rest))
          (norm c names v, .p "," :: (strObj names (.named k2 b2 v2 r2) ++ .p "}" :: rest)) (by omega) (by omega) (by omega)
          (nocont_punct (by simp) 13 (by omega) _) (fun _ => trig13_punct (by simp) _) (ct_stop c _ (trig13_punct (by simp) _))
        simpa [strObj, normObj, hsc, comma, Str.ObjFields.isNil, cond_table.2.2.2.2.2.2] using pf_named_cons c (k := k) hp ih
      | .spread v2 r2, hr' =>
        have ih := obj_c names (.spread v2 r2) hr' rest
        have hp := hsv 13 13 (.p "," :: (strObj names (.spread v2 r2) ++ .p "}" :: rest))
          (norm c names v, .p "," :: (strObj names (.spread v2 r2) ++ .p "}" :: rest)) (by omega) (by omega) (by omega)
          (nocont_punct (by simp) 13 (by omega) _) (fun _ => trig13_punct (by simp) _) (ct_stop c _ (trig13_punct (by simp) _))
        simpa [strObj, normObj, hsc, comma, Str.ObjFields.isNil, cond_table.2.2.2.2.2.2] using pf_named_cons c (k := k) hp ih
  | .spread v r, h, rest => by
    have hv : Printable v = true := by simp [PrintableObj] at h; exact h.1
    have hr : PrintableObj r = true := by simp [PrintableObj] at h; exact h.2
    have hsv := strC_of_body c (body_c names v hv)
    match r, hr with
    | .nil, _ =>
      have hp := hsv 13 13 (.p "}" :: rest) (norm c names v, .p "}" :: rest) (by omega) (by omega) (by omega)
        (nocont_punct (by simp) 13 (by omega) _) (fun _ => trig13_punct (by simp) _) (ct_stop c _ (trig13_punct (by simp) _))
      simpa [strObj, normObj, comma, Str.ObjFields.isNil, cond_table.2.2.2.2.2.2] using pf_spread_one c hp
    | .named k2 b2 v2 r2, hr' =>
      have ih := obj_c names (.named k2 b2 v2 r2) hr' rest
      have hp := hsv 13 13 (.p "," :: (strObj names (.named k2 b2 v2 r2) ++ .p "}" :: rest))
        (norm c names v, .p "," :: (strObj names (.named k2 b2 v2 r2) ++ .p "}" :: rest)) (by omega) (by omega) (by omega)
        (nocont_punct (by simp) 13 (by omega) _) (fun _ => trig13_punct (by simp) _) (ct_stop c _ (trig13_punct (by simp) _))
      simpa [strObj, normObj, comma, Str.ObjFields.isNil, cond_table.2.2.2.2.2.2] using pf_spread_cons c hp ih
    | .spread v2 r2, hr' =>
      have ih := obj_c names (.spread v2 r2) hr' rest
      have hp := hsv 13 13 (.p "," :: (strObj names (.spread v2 r2) ++ .p "}" :: rest))
        (norm c names v, .p "," :: (strObj names (.spread v2 r2) ++ .p "}" :: rest)) (by omega) (by omega) (by omega)
        (nocont_punct (by simp) 13 (by omega) _) (fun _ => trig13_punct (by simp) _) (ct_stop c _ (trig13_punct (by simp) _))
      simpa [strObj, normObj, comma, Str.ObjFields.isNil, cond_table.2.2.2.2.2.2] using pf_spread_cons c hp ih
theorem arr_c (names : Nat → String) : ∀ (fs : ArrFields), PrintableArr fs = true → ∀ rest,
    PI c (strArr names fs ++ .p "]" :: rest) (normArr c names fs, .p "]" :: rest)
  | .nil, _, rest => by simpa [strArr, normArr] using pi_nil c rest
  | .hole r, h, rest => by
    have hr : PrintableArr r = true := by simpa [PrintableArr] using h
    have ih := arr_c names r hr rest
    simpa [strArr, normArr] using pi_hole c ih
  | .item v r, h, rest => by
    have hv : Printable v = true := by simp [PrintableArr] at h; exact h.1
    have hr : PrintableArr r = true := by simp [PrintableArr] at h; exact h.2
    have hsv := strC_of_body c (body_c names v hv)
    by_cases hnil : r = .nil
    · subst hnil
      obtain ⟨t, ts, h1, h2, _⟩ := headOk names v hv 13 (.p "]" :: rest)
      have hp := hsv 13 13 (.p "]" :: rest) (norm c names v, .p "]" :: rest) (by omega) (by omega) (by omega)
        (nocont_punct (by simp) 13 (by omega) _) (fun _ => trig13_punct (by simp) _) (ct_stop c _ (trig13_punct (by simp) _))
      rw [h1] at hp
      have := pi_item_one c h2 hp
      rw [← h1] at this
      simpa [strArr, normArr, comma, Str.ArrFields.isNil, cond_table.2.2.2.2.2.2] using this
    · have ih := arr_c names r hr rest
      obtain ⟨t, ts, h1, h2, _⟩ := headOk names v hv 13 (.p "," :: (strArr names r ++ .p "]" :: rest))
      have hp := hsv 13 13 (.p "," :: (strArr names r ++ .p "]" :: rest))
        (norm c names v, .p "," :: (strArr names r ++ .p "]" :: rest)) (by omega) (by omega) (by omega)
        (nocont_punct (by simp) 13 (by omega) _) (fun _ => trig13_punct (by simp) _) (ct_stop c _ (trig13_punct (by simp) _))
      rw [h1] at hp
      have := pi_item_cons c h2 hp ih
      rw [← h1] at this
      have hc : comma Str.ArrFields.isNil r = [Tok.p ","] := by cases r <;> simp_all [comma, Str.ArrFields.isNil]
      simpa [strArr, normArr, hc, cond_table.2.2.2.2.2.2] using this
  | .spread v r, h, rest => by
    have hv : Printable v = true := by simp [PrintableArr] at h; exact h.1
    have hr : PrintableArr r = true := by simp [PrintableArr] at h; exact h.2
    have hsv := strC_of_body c (body_c names v hv)
    by_cases hnil : r = .nil
    · subst hnil
      have hp := hsv 13 13 (.p "]" :: rest) (norm c names v, .p "]" :: rest) (by omega) (by omega) (by omega)
        (nocont_punct (by simp) 13 (by omega) _) (fun _ => trig13_punct (by simp) _) (ct_stop c _ (trig13_punct (by simp) _))
      simpa [strArr, normArr, comma, Str.ArrFields.isNil, cond_table.2.2.2.2.2.2] using pi_spread_one c hp
    · have ih := arr_c names r hr rest
      have hp := hsv 13 13 (.p "," :: (strArr names r ++ .p "]" :: rest))
        (norm c names v, .p "," :: (strArr names r ++ .p "]" :: rest)) (by omega) (by omega) (by omega)
        (nocont_punct (by simp) 13 (by omega) _) (fun _ => trig13_punct (by simp) _) (ct_stop c _ (trig13_punct (by simp) _))
      have hc : comma Str.ArrFields.isNil r = [Tok.p ","] := by cases r <;> simp_all [comma, Str.ArrFields.isNil]
      simpa [strArr, normArr, hc, cond_table.2.2.2.2.2.2] using pi_spread_cons c hp ih
end

/-- **C14 / C03, print then parse.** For every printable expression there is a fuel bound above which the parser model,
run on the tokens the printer model writes, returns `norm e` and consumes every token. -/
theorem parse_print (names : Nat → String) (e : Expr) (h : Printable e = true) :
    ∃ n, ∀ m, n ≤ m → parseExpr c m (strExpr names e) = some (norm c names e) := by
  have hs := strC_of_body c (body_c c names e h)
  have := hs Str.condLevel 13 [] (norm c names e, []) (by simp [cond_table.2.2.2.2.2.2]) (by omega) (by omega)
    (fun l _ _ => rfl) (fun _ => rfl) (ct_stop c _ rfl)
  obtain ⟨n, hn⟩ := this
  refine ⟨n, fun m hm => ?_⟩
  have := hn m hm
  simp only [List.append_nil] at this
  simp [parseExpr, strExpr, this]

/-! the parser result is the expression itself when the expression is in the parser's image: no scope references
(they are introduced after parsing), identifiers that are not literal keywords, literals that the number reader
reads back, shorthand flags as the parser sets them -/
mutual
def Canon (names : Nat → String) : Expr → Prop
  | .scope _ => False
  | .data x => kwOr x = .data x
  | .toStr _ => False
  | .undef | .null | .str _ | .bool _ => True
  | .int v => c.numOf (toString v) = .int v
  | .float t => c.numOf (floatText t) = .float t
  | .obj fs => CanonObj names fs
  | .arr fs => CanonArr names fs
  | .smember o _ => Canon names o
  | .dmember o f => Canon names o ∧ Canon names f
  | .call f args => Canon names f ∧ CanonArgs names args
  | .un _ x => Canon names x
  | .bin _ x y => Canon names x ∧ Canon names y
  | .cond a b d => Canon names a ∧ Canon names b ∧ Canon names d
def CanonArgs (names : Nat → String) : Exprs → Prop
  | .nil => True
  | .cons e r => Canon names e ∧ CanonArgs names r
def CanonObj (names : Nat → String) : ObjFields → Prop
  | .nil => True
  | .named k b v r => (if isShortcut names k v then b = true ∧ v = .data k else b = false ∧ Canon names v) ∧ CanonObj names r
  | .spread v r => Canon names v ∧ CanonObj names r
def CanonArr (names : Nat → String) : ArrFields → Prop
  | .nil => True
  | .item v r => Canon names v ∧ CanonArr names r
  | .spread v r => Canon names v ∧ CanonArr names r
  | .hole r => CanonArr names r
end

mutual
theorem norm_canon (names : Nat → String) : ∀ (e : Expr), Canon c names e → norm c names e = e
  | .scope _, h => by simp [Canon] at h
  | .data x, h => by simpa [Canon, norm] using h
  | .toStr _, h => by simp [Canon] at h
  | .undef, _ => by simp [norm]
  | .null, _ => by simp [norm]
  | .str _, _ => by simp [norm]
  | .bool _, _ => by simp [norm]
  | .int v, h => by simpa [Canon, norm] using h
  | .float t, h => by simpa [Canon, norm] using h
  | .obj fs, h => by simp [norm, normObj_canon names fs (by simpa [Canon] using h)]
  | .arr fs, h => by simp [norm, normArr_canon names fs (by simpa [Canon] using h)]
  | .smember o f, h => by simp [norm, norm_canon names o (by simpa [Canon] using h)]
  | .dmember o f, h => by
    simp only [Canon] at h
    simp [norm, norm_canon names o h.1, norm_canon names f h.2]
  | .call f args, h => by
    simp only [Canon] at h
    simp [norm, norm_canon names f h.1, normArgs_canon names args h.2]
  | .un op x, h => by simp [norm, norm_canon names x (by simpa [Canon] using h)]
  | .bin op x y, h => by
    simp only [Canon] at h
    simp [norm, norm_canon names x h.1, norm_canon names y h.2]
  | .cond a b d, h => by
    simp only [Canon] at h
    simp [norm, norm_canon names a h.1, norm_canon names b h.2.1, norm_canon names d h.2.2]
theorem normArgs_canon (names : Nat → String) : ∀ (a : Exprs), CanonArgs c names a → normArgs c names a = a
  | .nil, _ => by simp [normArgs]
  | .cons e r, h => by
    simp only [CanonArgs] at h
    simp [normArgs, norm_canon names e h.1, normArgs_canon names r h.2]
theorem normObj_canon (names : Nat → String) : ∀ (fs : ObjFields), CanonObj c names fs → normObj c names fs = fs
  | .nil, _ => by simp [normObj]
  | .named k b v r, h => by
    simp only [CanonObj] at h
    by_cases hs : isShortcut names k v = true
    · simp only [hs, if_true] at h
      obtain ⟨⟨rfl, rfl⟩, hr⟩ := h
      simp [normObj, hs, normObj_canon names r hr]
    · simp only [hs] at h
      obtain ⟨⟨rfl, hv⟩, hr⟩ := h
      simp [normObj, hs, norm_canon names v hv, normObj_canon names r hr]
  | .spread v r, h => by
    simp only [CanonObj] at h
    simp [normObj, norm_canon names v h.1, normObj_canon names r h.2]
theorem normArr_canon (names : Nat → String) : ∀ (fs : ArrFields), CanonArr c names fs → normArr c names fs = fs
  | .nil, _ => by simp [normArr]
  | .item v r, h => by
    simp only [CanonArr] at h
    simp [normArr, norm_canon names v h.1, normArr_canon names r h.2]
  | .spread v r, h => by
    simp only [CanonArr] at h
    simp [normArr, norm_canon names v h.1, normArr_canon names r h.2]
  | .hole r, h => by
    simp only [CanonArr] at h
    simp [normArr, normArr_canon names r h]
end

/-- **the round trip on the parser's image**: printing and re-parsing gives the same tree -/
theorem parse_print_id (names : Nat → String) (e : Expr) (h : Printable e = true) (hc : Canon c names e) :
    ∃ n, ∀ m, n ≤ m → parseExpr c m (strExpr names e) = some e := by
  obtain ⟨n, hn⟩ := parse_print c names e h
  exact ⟨n, fun m hm => by rw [hn m hm, norm_canon c names e hc]⟩

/-! non-vacuity: `(a ?? b) * -c.d[0]` is printable and canonical for a number reader that reads `0` back -/
def exCfg : Cfg := ⟨fun t => if t = "0" then .int 0 else .float t⟩
def exE : Expr := .bin .Multiply (.bin .NullishCoalescing (.data "a") (.data "b"))
  (.un .Negative (.dmember (.smember (.data "c") "d") (.int 0)))
example : Printable exE = true ∧ Canon exCfg (fun _ => "s") exE := by
  refine ⟨by decide, ?_⟩
  simp [exE, Canon, kwOr, exCfg]
  decide

end GE.Parse
