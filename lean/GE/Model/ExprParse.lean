import GE.Model.Expr
import GE.Spec.WxGrammar
/-!
Token-level model of the WXML expression parser (`parse/expr.rs`): recursive descent with one function per
precedence level (`parse_cond` → `parse_logic_or` … `parse_multiply` → `parse_reverse` (unary) → member /
index / call chain → primary).  Levels are numbered as in `GE.SpecW`: 0 primary, 1 member, 2 unary,
3 … 12 the left-associative binary levels (`wLevel`), 13 conditional.

`parseL n L ts` parses one expression of level `L` from the front of `ts` (fuel `n`: every recursive call
uses one unit, so any `n` above the nesting depth of the input works — `parseL_mono`); `contAt n L x ts`
continues at level `L` after an operand `x` has been read (the loop of that level).
Numeric literal texts are turned into nodes by `Cfg.numOf` (the number scanner is modelled in
`GE/Model/Number.lean`).  A lexer for the differential runs is at the end of the file.
-/
namespace GE.Parse
open GE.Spec (Tok spells unText binText)
open GE.SpecW (wLevel)

structure Cfg where
  numOf : String → Expr

def unOpOf (s : String) : Option UnOp := allUnOps.find? (fun op => spells s (unText op))
def binOpAt (L : Nat) (s : String) : Option BinOp := allBinOps.find? (fun op => wLevel op == L && spells s (binText op))

/-- an identifier in operand position: the four literal keywords, otherwise a data field -/
def kwOr (s : String) : Expr :=
  if s = "true" then .bool true else if s = "false" then .bool false
  else if s = "null" then .null else if s = "undefined" then .undef else .data s

mutual
def parseL (c : Cfg) : Nat → Nat → List Tok → Option (Expr × List Tok)
  | 0, _, _ => none
  | n + 1, L, t =>
    if L = 0 then
      (match t with
       | .id s :: r => some (kwOr s, r)
       | .num s :: r => some (c.numOf s, r)
       | .str s :: r => some (.str s, r)
       | .p s :: r =>
         if s = "(" then
           (match parseL c n 13 r with
            | some (x, .p s' :: r') => if s' = ")" then some (x, r') else none
            | _ => none)
         else if s = "[" then
           (match parseItems c n r with
            | some (fs, .p s' :: r') => if s' = "]" then some (.arr fs, r') else none
            | _ => none)
         else if s = "{" then
           (match parseFields c n r with
            | some (fs, .p s' :: r') => if s' = "}" then some (.obj fs, r') else none
            | _ => none)
         else none
       | [] => none)
    else if L = 2 then
      (match t with
       | .p s :: r =>
         (match unOpOf s with
          | some op =>
            (match parseL c n 2 r with
             | some (x, r') => some (.un op x, r')
             | none => none)
          | none => parseL c n 1 t)
       | _ => parseL c n 1 t)
    else
      (match parseL c n (L - 1) t with
       | some (x, r) => contAt c n L x r
       | none => none)
def contAt (c : Cfg) : Nat → Nat → Expr → List Tok → Option (Expr × List Tok)
  | 0, _, _, _ => none
  | n + 1, L, x, t =>
    if L = 1 then
      (match t with
       | .p s :: r =>
         if s = "." then
           (match r with
            | .id f :: r' => contAt c n 1 (.smember x f) r'
            | _ => none)
         else if s = "[" then
           (match parseL c n 13 r with
            | some (i, .p s' :: r') => if s' = "]" then contAt c n 1 (.dmember x i) r' else none
            | _ => none)
         else if s = "(" then
           (match parseArgs c n r with
            | some (as, .p s' :: r') => if s' = ")" then contAt c n 1 (.call x as) r' else none
            | _ => none)
         else some (x, t)
       | _ => some (x, t))
    else if L = 13 then
      (match t with
       | .p s :: r =>
         if s = "?" then
           (match parseL c n 13 r with
            | some (a, .p s' :: r') =>
              if s' = ":" then
                (match parseL c n 13 r' with
                 | some (b, r'') => some (.cond x a b, r'')
                 | none => none)
              else none
            | _ => none)
         else some (x, t)
       | _ => some (x, t))
    else
      (match t with
       | .p s :: r =>
         (match binOpAt L s with
          | some op =>
            (match parseL c n (L - 1) r with
             | some (y, r') => contAt c n L (.bin op x y) r'
             | none => none)
          | none => some (x, t))
       | _ => some (x, t))
/-- call arguments, up to (not including) the `)` -/
def parseArgs (c : Cfg) : Nat → List Tok → Option (Exprs × List Tok)
  | 0, _ => none
  | n + 1, t =>
    match t with
    | .p ")" :: _ => some (.nil, t)
    | _ =>
      (match parseL c n 13 t with
       | some (e, .p "," :: r) =>
         (match parseArgs c n r with
          | some (as, r') => some (.cons e as, r')
          | none => none)
       | some (e, r) => some (.cons e .nil, r)
       | none => none)
/-- array items, up to the `]`; a comma where an item is expected is an elision -/
def parseItems (c : Cfg) : Nat → List Tok → Option (ArrFields × List Tok)
  | 0, _ => none
  | n + 1, t =>
    match t with
    | .p "]" :: _ => some (.nil, t)
    | .p "," :: r =>
      (match parseItems c n r with
       | some (fs, r') => some (.hole fs, r')
       | none => none)
    | .p "..." :: r =>
      (match parseL c n 13 r with
       | some (e, .p "," :: r1) =>
         (match parseItems c n r1 with
          | some (fs, r') => some (.spread e fs, r')
          | none => none)
       | some (e, r1) => some (.spread e .nil, r1)
       | none => none)
    | _ =>
      (match parseL c n 13 t with
       | some (e, .p "," :: r1) =>
         (match parseItems c n r1 with
          | some (fs, r') => some (.item e fs, r')
          | none => none)
       | some (e, r1) => some (.item e .nil, r1)
       | none => none)
/-- object fields, up to the `}` -/
def parseFields (c : Cfg) : Nat → List Tok → Option (ObjFields × List Tok)
  | 0, _ => none
  | n + 1, t =>
    match t with
    | .p "}" :: _ => some (.nil, t)
    | .p "..." :: r =>
      (match parseL c n 13 r with
       | some (e, .p "," :: r1) =>
         (match parseFields c n r1 with
          | some (fs, r') => some (.spread e fs, r')
          | none => none)
       | some (e, r1) => some (.spread e .nil, r1)
       | none => none)
    | .id k :: .p ":" :: r =>
      (match parseL c n 13 r with
       | some (e, .p "," :: r1) =>
         (match parseFields c n r1 with
          | some (fs, r') => some (.named k false e fs, r')
          | none => none)
       | some (e, r1) => some (.named k false e .nil, r1)
       | none => none)
    | .id k :: .p "," :: r1 =>
      (match parseFields c n r1 with
       | some (fs, r') => some (.named k true (.data k) fs, r')
       | none => none)
    | .id k :: r1 => some (.named k true (.data k) .nil, r1)
    | _ => none
end

/-- a whole expression: level 13, nothing left over -/
def parseExpr (c : Cfg) (n : Nat) (ts : List Tok) : Option Expr :=
  match parseL c n 13 ts with
  | some (x, []) => some x
  | _ => none

/-! ### a lexer for the differential runs (not part of any theorem) -/

def isIdStart (c : Char) : Bool := c.isAlpha || c = '_' || c = '$' || c.toNat ≥ 128
def isIdPart (c : Char) : Bool := isIdStart c || c.isDigit

def puncts : List String :=
  ["...", ">>>", "===", "!==", "<<", ">>", "<=", ">=", "==", "!=", "&&", "||", "??",
   "+", "-", "*", "/", "%", "<", ">", "&", "|", "^", "!", "~", "?", ":", ".", ",", "(", ")", "[", "]", "{", "}"]

def hexVal (c : Char) : Option Nat :=
  if c.isDigit then some (c.toNat - 48) else if 'a' ≤ c ∧ c ≤ 'f' then some (c.toNat - 87)
  else if 'A' ≤ c ∧ c ≤ 'F' then some (c.toNat - 55) else none

def hexNum (cs : List Char) : Option Nat := cs.foldlM (fun a c => (hexVal c).map (a * 16 + ·)) 0

/-- the body of a string literal up to the closing quote `q`: decoded text and the rest -/
def lexStr (q : Char) : Nat → List Char → List Char → Option (List Char × List Char)
  | 0, _, _ => none
  | _, [], _ => none
  | n + 1, c :: r, acc =>
    if c = q then some (acc.reverse, r)
    else if c = '\\' then
      (match r with
       | 'n' :: r' => lexStr q n r' ('\n' :: acc)
       | 't' :: r' => lexStr q n r' ('\t' :: acc)
       | 'r' :: r' => lexStr q n r' ('\r' :: acc)
       | 'b' :: r' => lexStr q n r' (Char.ofNat 8 :: acc)
       | 'f' :: r' => lexStr q n r' (Char.ofNat 12 :: acc)
       | 'v' :: r' => lexStr q n r' (Char.ofNat 11 :: acc)
       | '0' :: r' => lexStr q n r' (Char.ofNat 0 :: acc)
       | 'x' :: a :: b :: r' => (match hexNum [a, b] with | some v => lexStr q n r' (Char.ofNat v :: acc) | none => none)
       | 'u' :: '{' :: r' =>
         let ds := r'.takeWhile (· ≠ '}')
         (match hexNum ds, r'.dropWhile (· ≠ '}') with
          | some v, _ :: r'' => lexStr q n r'' (Char.ofNat v :: acc)
          | _, _ => none)
       | 'u' :: a :: b :: c' :: d :: r' => (match hexNum [a, b, c', d] with | some v => lexStr q n r' (Char.ofNat v :: acc) | none => none)
       | '\n' :: r' => lexStr q n r' acc
       | x :: r' => lexStr q n r' (x :: acc)
       | [] => none)
    else lexStr q n r (c :: acc)

def skipLine : List Char → List Char
  | [] => []
  | c :: r => if c = '\n' then r else skipLine r

def skipBlock : List Char → Option (List Char)
  | [] => none
  | '*' :: '/' :: r => some r
  | _ :: r => skipBlock r

/-- a numeric literal: `0x…` / `0o…` / `0b…` with alphanumerics, otherwise digits, an optional fraction, an optional exponent -/
def lexNum (cs : List Char) : List Char × List Char :=
  let isPre := match cs with
    | '0' :: x :: _ => x = 'x' || x = 'X' || x = 'o' || x = 'O' || x = 'b' || x = 'B'
    | _ => false
  let isLegacy := match cs with
    | '0' :: x :: _ => x.isDigit
    | _ => false
  if isPre then (cs.takeWhile isIdPart, cs.dropWhile isIdPart)
  else if isLegacy then (cs.takeWhile Char.isDigit, cs.dropWhile Char.isDigit)
  else
    let d1 := cs.takeWhile Char.isDigit
    let r1 := cs.dropWhile Char.isDigit
    let (frac, r2) := match r1 with
      | '.' :: r => ('.' :: r.takeWhile Char.isDigit, r.dropWhile Char.isDigit)
      | _ => ([], r1)
    let (ex, r3) := match r2 with
      | e :: sg :: d :: r =>
        if (e = 'e' || e = 'E') && (sg = '+' || sg = '-') && d.isDigit then (e :: sg :: (d :: r).takeWhile Char.isDigit, (d :: r).dropWhile Char.isDigit)
        else if (e = 'e' || e = 'E') && sg.isDigit then (e :: (sg :: d :: r).takeWhile Char.isDigit, (sg :: d :: r).dropWhile Char.isDigit)
        else ([], r2)
      | [e, d] => if (e = 'e' || e = 'E') && d.isDigit then ([e, d], []) else ([], r2)
      | _ => ([], r2)
    (d1 ++ frac ++ ex ++ r3.takeWhile isIdPart, r3.dropWhile isIdPart)

def lex : Nat → List Char → Option (List Tok)
  | 0, _ => none
  | _, [] => some []
  | n + 1, c :: r =>
    if c = ' ' || c = '\t' || c = '\n' || c = '\r' then lex n r
    else if c = '/' && r.head? = some '/' then lex n (skipLine r)
    else if c = '/' && r.head? = some '*' then (match skipBlock r.tail with | some r' => lex n r' | none => none)
    else if c = '"' || c = '\'' then
      (match lexStr c (r.length + 1) r [] with
       | some (s, r') => (lex n r').map (Tok.str (String.ofList s) :: ·)
       | none => none)
    else if c.isDigit || (c = '.' && (r.head?.map Char.isDigit).getD false) then
      let (t, r') := lexNum (c :: r)
      (lex n r').map (Tok.num (String.ofList t) :: ·)
    else if isIdStart c then
      let w := (c :: r).takeWhile isIdPart
      let r' := (c :: r).dropWhile isIdPart
      let ws := String.ofList w
      (lex n r').map ((if ws = "typeof" || ws = "void" || ws = "instanceof" then Tok.p ws else Tok.id ws) :: ·)
    else
      (match puncts.find? (fun p => p.toList.isPrefixOf (c :: r)) with
       | some p => (lex n ((c :: r).drop p.length)).map (Tok.p p :: ·)
       | none => none)

end GE.Parse
