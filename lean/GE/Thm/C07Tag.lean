/-
C07, tag level — `bindmap_refines`: running exactly the binding-map updaters of a field that the map advertises leaves the
tree of a fresh creation.

Over the tag-level model (`GE/Model/TagSem.lean`): the updaters of a data field `f` rewrite the text and attribute bindings
of the static part of the template that read `f` (`bmUpdate`); `f` is advertised when it is read somewhere and nowhere
inside a `wx:if` chain or a `wx:for` (conditions, list expressions, keys, bodies: `advertised`).  If the new data differ from
the old ones only in what `f` can influence (`SameBut`: every expression that does not read `f` keeps its value), then after
`bmUpdate` the tree renders the template under the new data: it is, up to node creation times, the tree of a fresh creation.
The model's advertised set and its `bmUpdate` are compared with the generated binding map (`B`) and with
`ProcGenWrapper.bindingMapUpdate` by the `tagsem` stream (steps `bindmap`).
-/
import GE.Thm.C06Tag

namespace GE.TagSem

variable {E V T : Type}

/-- the new data differ from the old ones only in what `f` can influence -/
def SameBut (s : Sem E V T) (f : String) (D0 D1 : V) : Prop :=
  ∀ e sc, s.reads e f = false → s.eval e D0 sc = s.eval e D1 sc

theorem rendersItems_mono {P Q : V → V → Nodes V → Prop} (h : ∀ a x nch, P a x nch → Q a x nch) :
    ∀ (its : List (V × V)) (items : Items V), rendersItems P its items → rendersItems Q its items
  | [], .nil, _ => trivial
  | [], .cons .., h0 => by simp [rendersItems] at h0
  | _ :: _, .nil, h0 => by simp [rendersItems] at h0
  | (a, x) :: r, .cons _ _ ch rest, h0 => ⟨h0.1, h a x ch h0.2.1, rendersItems_mono h r rest h0.2.2⟩

theorem evalAttrs_congr (s : Sem E V T) (f : String) {D0 D1 : V} (hs : SameBut s f D0 D1) (sc : List V) :
    ∀ attrs : List (String × E), attrs.any (fun a => s.reads a.2 f) = false → evalAttrs s D0 sc attrs = evalAttrs s D1 sc attrs
  | [], _ => rfl
  | a :: r, h => by
    simp only [List.any_cons, Bool.or_eq_false_iff] at h
    simp only [evalAttrs, List.map_cons, hs a.2 sc h.1]
    have := evalAttrs_congr s f hs sc r h.2
    simp only [evalAttrs] at this
    rw [this]

theorem firstTrue_congr (s : Sem E V T) (f : String) {D0 D1 : V} (hs : SameBut s f D0 D1) (sc : List V) :
    ∀ (bs : Branches E) (i : Nat), occursBr s f bs = false → firstTrue s D0 sc bs i = firstTrue s D1 sc bs i
  | .last _ _, _, _ => rfl
  | .cons c _ r, i, h => by
    simp only [occursBr, Bool.or_eq_false_iff] at h
    simp only [firstTrue, hs c sc h.1.1, firstTrue_congr s f hs sc r (i + 1) h.2]

/-! a subtree none of whose expressions reads `f` renders the same under both data -/
mutual
theorem renders_congr (s : Sem E V T) (f : String) {D0 D1 : V} (hs : SameBut s f D0 D1) :
    ∀ (t : Tpl E) (n : Node V) (sc : List V), occurs s f t = false → renders s D0 sc t n → renders s D1 sc t n
  | .text e, .text _ _, sc, ho, h => by simp only [occurs] at ho; simp only [renders] at h ⊢; rw [h, hs e sc ho]
  | .elem _ attrs ch, .elem .., sc, ho, h => by
    simp only [occurs, Bool.or_eq_false_iff] at ho
    exact ⟨h.1, by rw [h.2.1, evalAttrs_congr s f hs sc attrs ho.1], rendersL_congr s f hs ch _ sc ho.2 h.2.2⟩
  | .block inc ch, .virt .., sc, ho, h => rendersL_congr s f hs ch _ (if inc then [] else sc) (by simpa [occurs] using ho) h
  | .cond bs, .ifn _ k nch, sc, ho, h => by
    simp only [occurs] at ho
    refine ⟨by rw [h.1]; exact firstTrue_congr s f hs sc bs 1 ho, rendersBr_congr s f hs bs k 1 nch sc ho h.2⟩
  | .loop l body, .forn _ items, sc, ho, h => by
    simp only [occurs, Bool.or_eq_false_iff] at ho
    simp only [renders] at h ⊢
    rw [← hs l sc ho.1]
    exact rendersItems_mono (fun a x nch hp => rendersL_congr s f hs body nch (sc ++ [a, x]) ho.2 hp) _ items h
  | .loopK l key body, .fornK _ raw items, sc, ho, h => by
    simp only [occurs, Bool.or_eq_false_iff] at ho
    simp only [renders] at h ⊢
    rw [← hs l sc ho.1]
    exact ⟨h.1, rendersItems_mono (fun a x nch hp => rendersL_congr s f hs body nch (sc ++ [a, x]) ho.2 hp) _ items h.2⟩
  | .tref is fields cases, .tnode _ k nch, sc, ho, h => by
    simp only [occurs, Bool.or_eq_false_iff] at ho
    simp only [renders] at h ⊢
    rw [← hs is sc ho.1, ← evalAttrs_congr s f hs sc fields ho.2]
    exact h
  | .text _, .elem .., _, _, h | .text _, .virt .., _, _, h | .text _, .ifn .., _, _, h
  | .text _, .forn .., _, _, h | .text _, .fornK .., _, _, h | .text _, .tnode .., _, _, h => by simp [renders] at h
  | .elem .., .text .., _, _, h | .elem .., .virt .., _, _, h | .elem .., .ifn .., _, _, h
  | .elem .., .forn .., _, _, h | .elem .., .fornK .., _, _, h | .elem .., .tnode .., _, _, h => by simp [renders] at h
  | .block _ _, .text .., _, _, h | .block _ _, .elem .., _, _, h | .block _ _, .ifn .., _, _, h
  | .block _ _, .forn .., _, _, h | .block _ _, .fornK .., _, _, h | .block _ _, .tnode .., _, _, h => by simp [renders] at h
  | .cond _, .text .., _, _, h | .cond _, .elem .., _, _, h | .cond _, .virt .., _, _, h
  | .cond _, .forn .., _, _, h | .cond _, .fornK .., _, _, h | .cond _, .tnode .., _, _, h => by simp [renders] at h
  | .loop .., .text .., _, _, h | .loop .., .elem .., _, _, h | .loop .., .virt .., _, _, h
  | .loop .., .ifn .., _, _, h | .loop .., .fornK .., _, _, h | .loop .., .tnode .., _, _, h => by simp [renders] at h
  | .loopK .., .text .., _, _, h | .loopK .., .elem .., _, _, h | .loopK .., .virt .., _, _, h
  | .loopK .., .ifn .., _, _, h | .loopK .., .forn .., _, _, h | .loopK .., .tnode .., _, _, h => by simp [renders] at h
  | .tref .., .text .., _, _, h | .tref .., .elem .., _, _, h | .tref .., .virt .., _, _, h
  | .tref .., .ifn .., _, _, h | .tref .., .forn .., _, _, h | .tref .., .fornK .., _, _, h => by simp [renders] at h
theorem rendersL_congr (s : Sem E V T) (f : String) {D0 D1 : V} (hs : SameBut s f D0 D1) :
    ∀ (ts : Tpls E) (ns : Nodes V) (sc : List V), occursL s f ts = false → rendersL s D0 sc ts ns → rendersL s D1 sc ts ns
  | .nil, .nil, _, _, _ => trivial
  | .nil, .cons .., _, _, h => by simp [rendersL] at h
  | .cons .., .nil, _, _, h => by simp [rendersL] at h
  | .cons t r, .cons n ns, sc, ho, h => by
    simp only [occursL, Bool.or_eq_false_iff] at ho
    exact ⟨renders_congr s f hs t n sc ho.1 h.1, rendersL_congr s f hs r ns sc ho.2 h.2⟩
theorem rendersBr_congr (s : Sem E V T) (f : String) {D0 D1 : V} (hs : SameBut s f D0 D1) :
    ∀ (bs : Branches E) (k i : Nat) (nch : Nodes V) (sc : List V), occursBr s f bs = false →
      rendersBr s D0 sc bs k i nch → rendersBr s D1 sc bs k i nch
  | .last he els, k, i, nch, sc, ho, h => by
    simp only [occursBr] at ho
    simp only [rendersBr] at h ⊢
    split
    · rename_i hc
      simp only [hc, if_true] at h
      exact rendersL_congr s f hs els nch sc ho h
    · rename_i hc
      simpa [hc] using h
  | .cons _ body r, k, i, nch, sc, ho, h => by
    simp only [occursBr, Bool.or_eq_false_iff] at ho
    simp only [rendersBr] at h ⊢
    split
    · rename_i hc
      simp only [hc, if_true] at h
      exact rendersL_congr s f hs body nch sc ho.1.2 h
    · rename_i hc
      simp only [hc] at h
      exact rendersBr_congr s f hs r k (i + 1) nch sc ho.2 (by simpa using h)
end

theorem bmAttrs_eq (s : Sem E V T) (f : String) {D0 D1 : V} (hs : SameBut s f D0 D1) (sc : List V) : ∀ attrs : List (String × E),
    bmAttrs s D1 sc f attrs (evalAttrs s D0 sc attrs) = evalAttrs s D1 sc attrs
  | [] => rfl
  | a :: r => by
    have ih := bmAttrs_eq s f hs sc r
    simp only [evalAttrs] at ih
    simp only [evalAttrs, List.map_cons, bmAttrs, ih]
    cases hr : s.reads a.2 f with
    | true => simp
    | false => simp [hs a.2 sc hr]

mutual
theorem bm_renders (s : Sem E V T) (f : String) {D0 D1 : V} (hs : SameBut s f D0 D1) :
    ∀ (t : Tpl E) (n : Node V) (sc : List V), dynOccurs s f t = false → renders s D0 sc t n → renders s D1 sc t (bmUpdate s D1 sc f t n)
  | .text e, .text b old, sc, _, h => by
    simp only [renders] at h
    simp only [bmUpdate, renders]
    cases hr : s.reads e f with
    | true => simp
    | false => simp [h, hs e sc hr]
  | .elem _ attrs ch, .elem b tag old och, sc, hd, h => by
    obtain ⟨h1, h2, h3⟩ := h
    simp only [bmUpdate, renders]
    exact ⟨h1, by rw [h2]; exact bmAttrs_eq s f hs sc attrs, bm_rendersL s f hs ch och sc (by simpa [dynOccurs] using hd) h3⟩
  | .block inc ch, .virt b och, sc, hd, h => by
    simp only [dynOccurs, Bool.or_eq_false_iff] at hd
    obtain ⟨hinc, hd⟩ := hd
    subst hinc
    simp only [bmUpdate, renders]
    exact bm_rendersL s f hs ch och sc hd h
  | .cond bs, .ifn b k och, sc, hd, h => by
    simp only [bmUpdate]
    exact renders_congr s f hs (.cond bs) _ sc (by simpa [dynOccurs, occurs] using hd) h
  | .loop l body, .forn b items, sc, hd, h => by
    simp only [bmUpdate]
    exact renders_congr s f hs (.loop l body) _ sc (by simpa [dynOccurs, occurs] using hd) h
  | .loopK l key body, .fornK b raw items, sc, hd, h => by
    simp only [bmUpdate]
    exact renders_congr s f hs (.loopK l key body) _ sc (by simpa [dynOccurs, occurs] using hd) h
  | .tref is fields cases, .tnode b k och, sc, hd, h => by
    simp only [bmUpdate]
    exact renders_congr s f hs (.tref is fields cases) _ sc (by simpa [dynOccurs, occurs] using hd) h
  | .text _, .elem .., _, _, h | .text _, .virt .., _, _, h | .text _, .ifn .., _, _, h
  | .text _, .forn .., _, _, h | .text _, .fornK .., _, _, h | .text _, .tnode .., _, _, h => by simp [renders] at h
  | .elem .., .text .., _, _, h | .elem .., .virt .., _, _, h | .elem .., .ifn .., _, _, h
  | .elem .., .forn .., _, _, h | .elem .., .fornK .., _, _, h | .elem .., .tnode .., _, _, h => by simp [renders] at h
  | .block _ _, .text .., _, _, h | .block _ _, .elem .., _, _, h | .block _ _, .ifn .., _, _, h
  | .block _ _, .forn .., _, _, h | .block _ _, .fornK .., _, _, h | .block _ _, .tnode .., _, _, h => by simp [renders] at h
  | .cond _, .text .., _, _, h | .cond _, .elem .., _, _, h | .cond _, .virt .., _, _, h
  | .cond _, .forn .., _, _, h | .cond _, .fornK .., _, _, h | .cond _, .tnode .., _, _, h => by simp [renders] at h
  | .loop .., .text .., _, _, h | .loop .., .elem .., _, _, h | .loop .., .virt .., _, _, h
  | .loop .., .ifn .., _, _, h | .loop .., .fornK .., _, _, h | .loop .., .tnode .., _, _, h => by simp [renders] at h
  | .loopK .., .text .., _, _, h | .loopK .., .elem .., _, _, h | .loopK .., .virt .., _, _, h
  | .loopK .., .ifn .., _, _, h | .loopK .., .forn .., _, _, h | .loopK .., .tnode .., _, _, h => by simp [renders] at h
  | .tref .., .text .., _, _, h | .tref .., .elem .., _, _, h | .tref .., .virt .., _, _, h
  | .tref .., .ifn .., _, _, h | .tref .., .forn .., _, _, h | .tref .., .fornK .., _, _, h => by simp [renders] at h
theorem bm_rendersL (s : Sem E V T) (f : String) {D0 D1 : V} (hs : SameBut s f D0 D1) :
    ∀ (ts : Tpls E) (ns : Nodes V) (sc : List V), dynOccursL s f ts = false → rendersL s D0 sc ts ns →
      rendersL s D1 sc ts (bmUpdateL s D1 sc f ts ns)
  | .nil, .nil, _, _, _ => by simp [bmUpdateL, rendersL]
  | .nil, .cons .., _, _, h => by simp [rendersL] at h
  | .cons .., .nil, _, _, h => by simp [rendersL] at h
  | .cons t r, .cons n ns, sc, hd, h => by
    simp only [dynOccursL, Bool.or_eq_false_iff] at hd
    simp only [bmUpdateL]
    exact ⟨bm_renders s f hs t n sc hd.1 h.1, bm_rendersL s f hs r ns sc hd.2 h.2⟩
end

/-- C07 at the tag level: after only what `f` influences changed, running the updaters of an advertised field `f` on any tree that renders
the template under the old data gives, up to node creation times, the tree of a fresh creation with the new data -/
theorem bindmap_refines (s : Sem E V T) (f : String) (t : Tpl E) (D0 D1 : V) (hs : SameBut s f D0 D1)
    (hadv : advertised s f t = true) (n : Node V) (hn : renders s D0 [] t n) :
    (bmUpdate s D1 [] f t n).shape = (create s 0 D1 [] t).shape := by
  simp only [advertised, Bool.and_eq_true, Bool.not_eq_true'] at hadv
  exact renders_shape s D1 t _ [] (bm_renders s f hs t n [] hadv.1.2 hn)

/-- a field that is read inside a `wx:if` chain or a `wx:for` is not advertised -/
theorem not_advertised_of_dynOccurs (s : Sem E V T) (f : String) (t : Tpl E) (h : dynOccurs s f t = true) : advertised s f t = false := by
  simp [advertised, h]

/-- a template with an `<include>` advertises nothing -/
theorem not_advertised_of_include (s : Sem E V T) (f : String) (t : Tpl E) (h : hasIncl t = true) : advertised s f t = false := by
  simp [advertised, h]

end GE.TagSem
