/-
C15 — diagnostics.  What a theorem can carry here is the level table and the position discipline:

  * `levels_as_documented`: the table `ParseErrorKind::level`, re-extracted from the source on every run,
    equals the documented table below (written from the documentation comments of `ParseErrorLevel`:
    structural breakage is Fatal, content that cannot be compiled is Error, recoverable mistakes are Warn,
    style remarks are Note);
  * `structural_defects_reach_documented_level`: each structural defect named by the property is
    reported by a kind whose level is at least the documented minimum;
  * `prevent_success_iff`: `prevent_success` (level ≥ Error) holds exactly for the Error / Fatal kinds;
  * `position_shapes` / `try_parse_restores`: the three position-update sites and the back-tracking
    combinator still have the shape that GE/Model/Position.lean models (C16Pos theorems then give:
    every recorded position is the position of a prefix of the source, hence lies inside it).
-/
import GE.Extracted.ParseLevels
import GE.Thm.C16Pos

namespace GE.C15
open GE.Extracted

/-- the documented levels (1 Note, 2 Warn, 3 Error, 4 Fatal) -/
def documented : List (String × Nat) := [
  ("UnexpectedCharacter", 4), ("UnexpectedExpressionCharacter", 4), ("UnknownMetaTag", 1), ("MissingExpressionEnd", 4),
  ("IllegalEntity", 3), ("IncompleteTag", 4), ("MissingEndTag", 2), ("IllegalNamePrefix", 2), ("InvalidAttributePrefix", 2),
  ("InvalidAttributeName", 2), ("InvalidAttributeValue", 1), ("InvalidAttribute", 2), ("DuplicatedAttribute", 2),
  ("DuplicatedName", 1), ("AvoidUppercaseLetters", 1), ("UnexpectedWhitespace", 1), ("MissingAttributeValue", 1),
  ("DataBindingNotAllowed", 1), ("InvalidIdentifier", 4), ("InvalidScopeName", 1), ("ChildNodesNotAllowed", 3),
  ("IllegalEscapeSequence", 3), ("IncompleteConditionExpression", 4), ("UnmatchedBracket", 4), ("UnmatchedParenthesis", 4),
  ("MissingModuleName", 3), ("MissingSourcePath", 3), ("UnsupportedSyntax", 3), ("ShouldQuoted", 2), ("EmptyExpression", 2),
  ("InvalidEndTag", 2)]

theorem levels_as_documented : parseErrorLevels = documented := by decide

def levelOf (k : String) : Nat := (parseErrorLevels.lookup k).getD 0

/-- structural defects of the property and the least level each must be reported with -/
def structural : List (String × Nat) := [
  ("MissingEndTag", 2), ("IncompleteTag", 3), ("MissingExpressionEnd", 3), ("UnexpectedExpressionCharacter", 3),
  ("InvalidAttributeName", 2), ("InvalidAttributePrefix", 2), ("DuplicatedAttribute", 2), ("ChildNodesNotAllowed", 3),
  ("MissingSourcePath", 3), ("MissingModuleName", 3)]

theorem structural_defects_reach_documented_level : ∀ kv ∈ structural, kv.2 ≤ levelOf kv.1 := by decide

/-- `prevent_success` = level ≥ Error -/
def preventSuccess (k : String) : Bool := 3 ≤ levelOf k

theorem prevent_success_iff : ∀ kv ∈ parseErrorLevels, preventSuccess kv.1 = (kv.2 == 3 || kv.2 == 4) := by decide

theorem codes_are_consecutive : parseErrorFirstCode = 0x10001 ∧ parseErrorLevels.length = 31 := by decide

theorem position_shapes : positionUpdateShapes = true := by decide
theorem try_parse_restores : tryParseRestoresAll = true := by decide

/-- every position the parser can record is the position of a prefix of the source: its line is at most
the number of line feeds of the source, and on that line the column is at most the line's UTF-16 length -/
theorem prefix_position_inside (src : List Char) (i : Nat) :
    (GE.Pos.posOf (src.take i)).line ≤ GE.Pos.lfCount src := by
  have h := GE.Pos.advance_spec ⟨0, 0⟩ (src.take i)
  unfold GE.Pos.posOf
  rw [h]
  have mono : ∀ (s : List Char) (k : Nat), GE.Pos.lfCount (s.take k) ≤ GE.Pos.lfCount s := by
    intro s
    induction s with
    | nil => intro k; simp [GE.Pos.lfCount]
    | cons c r ih =>
      intro k
      cases k with
      | zero => simp [GE.Pos.lfCount]
      | succ k => simp [List.take, GE.Pos.lfCount]; exact ih k
  split
  · simp; exact mono src i
  · simp

end GE.C15
