"""Data mutation, update-path trees that cover a diff by construction, and state projection of dumped trees."""
import copy, json

LEAF_POOL = [0, 1, 2, "", "s", "new", None, {"$": "undefined"}, True, False, {"p": 9}, [7, 8], {"$": "fn", "name": "neg"}, {"k": "x", "p": 3}, "x", "y", 5, {"q": {"k": "w"}}]


def is_atom(v):
    return not isinstance(v, (dict, list)) or (isinstance(v, dict) and "$" in v)


def diff_tree(a, b):
    """exact update-path tree: None if equal, True where a subtree must be taken as changed"""
    if is_atom(a) or is_atom(b):
        return None if json.dumps(a) == json.dumps(b) else True
    if isinstance(a, list) != isinstance(b, list):
        return True
    if isinstance(a, list):
        if len(a) != len(b):
            return True
        out = {}
        for i, (x, y) in enumerate(zip(a, b)):
            d = diff_tree(x, y)
            if d is not None:
                out[str(i)] = d
        return out or None
    # The enumeration order of an object is observable (wx:for over an object: positions follow the key sequence).  Path updates can
    # only append a key; dropping, reordering or inserting a key means the object itself was replaced: its own path differs.
    if list(b.keys())[:len(a)] != list(a.keys()):
        return True
    out = {}
    for k in list(a.keys()) + [k for k in b.keys() if k not in a]:
        if k not in a or k not in b:
            out[k] = True
        else:
            d = diff_tree(a[k], b[k])
            if d is not None:
                out[k] = d
    return out or None


def tree_to_req(u):
    """encode for the runner (undefined when nothing changed)"""
    if u is None:
        return {}   # the real builder (index.ts) always hands an object (possibly empty) or `true` to update()
    return u


def coarsen(rng, u):
    """replace a random subtree by `true` (still covers the diff)"""
    if u is True or u is None:
        return u
    if rng.chance(1, 3):
        return True
    out = {}
    for k, v in u.items():
        out[k] = coarsen(rng, v) if rng.chance(1, 2) else v
    return out


def paths_of(d, prefix=()):
    res = []
    if is_atom(d):
        return [prefix]
    it = enumerate(d) if isinstance(d, list) else d.items()
    res.append(prefix)
    for k, v in it:
        res.extend(paths_of(v, prefix + (k,)))
    return res


def set_path(d, path, v):
    if not path:
        return v
    d = copy.copy(d)
    k = path[0]
    if isinstance(d, list):
        d = list(d)
        d[k] = set_path(d[k], path[1:], v)
    else:
        d = dict(d)
        d[k] = set_path(d[k], path[1:], v)
    return d


def mutate_data(rng, D, nchanges=None, focus=None):
    D2 = copy.deepcopy(D)
    n = nchanges if nchanges is not None else 1 + rng.below(3)
    for _ in range(n):
        c = rng.below(10)
        ps = [p for p in paths_of(D2) if p]
        if focus and rng.chance(4, 5):
            fps = [p for p in ps if p[0] in focus]
            ps = fps or ps
        if not ps:
            break
        p = rng.choice(ps)
        if c < 5:
            D2 = set_path(D2, p, copy.deepcopy(rng.choice(LEAF_POOL)))
        elif c == 5:
            # object edits: drop / add / rename a key (an object may be a wx:for list: its keys are the indexes)
            objs = [q for q in paths_of(D2) if q and isinstance(get_path(D2, q), dict) and "$" not in get_path(D2, q)]
            if focus and rng.chance(4, 5):
                objs = [q for q in objs if q[0] in focus] or objs
            if not objs:
                continue
            q = rng.choice(objs)
            o = dict(get_path(D2, q))
            op = rng.below(3)
            ks = list(o.keys())
            if op == 0 and ks:
                del o[rng.choice(ks)]
            elif op == 1:
                o[rng.choice(["n1", "zz", "k", "p"])] = copy.deepcopy(rng.choice(LEAF_POOL))
            elif ks:
                k = rng.choice(ks)
                v = o.pop(k)
                o[k + "2"] = v
            D2 = set_path(D2, q, o)
        else:
            # list edits: grow / shrink / reorder / duplicate-key
            lists = [q for q in paths_of(D2) if q and isinstance(get_path(D2, q), list)]
            if not lists:
                continue
            q = rng.choice(lists)
            l = list(get_path(D2, q))
            op = rng.below(5)
            if op == 0:
                l.append(copy.deepcopy(rng.choice(LEAF_POOL)))
            elif op == 1 and l:
                l.pop(rng.below(len(l)))
            elif op == 2 and len(l) > 1:
                i, j = rng.below(len(l)), rng.below(len(l))
                l[i], l[j] = l[j], l[i]
            elif op == 3:
                l.insert(0, {"k": rng.choice(["x", "y", "z", "n"]), "p": rng.below(9)})
            else:
                l = list(reversed(l))
            D2 = set_path(D2, q, l)
    return D2


def get_path(d, path):
    for k in path:
        d = d[k]
    return d


STATE_KEYS = ("tag", "text", "slot", "attrs", "class", "style", "id", "slotAttr", "dataset", "marks", "events", "changeProps",
              "worklets", "extra", "generics", "values", "modelPaths", "comp", "props", "pending", "extClasses")


def project_state(tree):
    """final state of a dumped tree (no logs, no change-prop old values)"""
    if isinstance(tree, list):
        return [project_state(x) for x in tree]
    if isinstance(tree, dict):
        if "$" in tree:
            return tree
        o = {}
        for k in STATE_KEYS:
            if k in tree:
                v = tree[k]
                if k == "changeProps":
                    v = {n: {"listener": x.get("listener")} for n, x in v.items()}
                if k == "events":
                    v = sorted((e[:6] for e in v), key=lambda e: json.dumps(e))
                o[k] = v
        ch = project_state(tree.get("children", []))
        if ch:
            o["children"] = ch
        return o
    return tree
