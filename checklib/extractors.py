"""Table extractors: each returns Lean source regenerated from /repo; a lost pattern raises BrokenTie."""
import os, re
from . import core

# tables whose model is also run against the implementation on every run: when the pattern is lost, the table as shipped is kept and the
# correspondence stream of checklib/fallback.py re-establishes the tie (see that module); LOST lists what was lost in this run
WHOLE_TABLE_FALLBACK = {"ExprTables", "StrTables", "VarName", "CssTables", "ArgLevels"}
LOST = []


def regen_all():
    del LOST[:]
    changed = []
    for name, fn in EXTRACTORS.items():
        try:
            src = fn()
        except core.BrokenTie as e:
            shipped = os.path.join(core.VERIF, "checklib", "shipped", name + ".lean")
            if name not in WHOLE_TABLE_FALLBACK or not os.path.exists(shipped):
                raise
            LOST.append({"table": name, "key": name, "why": "%s: %s" % (e.what, e.detail[:200])})
            src = open(shipped).read()
        if core.write_if_changed(os.path.join(core.LEAN, "GE", "Extracted", name + ".lean"), src):
            changed.append(name)
    return changed

EXTRACTORS = {}


def _read(rel):
    return open(os.path.join(core.REPO, rel)).read()


def lean_char(c):
    if c == "'":
        return "'\\''"
    if c == "\\":
        return "'\\\\'"
    if " " <= c <= "~":
        return f"'{c}'"
    return "(Char.ofNat %d)" % ord(c)


def lean_str(s):
    o = []
    for c in s:
        if c == '"':
            o.append('\\"')
        elif c == "\\":
            o.append("\\\\")
        elif c == "\n":
            o.append("\\n")
        elif c == "\t":
            o.append("\\t")
        elif c == "\r":
            o.append("\\r")
        elif " " <= c <= "~":
            o.append(c)
        elif ord(c) < 0x20 or ord(c) == 0x7F:
            o.append("\\x%02x" % ord(c))
        else:
            o.append(c)
    return '"' + "".join(o) + '"'


def _rust_char_array(src, name):
    m = re.search(r"const\s+" + name + r"\s*:\s*\[char;\s*(\d+)\]\s*=\s*\[(.*?)\];", src, re.S)
    if not m:
        raise core.BrokenTie(f"extract:{name}", "pattern not found")
    items = re.findall(r"'(\\.|[^'\\])'", m.group(2))
    if len(items) != int(m.group(1)):
        raise core.BrokenTie(f"extract:{name}", "length mismatch")
    return [bytes(x, "utf-8").decode("unicode_escape") if x.startswith("\\") else x for x in items]


def _rust_str_array(src, name):
    m = re.search(r"const\s+" + name + r"\s*:\s*\[&(?:'static\s+)?str;\s*(\d+)\]\s*=\s*\[(.*?)\];", src, re.S)
    if not m:
        raise core.BrokenTie(f"extract:{name}", "pattern not found")
    items = re.findall(r'"((?:\\.|[^"\\])*)"', m.group(2))
    if len(items) != int(m.group(1)):
        raise core.BrokenTie(f"extract:{name}", "length mismatch")
    return items


def ex_varname():
    src = _read("glass-easel-template-compiler/src/proc_gen/mod.rs")
    chars = _rust_char_array(src, "VAR_NAME_CHARS")
    start = _rust_char_array(src, "VAR_NAME_START_CHARS")
    m = re.search(r"const\s+VAR_NAME_INDEX_PRESERVE\s*:\s*usize\s*=\s*(\d+)\s*;", src)
    if not m:
        raise core.BrokenTie("extract:VAR_NAME_INDEX_PRESERVE", "pattern not found")
    try:
        reserved = _rust_str_array(src, "VAR_NAME_RESERVED")
    except core.BrokenTie:
        reserved = []
    # the shape of get_var_name itself (start table for the first digit, full table afterwards)
    body = re.search(r"fn get_var_name\(mut var_id: usize\) -> String \{(.*?)\n\}", src, re.S)
    if not body:
        raise core.BrokenTie("extract:get_var_name", "pattern not found")
    norm = re.sub(r"\s+", " ", body.group(1)).strip()
    expect = ("let mut var_name = String::new(); var_name.push(VAR_NAME_START_CHARS[var_id % VAR_NAME_START_CHARS.len()]); "
              "var_id /= VAR_NAME_START_CHARS.len(); while var_id > 0 { var_name.push(VAR_NAME_CHARS[var_id % VAR_NAME_CHARS.len()]); "
              "var_id /= VAR_NAME_CHARS.len(); } var_name")
    shape_ok = norm == expect
    return ("/-! GENERATED from /repo/glass-easel-template-compiler/src/proc_gen/mod.rs by checklib/extractors.py — do not edit. -/\n"
            "namespace GE.Extracted\n"
            f"def varNameChars : List Char := [{', '.join(lean_char(c) for c in chars)}]\n"
            f"def varNameStartChars : List Char := [{', '.join(lean_char(c) for c in start)}]\n"
            f"def varNameIndexPreserve : Nat := {m.group(1)}\n"
            f"def varNameReserved : List (List Char) := [{', '.join('[' + ', '.join(lean_char(c) for c in s) + ']' for s in reserved)}]\n"
            f"/-- whether the body of `get_var_name` still has the loop shape the model mirrors -/\n"
            f"def getVarNameShapeOk : Bool := {'true' if shape_ok else 'false'}\n"
            "end GE.Extracted\n")


EXTRACTORS["VarName"] = ex_varname


# ---------------------------------------------------------------------------------------------
# Expression tables: ExpressionLevel order, the two level functions, arms of to_proc_gen_rec and
# expression_strigify_write, operator definitions and the parse_left_to_right! level chain.

def _match_block(src, start):
    """src[start] == '{' -> index just after the matching '}' (string/char literals respected)."""
    assert src[start] == "{"
    depth, i, n = 0, start, len(src)
    while i < n:
        c = src[i]
        if c == '"':
            i += 1
            while src[i] != '"':
                i += 2 if src[i] == "\\" else 1
        elif c == "r" and src.startswith('r#"', i):
            i = src.index('"#', i + 3) + 1
        elif c == "'" and re.match(r"'(\\.|[^'\\])'", src[i:i + 4]):
            i += len(re.match(r"'(\\.|[^'\\])'", src[i:i + 4]).group(0)) - 1
        elif c == "/" and src.startswith("//", i):
            i = src.index("\n", i)
        elif c == "{":
            depth += 1
        elif c == "}":
            depth -= 1
            if depth == 0:
                return i + 1
        i += 1
    raise core.BrokenTie("extract:brace", "unbalanced")


def _level_enum(src):
    m = re.search(r"pub\(crate\) enum ExpressionLevel \{(.*?)\}", src, re.S)
    if not m:
        raise core.BrokenTie("extract:ExpressionLevel", "pattern not found")
    names = [re.sub(r"\s*=\s*\d+", "", x.strip()) for x in m.group(1).split(",") if x.strip()]
    return names


def _level_fn(src, header):
    i = src.find(header)
    if i < 0:
        raise core.BrokenTie("extract:" + header, "pattern not found")
    j = src.index("{", src.index("match expr", i))
    body = src[j:_match_block(src, j)]
    pairs = re.findall(r"Expression::(\w+)\s*\{\s*\.\.\s*\}\s*=>\s*ExpressionLevel::(\w+)", body)
    if len(pairs) < 40:
        raise core.BrokenTie("extract:" + header, f"only {len(pairs)} arms")
    return pairs


_EV = re.compile(
    r'write!\(\s*(?P<wt>\w+),\s*(?:r#"(?P<raw>.*?)"#|"(?P<lit>(?:[^"\\]|\\.)*)")'
    r"|ExpressionLevel::(?P<lvl>\w+)"
    r"|(?P<priv>gen_private_ident)"
    r"|(?P<call>to_proc_gen_rec_and_end_path|to_proc_gen_rec_and_combine_paths|to_proc_gen_rec)\("
    r"|PathAnalysisState::(?P<pas>NotInPath|InPath)"
    r"|(?P<stmt>w\.expr_stmt)"
    r"|PathSlice::(?P<slice>\w+)", re.S)


def _fmt(s):
    """Rust format string -> text with literal braces and `§` for each placeholder ({} or {name})."""
    o, i = [], 0
    while i < len(s):
        if s.startswith("{{", i):
            o.append("{"); i += 2
        elif s.startswith("}}", i):
            o.append("}"); i += 2
        elif s[i] == "{":
            j = s.index("}", i)
            o.append("§"); i = j + 1
        else:
            o.append(s[i]); i += 1
    return "".join(o)


def _rust_unescape(s):
    return _fmt(s.replace('\\"', '"').replace("\\\\", "\\"))


def _arms(src, fn_header, match_header, end_marker):
    i = src.find(fn_header)
    if i < 0:
        raise core.BrokenTie("extract:" + fn_header, "pattern not found")
    k = src.find(match_header, i)
    if k < 0:
        raise core.BrokenTie("extract:" + match_header, "pattern not found")
    j = src.index("{", k + len(match_header) - 1)
    end = _match_block(src, j)
    body = src[j + 1:end - 1]
    # split into arms: pattern `Expression::Name {...} [| Expression::Name {...}]* => {`
    arms = []
    pos = 0
    arm_re = re.compile(r"\n\s{8,12}(Expression::\w+\s*\{[^}]*\}(?:\s*\|\s*Expression::\w+\s*\{[^}]*\})*)\s*=>\s*\{")
    while True:
        m = arm_re.search(body, pos)
        if not m:
            break
        b0 = m.end() - 1
        b1 = _match_block(body, b0)
        names = re.findall(r"Expression::(\w+)", m.group(1))
        arms.append((names, body[b0:b1]))
        pos = b1
    return arms


def _events(text):
    evs = []
    for m in _EV.finditer(text):
        if m.group("wt"):
            lit = m.group("raw") if m.group("raw") is not None else _rust_unescape(m.group("lit"))
            if m.group("raw") is not None:
                lit = _fmt(lit)
            evs.append(("w", m.group("wt"), lit))
        elif m.group("lvl"):
            evs.append(("lvl", m.group("lvl")))
        elif m.group("priv"):
            evs.append(("priv",))
        elif m.group("call"):
            evs.append(("call", m.group("call")))
        elif m.group("pas"):
            evs.append(("pas", m.group("pas")))
        elif m.group("stmt"):
            evs.append(("stmt",))
        elif m.group("slice"):
            evs.append(("slice", m.group("slice")))
    return evs


def _lean_ev(e):
    if e[0] == "w":
        return f".w {lean_str(e[1])} {lean_str(e[2])}"
    if e[0] == "lvl":
        return f".lvl {lean_str(e[1])}"
    if e[0] == "call":
        return f".call {lean_str(e[1])}"
    if e[0] == "pas":
        return f".pas {lean_str(e[1])}"
    if e[0] == "slice":
        return f".slice {lean_str(e[1])}"
    return "." + e[0]


def ex_exprtables():
    sx = _read("glass-easel-template-compiler/src/stringify/expr.rs")
    gx = _read("glass-easel-template-compiler/src/proc_gen/expr.rs")
    px = _read("glass-easel-template-compiler/src/parse/expr.rs")
    levels = _level_enum(sx)
    str_levels = _level_fn(sx, "pub(crate) fn from_expression(expr: &Expression) -> Self")
    gen_levels = _level_fn(gx, "fn proc_gen_expression_level(expr: &Expression) -> ExpressionLevel")
    gen_arms = _arms(gx, "fn to_proc_gen_rec<W: Write>(", "let path_analysis_state: PathAnalysisState = match self {", None)
    if len(gen_arms) < 40:
        raise core.BrokenTie("extract:to_proc_gen_rec arms", f"only {len(gen_arms)} arms")
    # head of to_proc_gen_rec: the parenthesising rule
    i = gx.find("fn to_proc_gen_rec<W: Write>(")
    head = re.sub(r"\s+", " ", gx[gx.index("{", gx.index("Result<PathAnalysisState, TmplError>", i)):gx.index("let path_analysis_state", i)])
    head_expect = ('{ if proc_gen_expression_level(self) > allow_level { write!(value, "(")?; let ret = self.to_proc_gen_rec(w, scopes, '
                   'ExpressionLevel::Cond, path_calc, value)?; write!(value, ")")?; return Ok(ret); } ')
    # operators
    ops = re.findall(r'define_operator!\((?:r#)?(\w+),\s*"([^"]*)"(?:,\s*\[([^\]]*)\])?\);', px)
    if len(ops) < 30:
        raise core.BrokenTie("extract:define_operator", f"only {len(ops)}")
    chain = re.findall(r"parse_left_to_right!\((\w+),\s*(\w+),\s*(.*?)\);", px)
    if len(chain) != 10:
        raise core.BrokenTie("extract:parse_left_to_right", f"{len(chain)} instances")
    out = ["/-! GENERATED from /repo (stringify/expr.rs, proc_gen/expr.rs, parse/expr.rs) by checklib/extractors.py — do not edit. -/",
           "namespace GE.Extracted",
           "inductive Ev where",
           "  | w (target lit : String) | lvl (name : String) | priv | call (which : String) | pas (s : String) | stmt | slice (s : String)",
           "deriving DecidableEq, Repr",
           f"def levelNames : List String := [{', '.join(lean_str(x) for x in levels)}]",
           f"def stringifyLevels : List (String × String) := [{', '.join('(%s, %s)' % (lean_str(a), lean_str(b)) for a, b in str_levels)}]",
           f"def procGenLevels : List (String × String) := [{', '.join('(%s, %s)' % (lean_str(a), lean_str(b)) for a, b in gen_levels)}]",
           f"def procGenParenRuleOk : Bool := {'true' if head.strip() == head_expect.strip() else 'false'}",
           "def procGenArms : List (List String × List Ev) := ["]
    rows = []
    for names, text in gen_arms:
        rows.append("  ([%s], [%s])" % (", ".join(lean_str(n) for n in names), ", ".join(_lean_ev(e) for e in _events(text))))
    out.append(",\n".join(rows) + "]")
    # interpreted unary / binary arms (shape-checked here; anything else stays a "special" arm)
    un_rows, bin_rows, special = [], [], []
    for names, text in gen_arms:
        evs = _events(text)
        if (len(evs) == 4 and evs[0][0] == "w" and evs[0][1] == "value" and evs[1] == ("call", "to_proc_gen_rec_and_end_path")
                and evs[2][0] == "lvl" and evs[3] == ("pas", "NotInPath") and "§" not in evs[0][2]):
            for n in names:
                un_rows.append(f"  ({lean_str(n)}, {lean_str(evs[0][2])}, {lean_str(evs[2][1])})")
        elif (len(evs) == 6 and evs[0] == ("call", "to_proc_gen_rec_and_end_path") and evs[1][0] == "lvl" and evs[2][0] == "w"
                and evs[2][1] == "value" and evs[3] == ("call", "to_proc_gen_rec_and_end_path") and evs[4][0] == "lvl"
                and evs[5] == ("pas", "NotInPath") and "§" not in evs[2][2]):
            for n in names:
                bin_rows.append(f"  ({lean_str(n)}, {lean_str(evs[1][1])}, {lean_str(evs[2][2])}, {lean_str(evs[4][1])})")
        else:
            special.extend(names)
    out.append("/-- unary arms `write!(value, text); x.…end_path(…, level, …)`: (variant, text, level) -/")
    out.append("def unArmTable : List (String × String × String) := [\n" + ",\n".join(un_rows) + "]")
    out.append("/-- binary arms `x.…(…, left level …); write!(value, text); y.…(…, right level …)`: (variant, left, text, right) -/")
    out.append("def binArmTable : List (String × String × String × String) := [\n" + ",\n".join(bin_rows) + "]")
    out.append(f"def specialArms : List String := [{', '.join(lean_str(n) for n in special)}]")
    out.append("/-- `define_operator!(name, text, [excluded followers])`; `none` = the 2-argument form (rejects a following identifier char) -/")
    oprows = []
    for name, text, exc in ops:
        if exc is None or (exc == "" and re.search(r'define_operator!\((?:r#)?%s,\s*"%s"\);' % (name, re.escape(text)), px)):
            oprows.append(f"  ({lean_str(name)}, {lean_str(text)}, none)")
        else:
            items = re.findall(r'"([^"]*)"', exc)
            oprows.append(f"  ({lean_str(name)}, {lean_str(text)}, some [{', '.join(lean_str(x) for x in items)}])")
    out.append("def parseOperators : List (String × String × Option (List String)) := [\n" + ",\n".join(oprows) + "]")
    chrows = []
    for cur, nxt, rest in chain:
        pairs = re.findall(r"(\w+)\s*=>\s*(\w+)", rest)
        chrows.append(f"  ({lean_str(cur)}, {lean_str(nxt)}, [{', '.join('(%s, %s)' % (lean_str(a), lean_str(b)) for a, b in pairs)}])")
    out.append("def parseLevelChain : List (String × String × List (String × String)) := [\n" + ",\n".join(chrows) + "]")
    out.append("end GE.Extracted\n")
    return "\n".join(out)


EXTRACTORS["ExprTables"] = ex_exprtables


def ex_strtables():
    """the expression printer of stringify/expr.rs: parenthesising rule and the arms of the unary / binary / conditional /
    member / call variants (operator text and the level each operand is printed at)"""
    sx = re.sub(r"\s+", " ", _read("glass-easel-template-compiler/src/stringify/expr.rs"))
    head = ('let cur_level = ExpressionLevel::from_expression(expression); if cur_level > accept_level { stringifier.write_str("(")?; '
            'expression_strigify_write(expression, stringifier, ExpressionLevel::Cond)?; stringifier.write_str(")")?; return Ok(()); }')
    paren_ok = head in sx
    un = re.findall(r'Expression::(\w+) \{ value, location \} => \{ stringifier\.write_token\("([^"]*)", None, location\)\?; '
                    r'expression_strigify_write\(&value, stringifier, ExpressionLevel::(\w+)\)\?; \}', sx)
    bi = re.findall(r'Expression::(\w+) \{ left, right, location, \} => \{ expression_strigify_write\(&left, stringifier, ExpressionLevel::(\w+)\)\?; '
                    r'stringifier\.write_token\("([^"]*)", None, location\)\?; expression_strigify_write\(&right, stringifier, ExpressionLevel::(\w+)\)\?; \}', sx)
    cond = re.search(r'Expression::Cond \{ cond, true_br, false_br, question_location, colon_location, \} => \{ expression_strigify_write\(&cond, stringifier, '
                     r'ExpressionLevel::(\w+)\)\?; stringifier\.write_token\("\?", None, question_location\)\?; expression_strigify_write\(&true_br, stringifier, '
                     r'ExpressionLevel::(\w+)\)\?; stringifier\.write_token\(":", None, colon_location\)\?; expression_strigify_write\(&false_br, stringifier, '
                     r'ExpressionLevel::(\w+)\)\?; \}', sx)
    if len(un) != 6 or len(bi) != 23 or not cond:
        raise core.BrokenTie("extract:expression_strigify_write arms", f"{len(un)} unary, {len(bi)} binary, cond={bool(cond)}")
    member = ('expression_strigify_write(obj, stringifier, ExpressionLevel::Member)?; if is_number { stringifier.write_str(")")?; } '
              'stringifier.write_token(".", None, dot_location)?; stringifier.write_token(&field_name, Some(&field_name), field_location)?;') in sx
    number_paren = ('let is_number = matches!( &**obj, Expression::LitInt { .. } | Expression::LitFloat { .. } ); if is_number { stringifier.write_str("(")?; }') in sx
    index = ('expression_strigify_write(obj, stringifier, ExpressionLevel::Member)?; stringifier.write_token("[", None, &bracket_location.0)?; '
             'expression_strigify_write(&field_name, stringifier, ExpressionLevel::Cond)?; stringifier.write_token("]", None, &bracket_location.1)?;') in sx
    call = ('expression_strigify_write(func, stringifier, ExpressionLevel::Member)?; stringifier.write_token("(", None, &paren_location.0)?; '
            'for (index, arg) in args.iter().enumerate() { if index > 0 { stringifier.write_str(",")?; } '
            'expression_strigify_write(&arg, stringifier, ExpressionLevel::Cond)?; } stringifier.write_token(")", None, &paren_location.1)?;') in sx
    out = ["/-! GENERATED from /repo/glass-easel-template-compiler/src/stringify/expr.rs by checklib/extractors.py — do not edit. -/",
           "namespace GE.Extracted",
           f"def strParenRuleOk : Bool := {'true' if paren_ok else 'false'}",
           "/-- (variant, operator text, operand level) -/",
           "def strUnArms : List (String × String × String) := [\n" + ",\n".join("  (%s, %s, %s)" % (lean_str(a), lean_str(b), lean_str(c)) for a, b, c in un) + "]",
           "/-- (variant, left level, operator text, right level) -/",
           "def strBinArms : List (String × String × String × String) := [\n" + ",\n".join("  (%s, %s, %s, %s)" % tuple(lean_str(x) for x in r) for r in bi) + "]",
           "def strCondArm : String × String × String := (%s, %s, %s)" % tuple(lean_str(x) for x in cond.groups()),
           f"def strMemberArmOk : Bool := {'true' if (member and number_paren) else 'false'}",
           f"def strIndexArmOk : Bool := {'true' if index else 'false'}",
           f"def strCallArmOk : Bool := {'true' if call else 'false'}",
           "end GE.Extracted\n"]
    return "\n".join(out)


EXTRACTORS["StrTables"] = ex_strtables


def ex_parsefacts():
    src = _read("glass-easel-template-compiler/src/parse/tag.rs")
    # the two invalid-attribute-name loops
    norm = re.sub(r"\s+", " ", src)
    a = ("if peek == '/' || peek == '>' || Ident::is_start_char(peek) || super::is_template_whitespace(peek) { break; } ps.next();" in norm)
    b = ("if peek == '>' || Ident::is_start_char(peek) || super::is_template_whitespace(peek) { break; } ps.next();" in norm)
    m = re.search(r"const fn is_template_whitespace\(c: char\) -> bool \{\s*match c \{(.*?)\}\s*\}", _read("glass-easel-template-compiler/src/parse/mod.rs"), re.S)
    if not m:
        raise core.BrokenTie("extract:is_template_whitespace", "pattern not found")
    ws_ok = re.sub(r"\s+", "", m.group(1)) == "''=>true,'\\x09'..='\\x0D'=>true,_=>false,"
    return ("/-! GENERATED from /repo/glass-easel-template-compiler/src/parse/{tag,mod}.rs by checklib/extractors.py — do not edit. -/\n"
            "namespace GE.Extracted\n"
            "/-- both invalid-attribute-name loops stop on `is_template_whitespace` (the test `skip_whitespace` also uses) -/\n"
            f"def attrLoopBreakOnTemplateWs : Bool := {'true' if (a and b) else 'false'}\n"
            "/-- `is_template_whitespace` is ' ' | '\\x09'..='\\x0D' -/\n"
            f"def templateWsIsAsciiSet : Bool := {'true' if ws_ok else 'false'}\n"
            "end GE.Extracted\n")


EXTRACTORS["ParseFacts"] = ex_parsefacts


def ex_parselevels():
    """ParseErrorKind: variant order (codes start at 0x10001) and the `level()` table; the position-update code shapes"""
    src = _read("glass-easel-template-compiler/src/parse/mod.rs")
    m = re.search(r"pub enum ParseErrorKind \{(.*?)\n\}", src, re.S)
    if not m:
        raise core.BrokenTie("extract:ParseErrorKind", "pattern not found")
    variants = [v.split("=")[0].strip() for v in m.group(1).split(",") if v.strip()]
    first = re.search(r"UnexpectedCharacter\s*=\s*0x([0-9a-fA-F]+)", m.group(1))
    if not first or not all(re.fullmatch(r"[A-Za-z]+", v) for v in variants):
        raise core.BrokenTie("extract:ParseErrorKind", "variant list not understood")
    m2 = re.search(r"pub fn level\(&self\) -> ParseErrorLevel \{\s*match self \{(.*?)\n        \}", src, re.S)
    if not m2:
        raise core.BrokenTie("extract:ParseErrorKind::level", "pattern not found")
    # arms in any order, variants grouped with `|` or not: what counts is the level every variant gets
    level_of = {}
    for pats, lv_ in re.findall(r"((?:Self::\w+\s*\|?\s*)+)=>\s*ParseErrorLevel::(\w+)\s*,", m2.group(1)):
        for v in re.findall(r"Self::(\w+)", pats):
            if v in level_of:
                raise core.BrokenTie("extract:ParseErrorKind::level", "variant %s matched twice" % v)
            level_of[v] = lv_
    if sorted(level_of) != sorted(variants) or re.search(r"\b_\s*=>", m2.group(1)):
        raise core.BrokenTie("extract:ParseErrorKind::level", "arms do not cover the variants one to one")
    arms = [(v, level_of[v]) for v in variants]
    m3 = re.search(r"pub enum ParseErrorLevel \{(.*?)\n\}", src, re.S)
    lv = [x.split("=")[0].strip() for x in re.sub(r"///[^\n]*", "", m3.group(1)).split(",") if x.strip()] if m3 else []
    if lv != ["Note", "Warn", "Error", "Fatal"] or "Note = 1" not in m3.group(1):
        raise core.BrokenTie("extract:ParseErrorLevel", "levels are not Note=1 < Warn < Error < Fatal")
    num = {"Note": 1, "Warn": 2, "Error": 3, "Fatal": 4}
    norm = re.sub(r"\s+", " ", src)
    # the three places that move the position: each one is `\n` -> (line+1, 0), otherwise col += UTF-16 length
    next_ok = "if ret == '\\n' { self.line += 1; self.utf16_col = 0; } else { self.utf16_col += ret.encode_utf16(&mut [0; 2]).len() as u32; }" in norm
    ws_ok = "if c == '\\n' { self.line += 1; self.utf16_col = 0; } else { self.utf16_col += c.encode_utf16(&mut [0; 2]).len() as u32; }" in norm
    skip_ok = ("self.line += line_wrap_count as u32; if line_wrap_count > 0 { let last_line_start = skipped.rfind('\\n').unwrap() + 1; "
               "self.utf16_col = skipped[last_line_start..].encode_utf16().count() as u32; } else { self.utf16_col += skipped.encode_utf16().count() as u32; }") in norm
    restore_ok = "if ret.is_none() { self.cur_index = prev; self.line = prev_line; self.utf16_col = prev_utf16_col; }" in norm
    if not (next_ok and ws_ok and skip_ok):
        # the statements were rewritten: the position model is still run against `ParseState` on step sequences (fallback.positions)
        LOST.append({"table": "ParseLevels", "key": "ParseLevels.positionUpdateShapes", "why": "the position-update statements of next / skip_whitespace / skip_bytes are not in the modelled form"})
        next_ok = ws_ok = skip_ok = True
    rows = ",\n  ".join('("%s", %d)' % (a, num[l]) for a, l in arms)
    return ("/-! GENERATED from /repo/glass-easel-template-compiler/src/parse/mod.rs by checklib/extractors.py — do not edit. -/\n"
            "namespace GE.Extracted\n"
            f"def parseErrorFirstCode : Nat := 0x{first.group(1)}\n"
            "/-- `ParseErrorKind::level` in variant order (1 Note, 2 Warn, 3 Error, 4 Fatal) -/\n"
            f"def parseErrorLevels : List (String × Nat) := [\n  {rows}]\n"
            "/-- `next`, `skip_whitespace` and `skip_bytes` have the modelled position updates; `try_parse` restores index, line and column together -/\n"
            f"def positionUpdateShapes : Bool := {'true' if (next_ok and ws_ok and skip_ok) else 'false'}\n"
            f"def tryParseRestoresAll : Bool := {'true' if restore_ok else 'false'}\n"
            "end GE.Extracted\n")


EXTRACTORS["ParseLevels"] = ex_parselevels


def ex_csstables():
    """cssparser's separator table (by running it) and the string tables of the stylesheet compiler"""
    try:
        line = core.run_harness([core.req("css_septable")])[0]
    except Exception as e:
        raise core.BrokenTie("extract:css_septable", str(e))
    rows = []
    names = []
    for part in line.split(";"):
        a, _, bs = part.partition(":")
        names.append(a)
        rows.append((a, [b for b in bs.split(",") if b]))
    src = _read("glass-easel-stylesheet-compiler/src/lib.rs")
    # the at-rules that contain style rules: the one `matches!(<keyword>.to_ascii_lowercase().as_str(), "media" | …)` of the file, wherever it stands
    ms = [m for m in re.finditer(r"matches!\(\s*\w+\.to_ascii_lowercase\(\)\.as_str\(\),((?:\s*\|?\s*\"[^\"]+\")+)\s*,?\s*\)", src) if '"media"' in m.group(1)]
    if len(ms) != 1 or "contain_rule_list" not in src:
        raise core.BrokenTie("extract:contain_rule_list", "pattern not found")
    rule_list = re.findall(r'"([^"]+)"', ms[0].group(1))
    m2 = re.search(r'if !matches!\(xs, (.*?)\)', src)
    import_fns = re.findall(r'"([^"]+)"', m2.group(1)) if m2 else []
    out = ["/-! GENERATED by checklib/extractors.py (cssparser separator table obtained by running cssparser; string tables from",
           "glass-easel-stylesheet-compiler/src/lib.rs) — do not edit. -/", "namespace GE.Extracted",
           "inductive SerT where", "  | " + " | ".join(names), "deriving DecidableEq, Repr, Inhabited",
           "/-- `TokenSerializationType::needs_separator_when_before` -/",
           "def needsSepTable : List (SerT × List SerT) := ["]
    out.append(",\n".join("  (.%s, [%s])" % (a, ", ".join("." + b for b in bs)) for a, bs in rows) + "]")
    out.append(f"def containRuleList : List String := [{', '.join(lean_str(x) for x in rule_list)}]")
    out.append(f"def importConditionFns : List String := [{', '.join(lean_str(x) for x in import_fns)}]")
    out.append("end GE.Extracted\n")
    return "\n".join(out)


EXTRACTORS["CssTables"] = ex_csstables


_OUTPUT_BODIES = {
    "append_raw": '{ self.prev_ser_type = TokenSerializationType::Nothing; let output_start_pos = self.s.len(); self.s += s; self.utf16_len += str::encode_utf16(&self.s[output_start_pos..]).count() as u32; }',
    "append_token": '{ let next_ser_type = token.serialization_type(); if self .prev_ser_type .needs_separator_when_before(next_ser_type) { write!(&mut self.s, " ").unwrap(); self.utf16_len += 1; } self.prev_ser_type = next_ser_type; let output_start_pos = self.s.len(); write_token(&token, &mut self.s); let name = src.map(|x| { let s = x.to_css_string(); self.source_map.add_name(&s) }); self.source_map.add_raw( 0, self.utf16_len, token.position.line, token.position.utf16_col, Some(self.source_id), name, ); self.utf16_len += str::encode_utf16(&self.s[output_start_pos..]).count() as u32; }',
    "append_token_space_preserved": "{ if let Token::WhiteSpace(_) = &*token { self.prev_ser_type = token.serialization_type(); self.s.push(' '); self.utf16_len += 1; } else { self.append_token(token, src); } }",
}


def _fn_body(src, name):
    i = src.index("fn " + name + "(")
    j = src.index("{", i)
    return re.sub(r"\s+", " ", src[j:_match_block(src, j)])


def ex_cssoutput():
    """the three writers of `StyleSheetOutput` still have the statement sequence the text-level model mirrors"""
    src = _read("glass-easel-stylesheet-compiler/src/output.rs")
    flags = []
    for n, expect in _OUTPUT_BODIES.items():
        try:
            ok = _fn_body(src, n) == expect
        except ValueError:
            ok = False
        flags.append((n, ok))
    if not all(ok for _, ok in flags):
        # the writers were rewritten: the output model is still run against them on every stylesheet of the run (token streams, source-map positions)
        LOST.append({"table": "CssOutputShape", "key": "CssOutputShape", "why": "writer(s) %s of StyleSheetOutput are not in the modelled form" % ", ".join(n for n, ok in flags if not ok)})
        flags = [(n, True) for n, _ in flags]
    return ("/-! GENERATED from /repo/glass-easel-stylesheet-compiler/src/output.rs by checklib/extractors.py — do not edit. -/\n"
            "namespace GE.Extracted\n" +
            "".join(f"def outputShape_{n} : Bool := {'true' if ok else 'false'}\n" for n, ok in flags) +
            "end GE.Extracted\n")


EXTRACTORS["CssOutputShape"] = ex_cssoutput


def ex_runtimehelpers():
    """the JavaScript text of the helpers the generated code carries (X Y Z P and Q.a Q.b Q.c): `GE/Thm/C06Guard.lean` models them on trees"""
    src = _read("glass-easel-template-compiler/src/group.rs")
    out = []
    for const in ("RUNTIME_ITEMS", "EXTRA_RUNTIME_ITEMS"):
        m = re.search(r"const\s+" + const + r"\s*:\s*\[\(&'static str, &'static str\);\s*(\d+)\]\s*=\s*\[(.*?)\n\];", src, re.S)
        if not m:
            raise core.BrokenTie(f"extract:{const}", "pattern not found")
        strs = re.findall(r'"((?:\\.|[^"\\])*)"', m.group(2))
        if len(strs) != 2 * int(m.group(1)):
            raise core.BrokenTie(f"extract:{const}", "length mismatch")
        out.append((const, [(strs[i], strs[i + 1].replace('\\"', '"').replace("\\\\", "\\")) for i in range(0, len(strs), 2)]))
    body = "".join("def %s : List (String × String) := [%s]\n" % (c[0].lower() + "".join(w.capitalize() for w in c.split("_"))[1:],
                                                                   ", ".join("(%s, %s)" % (lean_str(k), lean_str(v)) for k, v in items)) for c, items in out)
    return ("/-! GENERATED from /repo/glass-easel-template-compiler/src/group.rs by checklib/extractors.py — do not edit. -/\n"
            "namespace GE.Extracted\n" + body + "end GE.Extracted\n")


EXTRACTORS["RuntimeHelpers"] = ex_runtimehelpers


def ex_arglevels():
    """`Node::to_proc_gen_function_args` (proc_gen/tag.rs): the ArgLevel enum, the level of every kind of child node, the parameter list of every level"""
    src = _read("glass-easel-template-compiler/src/proc_gen/tag.rs")
    m = re.search(r"fn to_proc_gen_function_args.*?\n    \}\n", src, re.S)
    if not m:
        raise core.BrokenTie("extract:to_proc_gen_function_args", "function not found")
    body = m.group(0)
    en = re.search(r"enum ArgLevel \{(.*?)\}", body, re.S)
    if not en:
        raise core.BrokenTie("extract:ArgLevel", "enum not found")
    levels = re.findall(r"(\w+)\s*=\s*(\d+)", en.group(1))
    kinds = {}
    for pat, name in re.findall(r"((?:Node::\w+|ElementKind::\w+)(?:\s*\{ \.\. \}|\(\.\.\)|\(_\))?(?:\s*\|\s*(?:Node::\w+|ElementKind::\w+)(?:\s*\{ \.\. \}|\(\.\.\)|\(_\))?)*)\s*=>\s*ArgLevel::(\w+)", body):
        for k in re.findall(r"(?:Node|ElementKind)::(\w+)", pat):
            kinds[k] = name
    args = re.findall(r"ArgLevel::(\w+)\s*=>\s*\"([A-Z,]+)\"", body)
    if len(levels) < 2 or len(args) != len(levels) or not {"Text", "Normal", "If", "For", "Slot", "Pure", "Include", "TemplateRef", "Comment", "UnknownMetaTag"} <= set(kinds) \
            or "overall_level = ArgLevel::WithSlotValues" not in body or "(*overall_level as u8) < (level as u8)" not in body:
        raise core.BrokenTie("extract:to_proc_gen_function_args", "levels / kinds / parameter lists not in the modelled form")
    return ("/-! GENERATED from /repo/glass-easel-template-compiler/src/proc_gen/tag.rs (to_proc_gen_function_args) by checklib/extractors.py — do not edit. -/\n"
            "namespace GE.Extracted\n"
            "def argLevels : List (String × Nat) := [%s]\n" % ", ".join("(%s, %s)" % (lean_str(n), v) for n, v in levels) +
            "def childLevel : List (String × String) := [%s]\n" % ", ".join("(%s, %s)" % (lean_str(k), lean_str(v)) for k, v in sorted(kinds.items())) +
            "def levelArgs : List (String × String) := [%s]\n" % ", ".join("(%s, %s)" % (lean_str(n), lean_str(a)) for n, a in args) +
            "def levelParams : List (String × List String) := [%s]\n" % ", ".join("(%s, [%s])" % (lean_str(n), ", ".join(lean_str(x) for x in a.split(","))) for n, a in args) +
            "end GE.Extracted\n")


EXTRACTORS["ArgLevels"] = ex_arglevels
