"""C20 — compilation is a deterministic function of the set of inputs (DESIGN.md §9 C20)."""
import itertools, json, subprocess, hashlib
from . import core, tmplgen as tg

THEOREMS = [
    "GE.Group.emit_perm_invariant",
    "GE.Group.ordered_perm_invariant",
    "GE.Group.import_group_eq_add",
    "GE.Group.emit_order_sorted",
    "GE.Group.lexLe_antisymm",
]
ART = ["gen_groups", "wx_groups", "runtime", "globals", "all_scripts"]


def one_process(reqs):
    """each call is a FRESH harness process (fresh hash seeds)"""
    return core.run_harness(reqs)


def run(chk):
    quick = chk.tier != "thorough"
    chk.rule = ("groups of k<=6 files (templates with several data fields, inline and external scripts, imports) compiled in fresh processes under "
                "permuted insertion orders and via import_group; every artefact byte-compared; stylesheets transformed twice in separate processes; "
                "non-trivial = group with >= 2 files")
    chk.trusted = ["Lean 4.33 kernel", "axioms ⊆ {propext, Classical.choice, Quot.sound}",
                   "Rust std BTreeMap iterates in ascending key order (modelled as a stable sort of entries with distinct keys)",
                   "GE/Model/Group.lean tied by comparing the model's key order with list_template_trees() order", "fresh harness processes as the source of hash-seed variation"]
    chk.assumptions = ["paths are distinct within one group (re-adding a path replaces the template: last one wins, outside the theorem's premise)"]
    failed, log = chk.prove("GE.Thm.C20", THEOREMS)
    for t in failed:
        chk.violation("proof", f"obligation {t} no longer checks", theorem=t, log=log[-3000:])
    ok, log = core.lake_build(["gedriver"])
    if not ok:
        raise core.BrokenTie("driver-build", log)
    rng = chk.rng.fork("c20")
    pool = ["a", "b", "a/b", "a-b", "A", "é", "z/y/x", "ab", "a b", "中", "\U0001F600", "a.b", "_", "0", "aa", "B", "a/c", "a/B"]
    ngroups = 12 if quick else 80
    groups = []
    for gi in range(ngroups):
        k = 2 + rng.below(5)
        paths = []
        while len(paths) < k:
            p = rng.choice(pool)
            if p not in paths:
                paths.append(p)
        files = []
        for i, p in enumerate(paths):
            g = tg.TmplGen(rng.fork((gi, i)), max_depth=2)
            t = g.template(p)
            src = tg.Printer().template(t)
            src += "".join('<v x="{{%s}}" y="{{%s+%s}}"/>' % (a, b, c) for a, b, c in [("f1", "f2", "f3"), ("g1", "g2", "g1")])
            if i % 3 == 0:
                src += '<wxs module="m%d">exports.v=%d</wxs><v z="{{m%d.v}}"/>' % (i, i, i)
            if i % 3 == 1 and len(paths) > 1:
                src += '<import src="/%s"/><wxs module="ext" src="/s%d"/>' % (paths[0], gi % 3)
            files.append([p, src])
        scripts = [["s%d" % j, "exports.x=%d" % j] for j in range(3)]
        groups.append((files, scripts))
    # model tie: walk order = model order
    reqs = []
    for files, scripts in groups:
        reqs.append(core.req("group", json.dumps({"files": files, "scripts": scripts})))
    base = one_process(reqs)
    dreqs, dreal = [], []
    for (files, scripts), a in zip(groups, base):
        o = json.loads(a)
        dreqs.append(core.req("sort_keys", *[f[0] for f in files]))
        dreal.append("\t".join(core.esc(p) for p in o["order"]))
    core.diff_streams(chk, "map-order", dreqs, dreal, core.run_driver(dreqs))
    # oracle: permutations x processes
    nperm = 4 if quick else 12
    for gi, ((files, scripts), a) in enumerate(zip(groups, base)):
        ref = json.loads(a)
        variants = []
        for pi in range(nperm):
            fs = list(files)
            ss = list(scripts)
            # deterministic shuffles from the rng
            for i in range(len(fs) - 1, 0, -1):
                j = rng.below(i + 1); fs[i], fs[j] = fs[j], fs[i]
            for i in range(len(ss) - 1, 0, -1):
                j = rng.below(i + 1); ss[i], ss[j] = ss[j], ss[i]
            variants.append({"files": fs, "scripts": ss})
        # import_group variant: split the files into two groups
        cut = 1 + rng.below(len(files) - 1) if len(files) > 1 else 1
        variants.append({"files": files[:cut], "scripts": scripts[:1], "imports": [{"files": files[cut:], "scripts": scripts[1:]}]})
        variants.append({"files": [], "scripts": [], "imports": [{"files": files[cut:], "scripts": scripts}, {"files": files[:cut], "scripts": []}]})
        for vi, v in enumerate(variants):
            out = json.loads(one_process([core.req("group", json.dumps(v))])[0])
            chk.case((gi, vi), nontrivial=len(files) >= 2, sample=dict(paths=[f[0] for f in v.get("files", [])], variant=vi) if len(chk.samples) < 4 else None)
            for art in ART:
                if out[art] != ref[art]:
                    chk.violation("input", f"artefact {art} differs between two insertion orders / processes of the same file set",
                                  files=files, scripts=scripts, variant=v, artefact=art,
                                  a=hashlib.sha256(json.dumps(ref[art]).encode()).hexdigest(), b=hashlib.sha256(json.dumps(out[art]).encode()).hexdigest())
                    break
            for p in ref["per"]:
                if out["per"].get(p) != ref["per"][p]:
                    chk.violation("input", f"per-template generator object of {p!r} differs between runs of the same file set",
                                  files=files, scripts=scripts, variant=v, artefact="per:" + p)
                    break
    # directed import_group cases: which side owns the inline <wxs>, external scripts, or nothing at all
    inline = ["lib/inline", '<wxs module="m">exports.v=1</wxs><v z="{{m.v}}"/>']
    plain = ["page/plain", '<v x="{{a}}" y="{{b+1}}"/>']
    ext = ["page/ext", '<wxs module="e" src="/s0"/><v w="{{e.x}}"/>']
    tmpl = ["lib/t", '<template name="t">{{a}}</template>']
    directed = []
    for files, scripts in (([inline, plain], []), ([inline, plain, tmpl], []), ([ext, plain], [["s0", "exports.x=0"]]), ([inline, ext], [["s0", "exports.x=0"]]),
                           ([plain, tmpl], [])):
        for mask in range(1, 2 ** len(files) - 1):
            mine = [f for i, f in enumerate(files) if mask >> i & 1]
            theirs = [f for i, f in enumerate(files) if not mask >> i & 1]
            for ssplit in (0, 1):
                directed.append((files, scripts, {"files": mine, "scripts": scripts if ssplit else [],
                                                  "imports": [{"files": theirs, "scripts": [] if ssplit else scripts}]}))
        directed.append((files, scripts, {"files": [], "scripts": [], "imports": [{"files": files, "scripts": scripts}]}))
    # a path present in both groups: importing = adding the imported files afterwards, so the imported version is the one registered (round 9)
    tmpl2 = ["lib/t", '<template name="t">second {{b}}</template>']
    user = ["page/user", '<import src="/lib/t"/><template is="t" data="{{a,b}}"/><wxs module="e" src="/s0"/>{{e.x}}']
    for files, scripts, mine, msc, theirs, tsc in (
            ([tmpl, user, tmpl2], [["s0", "exports.x=0"], ["s0", "exports.x=1"]], [tmpl, user], [["s0", "exports.x=0"]], [tmpl2], [["s0", "exports.x=1"]]),
            ([tmpl, user, tmpl2], [["s0", "exports.x=0"]], [tmpl, user], [["s0", "exports.x=0"]], [tmpl2], []),
            ([user, tmpl, tmpl2], [["s0", "exports.x=0"], ["s0", "exports.x=1"]], [user, tmpl], [["s0", "exports.x=0"]], [tmpl2], [["s0", "exports.x=1"]])):
        directed.append((files, scripts, {"files": mine, "scripts": msc, "imports": [{"files": theirs, "scripts": tsc}]}))
    dref = {}
    for files, scripts, v in directed:
        key = json.dumps([files, scripts])
        if key not in dref:
            dref[key] = json.loads(one_process([core.req("group", json.dumps({"files": files, "scripts": scripts}))])[0])
        ref = dref[key]
        out = json.loads(one_process([core.req("group", json.dumps(v))])[0])
        chk.case(("import", json.dumps(v)), nontrivial=True)
        for art in ART:
            if out[art] != ref[art]:
                chk.violation("input", f"artefact {art} of a group built with import_group differs from adding the same files directly",
                              files=files, scripts=scripts, variant=v, artefact=art)
                break
    chk.programs = ngroups * (nperm + 2) + len(directed)
    # stylesheets: same input, two processes
    css = [".a{width:10rpx;color:red}@media x{.b .c{margin:-1.5rpx}}:host{display:block}", "@import 'a.css';.x{y:calc(1px + 2rpx)}"]
    opt = json.dumps({"class_prefix": "p", "convert_host": True, "import_sign": "IMP"})
    try:
        r1 = one_process([core.req("css", opt, c) for c in css])
        r2 = one_process([core.req("css", opt, c) for c in css])
        if r1[0] != "bad-op":
            for c, x, y in zip(css, r1, r2):
                chk.case(("css", c), nontrivial=True)
                if x != y:
                    chk.violation("input", "stylesheet output / source map differs between two processes", css=c)
    except core.BrokenTie:
        raise


def replay(chk, path):
    o = json.load(open(path))["first"]
    if "variant" in o:
        a = json.loads(one_process([core.req("group", json.dumps({"files": o["files"], "scripts": o["scripts"]}))])[0])
        b = json.loads(one_process([core.req("group", json.dumps(o["variant"]))])[0])
        for art in ART:
            if a[art] != b[art]:
                chk.violation("input", f"replayed: {art} differs", files=o["files"], scripts=o["scripts"], variant=o["variant"], artefact=art)
    return chk.finish()
