//! geharness: runs the real glass-easel compilers in-process behind a line protocol.
//! `geharness run` reads requests (`op TAB field…`) on stdin and answers one line each.
mod astdump;
mod codec;
mod cssops;
mod dump;
mod ops;
mod scopedump;
mod treedump;

use std::io::{BufRead, Write};

fn main() {
    let args: Vec<String> = std::env::args().collect();
    let mode = args.get(1).map(|s| s.as_str()).unwrap_or("run");
    match mode {
        "run" => run(),
        _ => {
            eprintln!("usage: geharness run < requests");
            std::process::exit(2);
        }
    }
}

fn run() {
    // silence the default panic message; panics are reported in-band as `PANIC <msg>`
    std::panic::set_hook(Box::new(|_| {}));
    let flush_each = std::env::var_os("GEH_FLUSH").is_some();
    let stdin = std::io::stdin();
    let stdout = std::io::stdout();
    let mut out = std::io::BufWriter::new(stdout.lock());
    for line in stdin.lock().lines() {
        let Ok(line) = line else { break };
        let fs = codec::fields(&line);
        let r = std::panic::catch_unwind(|| ops::dispatch(&fs));
        let ans = match r {
            Ok(s) => s,
            Err(e) => {
                let msg = if let Some(s) = e.downcast_ref::<&str>() {
                    s.to_string()
                } else if let Some(s) = e.downcast_ref::<String>() {
                    s.clone()
                } else {
                    "?".to_string()
                };
                format!("PANIC {}", codec::esc(&msg))
            }
        };
        writeln!(out, "{}", ans).unwrap();
        if flush_each {
            // isolated-worker mode: an answer is on the pipe before the next request is touched
            out.flush().unwrap();
        }
    }
    out.flush().unwrap();
}
