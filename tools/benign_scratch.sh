#!/bin/sh
# usage: tools/benign_scratch.sh <patch.diff> <slot> [ids...]
# Runs the quick tier of every claimed check (or the listed ones) against a scratch worktree of /repo with a
# behaviour-preserving patch applied — the false-alarm side of §15.  Never touches /repo or /verif:
# worktree /tmp/wtb<slot>, scratch copy of /verif in /tmp/vb<slot>.  One line per check.
set -u
P="$1"; SLOT="$2"; shift 2
WT=/tmp/wtb$SLOT; VS=/tmp/vb$SLOT
if [ ! -d "$WT" ]; then git -C /repo worktree add --detach "$WT" HEAD >/dev/null 2>&1 || exit 2; fi
cd "$WT" && git reset -q --hard && git checkout -q --detach "$(git -C /repo rev-parse HEAD)" && git reset -q --hard || exit 2
git apply "$P" 2>/dev/null || git apply --3way "$P" >/dev/null 2>&1 || { git reset -q --hard; echo "patch does not apply"; exit 2; }
mkdir -p "$VS"
rsync -a --delete --exclude .git --exclude replays --exclude evidence /verif/ "$VS"/
mkdir -p "$VS/replays" "$VS/evidence"
sed -i "s#/repo/#$WT/#g" "$VS/harness/Cargo.toml"
cd "$VS" || exit 2
export GE_REPO="$WT"
IDS="$*"
[ -n "$IDS" ] || IDS=$(python3 -c "import json; print(' '.join(c['property_id'] for c in json.load(open('MANIFEST.json'))['checks']))")
for ID in $IDS; do
  RAW=$(./check $ID --tier quick 2>&1); OUT=$( (echo "$RAW" | grep -E "^(OK|VIOLATION)" | cut -c1-200; echo "$RAW" | grep -E "violation\[" | cut -c1-220 | head -3) | tr "\n" "|")
  echo "$(basename $(dirname "$P"))/$(basename "$P") $ID $OUT"
done
cd "$WT" && git reset -q --hard
