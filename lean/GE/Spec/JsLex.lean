/-!
Lexical facts of ECMAScript used as *specification* (hand-written from ECMA-262, independent of the code):
identifier characters (ASCII subset), reserved words, globals the generated code relies on.
-/
namespace GE.Spec

def isIdentStart (c : Char) : Bool :=
  c = '_' || c = '$' || ('a' ≤ c && c ≤ 'z') || ('A' ≤ c && c ≤ 'Z')

def isIdentPart (c : Char) : Bool := isIdentStart c || ('0' ≤ c && c ≤ '9')

/-- IdentifierName (ASCII subset): non-empty, start char then part chars. -/
def isIdentName : List Char → Bool
  | [] => false
  | c :: cs => isIdentStart c && cs.all isIdentPart

/-- ECMA-262 §12.7.2 ReservedWord, plus the strict-mode reserved words, `let`/`static`/`yield`/`await`,
`eval`/`arguments` (not bindable in strict code), and the global names the generated code reads
(`undefined`, `Object`, `Infinity`, `NaN`). -/
def reservedWords : List (List Char) := [
  "await", "break", "case", "catch", "class", "const", "continue", "debugger", "default", "delete",
  "do", "else", "enum", "export", "extends", "false", "finally", "for", "function", "if", "import",
  "in", "instanceof", "new", "null", "return", "super", "switch", "this", "throw", "true", "try",
  "typeof", "var", "void", "while", "with", "yield",
  "let", "static", "implements", "interface", "package", "private", "protected", "public",
  "eval", "arguments",
  "undefined", "Object", "Infinity", "NaN"].map String.toList

end GE.Spec
