"""C09 — class prefixing hits every class selector and nothing else (DESIGN.md §9 C09)."""
from . import csscheck

THEOREMS = [
    "GE.Css.rule_rewrite_exact",
    "GE.Css.convRpx_wrote",
    "GE.Css.convCls_wrote",
    "GE.Css.qualLoop_wrote",
    "GE.Css.no_prefix_no_change",
    "GE.Css.not_class_unchanged",
    "GE.Css.class_prefixed_once",
]


def focus(r, o):
    # most cases have a prefix (the rewrite under test); one in five has none (nothing may change)
    if o["class_prefix"] is None and r.chance(4, 5):
        o["class_prefix"] = r.choice(["p", "", "é中", "pre-fix"])


def run(chk):
    chk.rule = ("generated stylesheets (nested rule-bearing at-rules, selector functions to depth 3, every token kind) x option sets; "
                "(1) token tree through the Lean model vs the implementation's outputs; (2) oracle: set of rewritten identifiers == identifiers "
                "immediately after a `.` delimiter in selector context, sign comments exactly there; non-trivial = stylesheet containing a class selector")
    chk.trusted = csscheck.TRUSTED
    chk.assumptions = ["the theorems (rule_rewrite_exact …) are about one style rule and the blocks nested in it: every identifier is written "
                       "exactly once, in order, prefixed iff it immediately follows `.` in selector context, and no other token kind changes; "
                       "PARTIAL: that every rule of every rule-bearing at-rule reaches this function (at-rule dispatch `atRule`/`rules`) is "
                       "covered by correspondence + oracle, not by a theorem"]
    csscheck.run_property(chk, "C09", "GE.Thm.C09", THEOREMS, 700, 12000, focus=focus,
                          nontrivial=lambda o, css, res: "." in css)


def replay(chk, path):
    return csscheck.replay(chk, "C09", path)
