import GE.Model.Expr
/-!
Specification: the part of the ECMAScript expression grammar the generator targets, as a
*stratified* derivation relation between syntax trees and token lists.  Levels are the standard
precedence levels (ES2023 §13): 0 primary, 1 member/call (LeftHandSideExpression), 2 unary,
3 multiplicative, 4 additive, 5 shift, 6 relational, 7 equality, 8 BitAND, 9 BitXOR, 10 BitOR,
11 LogicalAND, 12 LogicalOR, 13 conditional (AssignmentExpression for our purposes).
Written from the standard, independent of the generator.
-/
namespace GE.Spec

/-- Tokens with their exact spelling. -/
inductive Tok where
  | p (s : String)      -- punctuator or keyword operator, spelled exactly `s` (may carry blanks)
  | id (s : String)     -- IdentifierName / keyword literal
  | num (s : String)    -- NumericLiteral, spelled `s`
  | str (s : String)    -- StringLiteral denoting `s`
deriving DecidableEq, Repr

mutual
inductive Js where
  | id (s : String)
  | num (s : String)
  | str (s : String)
  | member (o : Js) (n : String)
  | index (o i : Js)
  | call (f : Js) (args : JsList)
  | un (op : UnOp) (e : Js)
  | bin (op : BinOp) (a b : Js)       -- never `NullishCoalescing` (not derivable below)
  | cond (c t f : Js)
  | arr (items : JsItems)
  | obj (fs : JsFields)
inductive JsList where
  | nil
  | cons (e : Js) (r : JsList)
inductive JsItems where
  | nil
  | item (e : Js) (r : JsItems)
  | hole (r : JsItems)
inductive JsFields where
  | nil
  | field (k : String) (v : Js) (r : JsFields)
end

instance : Inhabited Js := ⟨.id "undefined"⟩

/-- operator spelling without blanks -/
def unText : UnOp → String
  | .Reverse => "!" | .BitReverse => "~" | .Positive => "+" | .Negative => "-"
  | .TypeOf => "typeof" | .Void => "void"

def binText : BinOp → String
  | .Multiply => "*" | .Divide => "/" | .Remainer => "%" | .Plus => "+" | .Minus => "-"
  | .LeftShift => "<<" | .RightShift => ">>" | .UnsignedRightShift => ">>>"
  | .Lt => "<" | .Gt => ">" | .Lte => "<=" | .Gte => ">=" | .InstanceOf => "instanceof"
  | .Eq => "==" | .Ne => "!=" | .EqFull => "===" | .NeFull => "!=="
  | .BitAnd => "&" | .BitXor => "^" | .BitOr => "|" | .LogicAnd => "&&" | .LogicOr => "||"
  | .NullishCoalescing => "??"

/-- precedence level of a binary operator in ECMAScript (`??` is not used by the generator and
cannot be mixed with `||`/`&&`; it gets no rule in `G`). -/
def binLevel : BinOp → Nat
  | .Multiply | .Divide | .Remainer => 3
  | .Plus | .Minus => 4
  | .LeftShift | .RightShift | .UnsignedRightShift => 5
  | .Lt | .Gt | .Lte | .Gte | .InstanceOf => 6
  | .Eq | .Ne | .EqFull | .NeFull => 7
  | .BitAnd => 8 | .BitXor => 9 | .BitOr => 10 | .LogicAnd => 11 | .LogicOr => 12
  | .NullishCoalescing => 12

/-- A token spelled `sp` stands for operator text `t` if it is `t` with optional blanks around. -/
def spells (sp t : String) : Bool := sp.toList.filter (· ≠ ' ') == t.toList

mutual
/-- `G l e ts`: the token list `ts` derives the tree `e` at the nonterminal of level `l`. -/
inductive G : Nat → Js → List Tok → Prop
  | id (s) : G 0 (.id s) [.id s]
  | num (s) : G 0 (.num s) [.num s]
  | str (s) : G 0 (.str s) [.str s]
  | paren {e ts} : G 13 e ts → G 0 e (Tok.p "(" :: (ts ++ [Tok.p ")"]))
  | arr {items ts} : GItems items ts → G 0 (.arr items) (Tok.p "[" :: (ts ++ [Tok.p "]"]))
  | obj {fs ts} : GFields fs ts → G 0 (.obj fs) (Tok.p "{" :: (ts ++ [Tok.p "}"]))
  | member {o n to} : G 1 o to → G 1 (.member o n) (to ++ [Tok.p ".", Tok.id n])
  | index {o i to ti} : G 1 o to → G 13 i ti →
      G 1 (.index o i) (to ++ Tok.p "[" :: (ti ++ [Tok.p "]"]))
  | call {f args tf ta} : G 1 f tf → GArgs args ta →
      G 1 (.call f args) (tf ++ Tok.p "(" :: (ta ++ [Tok.p ")"]))
  | un {op e te sp} : spells sp (unText op) = true → G 2 e te → G 2 (.un op e) (Tok.p sp :: te)
  | bin {op a b ta tb sp} : op ≠ .NullishCoalescing → spells sp (binText op) = true →
      G (binLevel op) a ta → G (binLevel op - 1) b tb →
      G (binLevel op) (.bin op a b) (ta ++ Tok.p sp :: tb)
  | cond {c t f tc tt tf} : G 12 c tc → G 13 t tt → G 13 f tf →
      G 13 (.cond c t f) (tc ++ Tok.p "?" :: (tt ++ Tok.p ":" :: tf))
  | up {l e ts} : G l e ts → G (l + 1) e ts
/-- argument lists: comma separated AssignmentExpressions -/
inductive GArgs : JsList → List Tok → Prop
  | nil : GArgs .nil []
  | one {e ts} : G 13 e ts → GArgs (.cons e .nil) ts
  | more {e r ts tr} : G 13 e ts → GArgs r tr → r ≠ .nil → GArgs (.cons e r) (ts ++ Tok.p "," :: tr)
/-- array elements with elisions: an elision is an empty entry followed by a comma -/
inductive GItems : JsItems → List Tok → Prop
  | nil : GItems .nil []
  | last {e ts} : G 13 e ts → GItems (.item e .nil) ts
  | item {e r ts tr} : G 13 e ts → GItems r tr → r ≠ .nil → GItems (.item e r) (ts ++ Tok.p "," :: tr)
  | hole {r tr} : GItems r tr → GItems (.hole r) (Tok.p "," :: tr)
/-- object literal members `name : value`, comma separated -/
inductive GFields : JsFields → List Tok → Prop
  | nil : GFields .nil []
  | one {k v ts} : G 13 v ts → GFields (.field k v .nil) (Tok.id k :: Tok.p ":" :: ts)
  | more {k v r ts tr} : G 13 v ts → GFields r tr → r ≠ .nil →
      GFields (.field k v r) (Tok.id k :: Tok.p ":" :: (ts ++ Tok.p "," :: tr))
end

theorem G.mono {l l' e ts} (h : G l e ts) (hl : l ≤ l') : G l' e ts := by
  induction hl with
  | refl => exact h
  | step _ ih => exact .up ih

end GE.Spec
