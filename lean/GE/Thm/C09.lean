import GE.Model.Css
/-!
# C09 / C08 — class prefixing hits exactly the class positions; no token is lost or invented

Theorems about the model of the selector-context loops (`parse_qualified_rule`'s loop and
`convert_class_names_and_rpx_in_block`) and of the value loop (`convert_rpx_in_block`), for every
token tree (any nesting depth):

* `convCls_idents` / `qualLoop_idents`: the identifiers written are, in order, exactly the input's
  identifiers, where an identifier is replaced by `<prefix>--<name>` **iff** it immediately follows
  a `.` delimiter in selector context (no token, not even whitespace, in between); identifiers in
  `calc()` and in declaration blocks are never touched; without a prefix nothing changes;
* `convCls_shapes` / `qualLoop_shapes` / `convRpx_shapes`: apart from whitespace, separators and
  the optional sign comments, the written token sequence has exactly the input's token kinds, in
  order, with every bracket closed by its own closer — nothing is merged, split, dropped,
  duplicated or reordered by the transformer (serialisation to text is cssparser's part).
-/
namespace GE.Css

/-! ## projections of the written items -/

def identOfK : OutK → List String
  | .leaf (.ident s) => [s]
  | _ => []

def idents (l : List Out) : List String := l.flatMap (fun o => identOfK o.k)

/-- the kind of a token, forgetting payloads that the rewrites may change -/
inductive Shape where
  | leaf (tag : String)
  | «open» (k : BK)
  | close (k : BK)
deriving DecidableEq, Repr

def leafTag : Leaf → String
  | .ident _ => "ident" | .at _ => "at" | .hash _ => "hash" | .idhash _ => "idhash" | .str _ => "str"
  | .url _ => "url" | .delim c => "delim" ++ c | .num _ => "num" | .pct _ => "pct" | .dim .. => "dim"
  | .ws => "ws" | .colon => "colon" | .semi => "semi" | .comma => "comma" | .incl => "incl" | .dash => "dash"
  | .prefix => "prefix" | .suffix => "suffix" | .substr => "substr" | .cdo => "cdo" | .cdc => "cdc"
  | .badurl _ => "badurl" | .badstr _ => "badstr" | .closeparen => "closeparen"
  | .closesquare => "closesquare" | .closecurly => "closecurly" | .comment _ => "comment"

/-- shape of a written item; whitespace, separators and comments (the sign) are not counted -/
def shapeOfK : OutK → List Shape
  | .leaf .ws => []
  | .leaf (.comment _) => []
  | .leaf k => [.leaf (leafTag k)]
  | .open k _ => [.open k]
  | .close k => [.close k]
  | .sep => []

def shapes (l : List Out) : List Shape := l.flatMap (fun o => shapeOfK o.k)

theorem idents_append (a b : List Out) : idents (a ++ b) = idents a ++ idents b := by simp [idents]
theorem shapes_append (a b : List Out) : shapes (a ++ b) = shapes a ++ shapes b := by simp [shapes]

/-! ## what one write does to the projections -/

theorem token_items (s : Sink) (k : OutK) (pos : Pos) (name : Option String) :
    ∃ sepItems, (s.token k pos name).items = s.items ++ sepItems ++ [⟨k, some pos, name⟩] ∧
      idents sepItems = [] ∧ shapes sepItems = [] := by
  by_cases h : needsSep s.prev (serOut k) = true
  · exact ⟨[⟨.sep, none, none⟩], by simp [Sink.token, h], rfl, rfl⟩
  · exact ⟨[], by simp [Sink.token, h], rfl, rfl⟩

theorem tokenSp_items (s : Sink) (k : OutK) (pos : Pos) (name : Option String) :
    ∃ pre : List Out, ∃ o : Out, (s.tokenSp k pos name).items = s.items ++ pre ++ [o] ∧ o.k = k ∧
      idents pre = [] ∧ shapes pre = [] := by
  by_cases hk : k = .leaf .ws
  · subst hk
    exact ⟨[], ⟨.leaf .ws, none, none⟩, by simp [Sink.tokenSp], rfl, rfl, rfl⟩
  · obtain ⟨sepItems, h1, h2, h3⟩ := token_items s k pos name
    refine ⟨sepItems, ⟨k, some pos, name⟩, ?_, rfl, h2, h3⟩
    rw [← h1]
    unfold Sink.tokenSp
    split
    · exact absurd rfl hk
    · rfl

theorem cur_setCur (st : St) (s : Sink) : (st.setCur s).cur = s := by
  unfold St.setCur St.cur; split <;> simp_all

theorem opts_setCur (st : St) (s : Sink) : (st.setCur s).opts = st.opts := by
  unfold St.setCur; split <;> rfl

/-- a write through `tok` or `tokSp` appends: identifiers/shapes of the new token only -/
structure Wrote (st st' : St) (ids : List String) (shs : List Shape) : Prop where
  opts : st'.opts = st.opts
  /-- the current output was extended (nothing written earlier is touched) by items with these projections -/
  ext : ∃ new, st'.cur.items = st.cur.items ++ new ∧ idents new = ids ∧ shapes new = shs
  /-- the output being written to does not change, and the other output is untouched -/
  ul : st'.usingLow = st.usingLow
  other : (if st.usingLow then st'.normal = st.normal else st'.low = st.low)
  stacks : st'.stacks = st.stacks
  warns : st'.warnings = st.warnings

theorem Wrote.ids {st st' : St} {ids shs} (h : Wrote st st' ids shs) :
    idents st'.cur.items = idents st.cur.items ++ ids := by
  obtain ⟨new, e, hi, _⟩ := h.ext; rw [e, idents_append, hi]

theorem Wrote.shs {st st' : St} {ids shs} (h : Wrote st st' ids shs) :
    shapes st'.cur.items = shapes st.cur.items ++ shs := by
  obtain ⟨new, e, _, hs⟩ := h.ext; rw [e, shapes_append, hs]

theorem Wrote.refl (st : St) : Wrote st st [] [] := ⟨rfl, ⟨[], by simp, rfl, rfl⟩, rfl, by split <;> rfl, rfl, rfl⟩

theorem Wrote.trans {a b c : St} {i1 i2 s1 s2} (h1 : Wrote a b i1 s1) (h2 : Wrote b c i2 s2) :
    Wrote a c (i1 ++ i2) (s1 ++ s2) :=
  ⟨h2.opts.trans h1.opts, by
     obtain ⟨n1, e1, hi1, hs1⟩ := h1.ext
     obtain ⟨n2, e2, hi2, hs2⟩ := h2.ext
     exact ⟨n1 ++ n2, by rw [e2, e1, List.append_assoc], by rw [idents_append, hi1, hi2], by rw [shapes_append, hs1, hs2]⟩,
   h2.ul.trans h1.ul, by
     have o1 := h1.other; have o2 := h2.other; rw [h1.ul] at o2
     split <;> simp_all, h2.stacks.trans h1.stacks, h2.warns.trans h1.warns⟩

theorem setCur_facts (st : St) (s : Sink) :
    (st.setCur s).usingLow = st.usingLow ∧ (if st.usingLow then (st.setCur s).normal = st.normal else (st.setCur s).low = st.low) ∧
    (st.setCur s).stacks = st.stacks ∧ (st.setCur s).warnings = st.warnings := by
  unfold St.setCur; split <;> simp_all

theorem wrote_tok (st : St) (k : OutK) (pos : Pos) (name : Option String) :
    Wrote st (st.tok k pos name) (identOfK k) (shapeOfK k) := by
  obtain ⟨sepItems, h1, h2, h3⟩ := token_items st.cur k pos name
  obtain ⟨f1, f2, f3, f4⟩ := setCur_facts st (st.cur.token k pos name)
  refine ⟨opts_setCur _ _, ⟨sepItems ++ [⟨k, some pos, name⟩], ?_, ?_, ?_⟩, f1, f2, f3, f4⟩
  · simp only [St.tok, cur_setCur, h1, List.append_assoc]
  · simp only [idents_append, h2, List.nil_append]
    simp [idents]
  · simp only [shapes_append, h3, List.nil_append]
    simp [shapes]

theorem wrote_tokSp (st : St) (k : OutK) (pos : Pos) (name : Option String) :
    Wrote st (st.tokSp k pos name) (identOfK k) (shapeOfK k) := by
  obtain ⟨pre, o, h1, hk, h2, h3⟩ := tokenSp_items st.cur k pos name
  obtain ⟨f1, f2, f3, f4⟩ := setCur_facts st (st.cur.tokenSp k pos name)
  refine ⟨opts_setCur _ _, ⟨pre ++ [o], ?_, ?_, ?_⟩, f1, f2, f3, f4⟩
  · simp only [St.tokSp, cur_setCur, h1, List.append_assoc]
  · simp only [idents_append, h2, List.nil_append]
    simp [idents, hk]
  · simp only [shapes_append, h3, List.nil_append]
    simp [shapes, hk]

theorem wrote_flushWs (st : St) (hw : Bool) (pos : Pos) : Wrote st (flushWs st hw pos) [] [] := by
  unfold flushWs
  split
  · simpa [identOfK, shapeOfK] using wrote_tokSp st (.leaf .ws) pos none
  · exact Wrote.refl st

theorem wrote_open (st : St) (k : BK) (name : String) (pos : Pos) :
    Wrote st (openTok st k name pos) [] [.open k] := by
  simpa [openTok, identOfK, shapeOfK] using wrote_tok st (.open k name) pos none

theorem wrote_close (st : St) (k : BK) (pos : Pos) :
    Wrote st (closeTok st k pos) [] [.close (closeOf k)] := by
  simpa [closeTok, identOfK, shapeOfK] using wrote_tok st (.close (closeOf k)) pos none

/-- the identifier written for an input identifier -/
def rewriteIdent (opts : Opts) (s : String) (inClass : Bool) : String :=
  match inClass, opts.classPrefix with
  | true, some p => p ++ "--" ++ s
  | _, _ => s

theorem wrote_writeIdent (st : St) (s : String) (pos : Pos) (ic : Bool) :
    Wrote st (writeIdent st s pos ic) [rewriteIdent st.opts s ic] [.leaf "ident"] := by
  unfold writeIdent
  -- the optional sign comment
  have hsign : ∀ st0 : St, Wrote st0 (if ic then
        (match st0.opts.classPrefixSign with
         | some sign => st0.tok (.leaf (.comment sign)) pos
         | none => st0) else st0) [] [] := by
    intro st0
    split
    · split
      · simpa [identOfK, shapeOfK] using wrote_tok st0 (.leaf (.comment _)) pos none
      · exact Wrote.refl _
    · exact Wrote.refl _
  have h1 := hsign st
  generalize (if ic then
        (match st.opts.classPrefixSign with
         | some sign => st.tok (.leaf (.comment sign)) pos
         | none => st) else st) = st1 at h1
  have ho : st1.opts = st.opts := h1.opts
  simp only
  cases ic with
  | false =>
    have := wrote_tokSp st1 (.leaf (.ident s)) pos none
    simpa [rewriteIdent, identOfK, shapeOfK, leafTag] using h1.trans this
  | true =>
    cases hp : st1.opts.classPrefix with
    | none =>
      have := wrote_tokSp st1 (.leaf (.ident s)) pos none
      have hp' : st.opts.classPrefix = none := by rw [← ho]; exact hp
      simpa [rewriteIdent, identOfK, shapeOfK, leafTag, hp, hp'] using h1.trans this
    | some p =>
      have := wrote_tokSp st1 (.leaf (.ident (p ++ "--" ++ s))) pos (some s)
      have hp' : st.opts.classPrefix = some p := by rw [← ho]; exact hp
      simpa [rewriteIdent, identOfK, shapeOfK, leafTag, hp, hp'] using h1.trans this

theorem wrote_writeDim (st : St) (n : Num) (unit : String) (pos : Pos) :
    Wrote st (writeDim st n unit pos) [] [.leaf "dim"] := by
  unfold writeDim rpxDim
  split
  · simpa [identOfK, shapeOfK, leafTag] using wrote_tok st (.leaf (.dim _ "vw")) pos _
  · simpa [identOfK, shapeOfK, leafTag] using wrote_tok st (.leaf (.dim n unit)) pos none


/-! ## specifications (written from the properties) -/

mutual
/-- shape of an input token: whitespace and comments have none; a block is its opener, its
content, its own closer -/
def inShape : Tok → List Shape
  | .leaf .ws _ => []
  | .leaf (.comment _) _ => []
  | .leaf k _ => [.leaf (leafTag k)]
  | .block k _ body _ => .open k :: (inShapes body ++ [.close (closeOf k)])
def inShapes : List Tok → List Shape
  | [] => []
  | t :: ts => inShape t ++ inShapes ts
end

mutual
/-- identifiers of a value context (declaration blocks, `calc()`): all of them, unchanged -/
def valueIdents : Tok → List String
  | .leaf (.ident s) _ => [s]
  | .leaf _ _ => []
  | .block _ _ body _ => valueIdentsL body
def valueIdentsL : List Tok → List String
  | [] => []
  | t :: ts => valueIdents t ++ valueIdentsL ts
end

/-- identifiers of a selector context: an identifier is prefixed iff the token immediately before it
(in the same block) is the delimiter `.`; `calc()` contents are a value context -/
def selectorIdents (opts : Opts) : List Tok → Bool → List String
  | [], _ => []
  | .leaf .ws _ :: ts, _ => selectorIdents opts ts false
  | .block k name body _ :: ts, _ =>
    (match k with
     | .fn => if name = "calc" then valueIdentsL body else selectorIdents opts body false
     | _ => selectorIdents opts body false) ++ selectorIdents opts ts false
  | .leaf (.delim c) _ :: ts, _ => selectorIdents opts ts (c = ".")
  | .leaf (.ident s) _ :: ts, ic => rewriteIdent opts s ic :: selectorIdents opts ts false
  | .leaf _ _ :: ts, _ => selectorIdents opts ts false

/-! ## the loops meet the specifications -/

theorem wrote_congr {a b : St} {i i' : List String} {s s' : List Shape} (h : Wrote a b i s)
    (hi : i = i') (hs : s = s') : Wrote a b i' s' := by subst hi; subst hs; exact h

theorem convRpx_wrote : ∀ (ts : List Tok) (st : St) (inCalc : Bool) (prev : Option Tok),
    Wrote st (convRpx st inCalc ts prev) (valueIdentsL ts) (inShapes ts)
  | [], st, _, _ => by simpa [convRpx, valueIdentsL, inShapes] using Wrote.refl st
  | .block k name body pos :: ts, st, inCalc, prev => by
    have key : ∀ inner : Bool, Wrote st
        (convRpx (closeTok (convRpx (openTok st k name pos) inner body none) k pos) inCalc ts
          (some (.block k name body pos)))
        (valueIdentsL (.block k name body pos :: ts)) (inShapes (.block k name body pos :: ts)) := by
      intro inner
      have h1 := wrote_open st k name pos
      have h2 := convRpx_wrote body (openTok st k name pos) inner none
      have h3 := wrote_close (convRpx (openTok st k name pos) inner body none) k pos
      have h4 := convRpx_wrote ts (closeTok (convRpx (openTok st k name pos) inner body none) k pos) inCalc
        (some (.block k name body pos))
      exact wrote_congr (((h1.trans h2).trans h3).trans h4)
        (by simp [valueIdentsL, valueIdents]) (by simp [inShapes, inShape])
    cases k <;> simp only [convRpx] <;> exact key _
  | .leaf k pos :: ts, st, inCalc, prev => by
    cases k with
    | dim n unit =>
      simp only [convRpx]
      exact wrote_congr ((wrote_writeDim st n unit pos).trans (convRpx_wrote ts _ inCalc _))
        (by simp [valueIdentsL, valueIdents]) (by simp [inShapes, inShape, leafTag])
    | ws =>
      have hkeep : ∀ keep : Bool, Wrote st
          (convRpx (if keep then st.tok (.leaf .ws) pos else st) inCalc ts (some (.leaf .ws pos)))
          (valueIdentsL (.leaf .ws pos :: ts)) (inShapes (.leaf .ws pos :: ts)) := by
        intro keep
        have hw : Wrote st (if keep then st.tok (.leaf .ws) pos else st) [] [] := by
          cases keep
          · exact Wrote.refl st
          · simpa [identOfK, shapeOfK] using wrote_tok st (.leaf .ws) pos none
        exact wrote_congr (hw.trans (convRpx_wrote ts _ inCalc _))
          (by simp [valueIdentsL, valueIdents]) (by simp [inShapes, inShape])
      have hskip : Wrote st (convRpx st inCalc ts prev)
          (valueIdentsL (.leaf .ws pos :: ts)) (inShapes (.leaf .ws pos :: ts)) :=
        wrote_congr (convRpx_wrote ts st inCalc prev)
          (by simp [valueIdentsL, valueIdents]) (by simp [inShapes, inShape])
      cases inCalc <;> cases ts <;> cases prev <;> simp only [convRpx] <;>
        first
          | exact hskip
          | exact hkeep _
          | (simpa [convRpx] using hskip)
          | (simpa [convRpx] using hkeep false)
          | (simpa [convRpx] using hkeep true)
          | (rename_i v; simpa [convRpx] using hkeep (isPlusMinus v))
    | _ =>
      simp only [convRpx]
      exact wrote_congr ((wrote_tok st (.leaf _) pos none).trans (convRpx_wrote ts _ inCalc _))
        (by simp [valueIdentsL, valueIdents, identOfK]) (by simp [inShapes, inShape, shapeOfK, leafTag])


theorem convCls_wrote : ∀ (ts : List Tok) (st : St) (start hw ic : Bool),
    Wrote st (convCls st ts start hw ic) (selectorIdents st.opts ts ic) (inShapes ts)
  | [], st, _, _, _ => by simpa [convCls, selectorIdents, inShapes] using Wrote.refl st
  | .block k name body pos :: ts, st, start, hw, ic => by
    -- the part common to all block kinds, given what happens inside the block
    have key : ∀ (st1 : St) (inner : St → St) (ids : List String),
        Wrote st st1 [] [] →
        (∀ s0 : St, s0.opts = st.opts → Wrote s0 (inner s0) ids (inShapes body)) →
        Wrote st (convCls (closeTok (inner (openTok st1 k name pos)) k pos) ts false false false)
          (ids ++ selectorIdents st.opts ts false) (inShapes (.block k name body pos :: ts)) := by
      intro st1 inner ids h0 hin
      have h1 := wrote_open st1 k name pos
      have h2 := hin (openTok st1 k name pos) (h1.opts.trans h0.opts)
      have h3 := wrote_close (inner (openTok st1 k name pos)) k pos
      have ho : (closeTok (inner (openTok st1 k name pos)) k pos).opts = st.opts :=
        (((h0.trans h1).trans h2).trans h3).opts
      have h4 := convCls_wrote ts (closeTok (inner (openTok st1 k name pos)) k pos) false false false
      rw [ho] at h4
      exact wrote_congr ((((h0.trans h1).trans h2).trans h3).trans h4) (by simp) (by simp [inShapes, inShape])
    have hcls : ∀ s0 : St, s0.opts = st.opts →
        Wrote s0 (convCls s0 body true false false) (selectorIdents st.opts body false) (inShapes body) := by
      intro s0 h0
      have := convCls_wrote body s0 true false false
      rwa [h0] at this
    have hrpx : ∀ s0 : St, s0.opts = st.opts →
        Wrote s0 (convRpx s0 true body none) (valueIdentsL body) (inShapes body) :=
      fun s0 _ => convRpx_wrote body s0 true none
    cases k with
    | curly =>
      simp only [convCls]
      exact wrote_congr (key st (fun s => convCls s body true false false) _ (Wrote.refl st) hcls)
        (by simp [selectorIdents]) rfl
    | fn =>
      simp only [convCls]
      by_cases hc : name = "calc"
      · simp only [hc, if_true]
        have := key (flushWs st hw pos) (fun s => convRpx s true body none) _ (wrote_flushWs st hw pos) hrpx
        exact wrote_congr (by simpa [hc] using this) (by simp [selectorIdents, hc]) (by simp [hc])
      · simp only [hc, if_false]
        have := key (flushWs st hw pos) (fun s => convCls s body true false false) _ (wrote_flushWs st hw pos) hcls
        exact wrote_congr this (by simp [selectorIdents, hc]) rfl
    | paren =>
      simp only [convCls]
      exact wrote_congr (key (flushWs st hw pos) (fun s => convCls s body true false false) _
        (wrote_flushWs st hw pos) hcls) (by simp [selectorIdents]) rfl
    | square =>
      simp only [convCls]
      exact wrote_congr (key (flushWs st hw pos) (fun s => convCls s body true false false) _
        (wrote_flushWs st hw pos) hcls) (by simp [selectorIdents]) rfl
  | .leaf k pos :: ts, st, start, hw, ic => by
    have hf := wrote_flushWs st hw pos
    have rec_ : ∀ (s1 : St) (ic' : Bool), s1.opts = st.opts →
        Wrote s1 (convCls s1 ts false false ic') (selectorIdents st.opts ts ic') (inShapes ts) := by
      intro s1 ic' h
      have := convCls_wrote ts s1 false false ic'
      rwa [h] at this
    cases k with
    | ws =>
      simp only [convCls]
      exact wrote_congr (convCls_wrote ts st start (!start) false)
        (by simp [selectorIdents]) (by simp [inShapes, inShape])
    | delim c =>
      simp only [convCls]
      have h1 := wrote_tok (flushWs st hw pos) (.leaf (.delim c)) pos none
      have h2 := rec_ _ (c = ".") ((hf.trans h1).opts)
      exact wrote_congr ((hf.trans h1).trans h2) (by simp [selectorIdents, identOfK])
        (by simp [inShapes, inShape, shapeOfK, leafTag])
    | ident s =>
      simp only [convCls]
      have h1 := wrote_writeIdent (flushWs st hw pos) s pos ic
      rw [hf.opts] at h1
      have h2 := rec_ _ false ((hf.trans h1).opts)
      exact wrote_congr ((hf.trans h1).trans h2) (by simp [selectorIdents])
        (by simp [inShapes, inShape, leafTag])
    | dim n unit =>
      simp only [convCls]
      have h1 := wrote_writeDim (flushWs st hw pos) n unit pos
      have h2 := rec_ _ false ((hf.trans h1).opts)
      exact wrote_congr ((hf.trans h1).trans h2) (by simp [selectorIdents])
        (by simp [inShapes, inShape, leafTag])
    | _ =>
      simp only [convCls]
      refine wrote_congr ((hf.trans (wrote_tok (flushWs st hw pos) _ pos none)).trans
        (rec_ _ false ((hf.trans (wrote_tok (flushWs st hw pos) _ pos none)).opts))) ?_ ?_
      · simp [selectorIdents, identOfK]
      · simp [inShapes, inShape, shapeOfK, leafTag]


/-! ## a whole qualified rule: prelude (selector context) and declaration block (value context) -/

/-- identifiers of a rule `prelude { block }`: selector context up to the first `{}` block, whose
content is a value context -/
def ruleIdents (opts : Opts) : List Tok → Bool → List String
  | [], _ => []
  | .leaf .ws _ :: ts, _ => ruleIdents opts ts false
  | .block .curly _ body _ :: _, _ => valueIdentsL body
  | .block _ _ body _ :: ts, _ => selectorIdents opts body false ++ ruleIdents opts ts false
  | .leaf (.delim c) _ :: ts, _ => ruleIdents opts ts (c = ".")
  | .leaf (.ident s) _ :: ts, ic => rewriteIdent opts s ic :: ruleIdents opts ts false
  | .leaf _ _ :: ts, _ => ruleIdents opts ts false

/-- token kinds of a rule up to and including its `{}` block -/
def ruleShapes : List Tok → List Shape
  | [] => []
  | .block .curly n body p :: _ => inShape (.block .curly n body p)
  | t :: ts => inShape t ++ ruleShapes ts

theorem qualLoop_wrote : ∀ (ts : List Tok) (st : St) (start hw ic : Bool),
    Wrote st (qualLoop st ts start hw ic).1 (ruleIdents st.opts ts ic) (ruleShapes ts)
  | [], st, _, _, _ => by simpa [qualLoop, ruleIdents, ruleShapes] using Wrote.refl st
  | .block k name body pos :: ts, st, start, hw, ic => by
    have hf := wrote_flushWs st hw pos
    cases k with
    | curly =>
      simp only [qualLoop]
      have h1 := wrote_open st .curly name pos
      have h2 := convRpx_wrote body (openTok st .curly name pos) false none
      have h3 := wrote_close (convRpx (openTok st .curly name pos) false body none) .curly pos
      exact wrote_congr ((h1.trans h2).trans h3) (by simp [ruleIdents]) (by simp [ruleShapes, inShape])
    | fn =>
      simp only [qualLoop]
      have h1 := wrote_open (flushWs st hw pos) .fn name pos
      have h2 := convCls_wrote body (openTok (flushWs st hw pos) .fn name pos) true false false
      rw [(hf.trans h1).opts] at h2
      have h3 := wrote_close (convCls (openTok (flushWs st hw pos) .fn name pos) body true false false) .fn pos
      have h4 := qualLoop_wrote ts (closeTok (convCls (openTok (flushWs st hw pos) .fn name pos) body true false false) .fn pos) false false false
      rw [(((hf.trans h1).trans h2).trans h3).opts] at h4
      exact wrote_congr ((((hf.trans h1).trans h2).trans h3).trans h4) (by simp [ruleIdents])
        (by simp [ruleShapes, inShape])
    | paren =>
      simp only [qualLoop]
      have h1 := wrote_open (flushWs st hw pos) .paren name pos
      have h2 := convCls_wrote body (openTok (flushWs st hw pos) .paren name pos) true false false
      rw [(hf.trans h1).opts] at h2
      have h3 := wrote_close (convCls (openTok (flushWs st hw pos) .paren name pos) body true false false) .paren pos
      have h4 := qualLoop_wrote ts (closeTok (convCls (openTok (flushWs st hw pos) .paren name pos) body true false false) .paren pos) false false false
      rw [(((hf.trans h1).trans h2).trans h3).opts] at h4
      exact wrote_congr ((((hf.trans h1).trans h2).trans h3).trans h4) (by simp [ruleIdents])
        (by simp [ruleShapes, inShape])
    | square =>
      simp only [qualLoop]
      have h1 := wrote_open (flushWs st hw pos) .square name pos
      have h2 := convCls_wrote body (openTok (flushWs st hw pos) .square name pos) true false false
      rw [(hf.trans h1).opts] at h2
      have h3 := wrote_close (convCls (openTok (flushWs st hw pos) .square name pos) body true false false) .square pos
      have h4 := qualLoop_wrote ts (closeTok (convCls (openTok (flushWs st hw pos) .square name pos) body true false false) .square pos) false false false
      rw [(((hf.trans h1).trans h2).trans h3).opts] at h4
      exact wrote_congr ((((hf.trans h1).trans h2).trans h3).trans h4) (by simp [ruleIdents])
        (by simp [ruleShapes, inShape])
  | .leaf k pos :: ts, st, start, hw, ic => by
    have hf := wrote_flushWs st hw pos
    have rec_ : ∀ (s1 : St) (ic' : Bool), s1.opts = st.opts →
        Wrote s1 (qualLoop s1 ts false false ic').1 (ruleIdents st.opts ts ic') (ruleShapes ts) := by
      intro s1 ic' h
      have := qualLoop_wrote ts s1 false false ic'
      rwa [h] at this
    cases k with
    | ws =>
      simp only [qualLoop]
      exact wrote_congr (qualLoop_wrote ts st start (!start) false)
        (by simp [ruleIdents]) (by simp [ruleShapes, inShape])
    | delim c =>
      simp only [qualLoop]
      have h1 := wrote_tokSp (flushWs st hw pos) (.leaf (.delim c)) pos none
      have h2 := rec_ _ (c = ".") ((hf.trans h1).opts)
      exact wrote_congr ((hf.trans h1).trans h2) (by simp [ruleIdents, identOfK])
        (by simp [ruleShapes, inShape, shapeOfK, leafTag])
    | ident s =>
      simp only [qualLoop]
      have h1 := wrote_writeIdent (flushWs st hw pos) s pos ic
      rw [hf.opts] at h1
      have h2 := rec_ _ false ((hf.trans h1).opts)
      exact wrote_congr ((hf.trans h1).trans h2) (by simp [ruleIdents])
        (by simp [ruleShapes, inShape, leafTag])
    | _ =>
      simp only [qualLoop]
      refine wrote_congr ((hf.trans (wrote_tokSp (flushWs st hw pos) _ pos none)).trans
        (rec_ _ false ((hf.trans (wrote_tokSp (flushWs st hw pos) _ pos none)).opts))) ?_ ?_
      · simp [ruleIdents, identOfK]
      · simp [ruleShapes, inShape, shapeOfK, leafTag]

/-! ## property statements -/

/-- **C09 / C08 for a style rule** (any nesting depth of selector functions and blocks): the rule's
identifiers are written in order, an identifier being replaced by `<prefix>--<name>` exactly when it
immediately follows a `.` in selector context; and the written token kinds are exactly the input's. -/
theorem rule_rewrite_exact (st : St) (ts : List Tok) :
    let st' := (qualLoop st ts true false false).1
    idents st'.cur.items = idents st.cur.items ++ ruleIdents st.opts ts false ∧
    shapes st'.cur.items = shapes st.cur.items ++ ruleShapes ts :=
  let h := qualLoop_wrote ts st true false false
  ⟨h.ids, h.shs⟩

/-- without a class prefix no identifier is altered anywhere -/
theorem no_prefix_no_change (opts : Opts) (h : opts.classPrefix = none) (s : String) (ic : Bool) :
    rewriteIdent opts s ic = s := by
  unfold rewriteIdent; cases ic <;> simp [h]

/-- an identifier that does not immediately follow `.` is never altered -/
theorem not_class_unchanged (opts : Opts) (s : String) : rewriteIdent opts s false = s := by
  simp [rewriteIdent]

/-- a class name is prefixed exactly once -/
theorem class_prefixed_once (opts : Opts) (p s : String) (h : opts.classPrefix = some p) :
    rewriteIdent opts s true = p ++ "--" ++ s := by
  simp [rewriteIdent, h]

/-! non-vacuity: `.a :not(:is(.b c))` with prefix `p` -/
example :
    ruleIdents ⟨some "p", none, 0, none, false, none⟩
      [.leaf (.delim ".") ⟨0,0⟩, .leaf (.ident "a") ⟨0,1⟩, .leaf .ws ⟨0,2⟩, .leaf .colon ⟨0,3⟩,
       .block .fn "not" [.leaf .colon ⟨0,8⟩, .block .fn "is" [.leaf (.delim ".") ⟨0,12⟩, .leaf (.ident "b") ⟨0,13⟩,
         .leaf .ws ⟨0,14⟩, .leaf (.ident "c") ⟨0,15⟩] ⟨0,9⟩] ⟨0,4⟩] false
      = ["p--a", "p--b", "c"] := by
  simp [ruleIdents, selectorIdents, rewriteIdent]

end GE.Css
