/-
The executable instance of the tag-level model that is compared with the real runtime (`GE/Model/TagSemJson.lean`: JSON values,
every binding re-evaluated) satisfies `Law` with the trivial coverage relation — it needs no assumption about update-path trees at
all.  `updates_refine` therefore applies to the very functions the `tagsem` stream runs against the implementation: whatever the
history, the tree this instance computes after the updates is, up to node creation times, the tree it computes by a fresh creation.
-/
import GE.Thm.C06Tag
import GE.Model.TagSemJson

namespace GE.TagSem

theorem J.same_eq : ∀ a b : J, J.same a b = true → a = b := by
  intro a b h
  cases a <;> cases b <;> simp_all [J.same]

theorem jsonLaw : Law jsonSem (fun _ _ _ => True) where
  cov_all := fun _ _ => trivial
  cov_none := fun _ => trivial
  same_eq := J.same_eq
  guard := by intro e D0 D1 sc0 sc1 U su _ _ h; simp [jsonSem] at h
  tree := fun _ _ _ _ _ _ _ _ _ => trivial
  child := fun _ _ _ _ _ _ _ _ _ => trivial
  none_cov := fun _ _ _ _ _ => trivial
  none_items := fun _ _ _ _ _ _ _ _ _ _ _ => trivial
  key_kept := by
    intro key L l0 l1 _ hn a1 x _ hs
    -- a tree that is not `undefined` is `true` in this instance: every item is told `true`
    have hL : L = false := by simpa [jsonSem] using hn
    subst hL
    simp [subMark, jsonSem] at hs
  keys_stable := by
    intro key L l0 l1 _ _ _ h
    simp [jsonSem] at h
  mk_cov := fun _ _ _ _ _ _ _ _ _ => trivial

/-- the functions that are run against the implementation: any history of updates ends, up to creation times, in the tree of a fresh creation -/
theorem json_updates_refine (t : Tpl TE) (D0 : J) (steps : List (J × Bool)) :
    (runUpdates jsonSem t 1 (create jsonSem 0 D0 [] t) steps).shape = (create jsonSem 0 (lastData D0 steps) [] t).shape :=
  updates_refine jsonSem jsonLaw t D0 steps (by
    induction steps generalizing D0 with
    | nil => trivial
    | cons st r ih => exact ⟨trivial, ih st.1⟩)

end GE.TagSem
