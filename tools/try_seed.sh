#!/bin/sh
# usage: tools/try_seed.sh <patch.diff> <Cxx> [tier] -- applies the seeded change to /repo, runs the check, undoes it
set -u
P="$1"; ID="$2"; TIER="${3:-quick}"
cd /repo || exit 2
if [ -n "$(git status --porcelain --untracked-files=no)" ]; then echo "repo not clean"; exit 2; fi
git apply "$P" || { echo "patch does not apply"; exit 2; }
cd /verif && ./check "$ID" --tier "$TIER" 2>&1 | grep -E "^(OK|VIOLATION|KNOWN-FINDING)|violation\[" | cut -c1-400 | sort | uniq -c | sort -rn | head -12
cd /repo && git checkout -- . && git status --porcelain --untracked-files=no

cd /verif && python3 -c "import sys; sys.path.insert(0,\"/verif\"); from checklib import core; core.build_harness()" >/dev/null 2>&1
