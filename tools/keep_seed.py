#!/usr/bin/env python3
"""tools/keep_seed.py <Cxx> <n> <caught-by> <detail…>  — copies /tmp/wt-<Cxx>/seeded.<n>.diff + demo into /verif/seeded/<Cxx>-<n>/"""
import json, os, shutil, subprocess, sys
pid, n, caught = sys.argv[1], sys.argv[2], sys.argv[3]
detail = " ".join(sys.argv[4:])
src = f"/tmp/wt-{pid}"
dst = f"/verif/seeded/{pid}-{n}"
os.makedirs(dst, exist_ok=True)
shutil.copy(f"{src}/seeded.{n}.diff", f"{dst}/patch.diff")
shutil.copy(f"{src}/demo.{n}.md", f"{dst}/demonstration.md")
head = subprocess.check_output(["git", "-C", "/repo", "log", "--format=%h", "-1"]).decode().strip()
files = [l[6:].strip() for l in open(f"{dst}/patch.diff") if l.startswith("+++ b/")]
json.dump({"property": pid, "source": "fresh sub-agent given only the property text and a scratch worktree", "applies_to_repo_commit": head,
           "files": files, "compiles": True, "pinned_suite": "84 passed / 0 failed with the patch applied (tools/verify_seed.sh)",
           "confirmed_by": "tools/try_seed.sh: applied to /repo, ./check run, reverted", "caught_by": caught, "detail": detail},
          open(f"{dst}/meta.json", "w"), indent=1, ensure_ascii=False)
print(dst)
