import Mathlib.Tactic.Linarith
import Mathlib.Tactic.FieldSimp
import Mathlib.Tactic.Positivity
import Mathlib.Tactic.Ring
import Mathlib.Algebra.Order.Field.Rat
import Mathlib.Algebra.Order.Field.Basic
import Mathlib.Algebra.Order.AbsoluteValue.Basic
/-!
# C10 — rpx arithmetic is right to within single-precision rounding

`write_maybe_rpx_dimension` computes `value * 100. / rpx_ratio` in `f32`: one rounded
multiplication and one rounded division.  In the standard model of floating-point arithmetic
(every operation returns the exact result rounded with relative error at most `ε`; normal range)
the emitted value differs from the exact quotient by at most `(2ε + ε²)` of its magnitude — for
every value, every positive ratio, and in any ordered field.  With `ε = 2⁻²⁴` this is the
"single-precision rounding" of the property (about `1.2·10⁻⁷` relative).
-/
namespace GE.C10

variable {K : Type*} [Field K] [LinearOrder K] [IsStrictOrderedRing K]

/-- **rpx error bound.** `rnd` is rounding to the floating-point format. -/
theorem rpx_error_bound (rnd : K → K) (ε : K) (hε : 0 ≤ ε)
    (hrnd : ∀ x, |rnd x - x| ≤ ε * |x|) (v ratio : K) (hr : 0 < ratio) :
    |rnd (rnd (v * 100) / ratio) - v * 100 / ratio| ≤ (2 * ε + ε ^ 2) * |v * 100 / ratio| := by
  set a := v * 100 with ha
  set r1 := rnd a with hr1
  set b := r1 / ratio with hb
  have h1 : |r1 - a| ≤ ε * |a| := hrnd a
  have h2 : |rnd b - b| ≤ ε * |b| := hrnd b
  have hdiff : b - a / ratio = (r1 - a) / ratio := by rw [hb]; field_simp
  have habsdiff : |b - a / ratio| ≤ ε * |a / ratio| := by
    rw [hdiff, abs_div, abs_div, abs_of_pos hr]
    rw [← mul_div_assoc]
    exact div_le_div_of_nonneg_right h1 hr.le
  have hb_le : |b| ≤ (1 + ε) * |a / ratio| := by
    have : b = a / ratio + (b - a / ratio) := by ring
    calc |b| = |a / ratio + (b - a / ratio)| := by rw [← this]
      _ ≤ |a / ratio| + |b - a / ratio| := abs_add_le _ _
      _ ≤ |a / ratio| + ε * |a / ratio| := by linarith
      _ = (1 + ε) * |a / ratio| := by ring
  have hnn : 0 ≤ |a / ratio| := abs_nonneg _
  calc |rnd b - a / ratio| = |(rnd b - b) + (b - a / ratio)| := by ring_nf
    _ ≤ |rnd b - b| + |b - a / ratio| := abs_add_le _ _
    _ ≤ ε * |b| + ε * |a / ratio| := by linarith
    _ ≤ ε * ((1 + ε) * |a / ratio|) + ε * |a / ratio| := by
        have := mul_le_mul_of_nonneg_left hb_le hε
        linarith
    _ = (2 * ε + ε ^ 2) * |a / ratio| := by ring

/-- the sign is kept: a rounding that preserves signs (as IEEE rounding does) yields a result of the
sign of `v` for a positive ratio -/
theorem rpx_sign_kept (rnd : K → K) (hsign : ∀ x, 0 ≤ x → 0 ≤ rnd x) (v ratio : K) (hv : 0 ≤ v) (hr : 0 < ratio) :
    0 ≤ rnd (rnd (v * 100) / ratio) := by
  apply hsign
  apply div_nonneg _ hr.le
  apply hsign
  positivity

/-- non-vacuity: exact arithmetic (ε = 0) gives the exact value -/
example (v ratio : ℚ) (hr : 0 < ratio) : |id (id (v * 100) / ratio) - v * 100 / ratio| ≤ (2 * 0 + 0 ^ 2) * |v * 100 / ratio| :=
  rpx_error_bound id 0 le_rfl (by intro x; simp) v ratio hr

end GE.C10
