"""C18 — @import is replaced by a faithful placeholder (DESIGN.md §9 C18)."""
from . import csscheck

THEOREMS = ["GE.Css.decode_encode", "GE.Css.encoded_alphabet", "GE.Css.encoded_has_no_comment_end", "GE.Css.decode_encodeByte"]


def focus(r, o):
    if r.chance(3, 4):
        o["import_sign"] = r.choice(["IMPORT", "@i", "é"])


def extra_cases(rng, quick):
    """imports that follow rules which leave nothing in the normal output, paths that already look percent-encoded"""
    out = []
    base = {"class_prefix": "p", "class_prefix_sign": None, "rpx_ratio": 750, "import_sign": "IMPORT", "convert_host": True, "host_is": None}
    firsts = [":host{color:red}", ":host(.a){color:red}", ":host .b{color:red}", "@import 'x.wxss';", "/* c */", "@charset \"utf-8\";", "@media x{:host{a:b}}",
              ".a{}", "@layer a;",
              # at-rules whose block is EMPTY (a nested rule list that ends at once), alone and after / around other rules (round 9, C18-9)
              "@media screen{}", "@layer x{}", "@supports (a:b){}", "@container c (min-width:1px){}", "@scope (.s){}", "@starting-style{}",
              ".q{x:y} @media print{}", "@media a{@supports (b:c){}}", "@media a{.r{s:t} @layer l{}}", "@font-face{}", "@page{}", "@keyframes k{}",
              "@media screen{ }", "@layer x{/* only a comment */}"]
    paths = ["./a%20b.wxss", "lib/100%2fzoom.wxss", "%", "%2", "%zz", "a%25b", "%E4%B8%AD", "a b", "*/", "é中😀", "'q'", "a\\\\b*?", "%41%42"]
    for f in firsts:
        for conv in (True, False):
            out.append((dict(base, convert_host=conv), f + " @import './a.wxss'; .b{color:blue}"))
            out.append((dict(base, convert_host=conv), f + " @import url(b.wxss) print;"))
    for p_ in paths:
        esc = p_.replace("'", "\\'")
        out.append((dict(base), "@import '%s';" % esc))
        out.append((dict(base), "@import url('%s') screen;" % esc))
        out.append((dict(base, import_sign=None), "@import '%s';" % esc))
    # function names in other letter cases (round 9, D72): every combination, followed by a rule that must survive
    for lay in ("", " layer(l)", " Layer(l)", " LAYER( l )", " layer", " LAYER"):
        for sup in ("", " supports(display:grid)", " Supports(display:grid)", " SUPPORTS((a:b) and (c:d))"):
            for med in ("", " screen", " (min-width:1px)"):
                out.append((dict(base), "@import 'm.wxss'%s%s%s; .after{color:red}" % (lay, sup, med)))
    return out


def run(chk):
    chk.rule = ("generated stylesheets with @import in string / url() / url(\"\") form, any Unicode path, layer()/supports()/media conditions, "
                "at every position x option sets; (1) model vs implementation; (2) oracle: placeholder comment decodes to the original path, "
                "stands where the import stood, wrapped in equivalent @layer/@supports/@media; late imports flagged; without a sign the rule passes through")
    chk.trusted = csscheck.TRUSTED
    chk.assumptions = ["decode_encode: percent-decoding the placeholder of ANY byte string returns it; encoded_has_no_comment_end: the encoded "
                       "path cannot close the comment; the byte table (isUnreserved) is extracted from the source each run; import_balanced (GE/Thm/C18Wrap.lean): "
                       "whenever the model's importRule accepts an import (a path was read, no unexpected token in the conditions, no {} block in the media part) "
                       "what it writes — @layer…{ @supports(…){ @media…{ /*placeholder*/ }}} — is balanced in { / }: read from any depth it never closes below "
                       "it and ends at it, for every token tree (nested blocks and any token inside the conditions included); PARTIAL: that the wrappers are "
                       "EQUIVALENT to the import's conditions (which prelude goes where) is tied by correspondence + oracle; a rejected import leaves the "
                       "wrappers it had already opened unclosed (malformed input, DESIGN §13)"]
    csscheck.run_property(chk, "C18", "GE.Thm.C18", THEOREMS, 700, 12000, focus=focus, extra_cases=extra_cases,
                          nontrivial=lambda o, css, res: "@import" in css.lower())
    failed, log = chk.prove("GE.Thm.C18Wrap", ["GE.Css.import_balanced", "GE.Css.importConds_bal", "GE.Css.importMedia_bal", "GE.Css.closes_bal",
                                               "GE.Css.bal_inShapes"])
    for t in failed:
        chk.violation("proof", f"obligation {t} no longer checks", theorem=t, log=log[-3000:])


def replay(chk, path):
    return csscheck.replay(chk, "C18", path)
