#!/usr/bin/env python3
"""Self test of /verif/js/runner.mjs: compiles a few templates with the Rust harness, renders them under
the real (type-stripped) glass-easel template runtime and checks the results for plausibility.
Prints PASS/FAIL lines, exits 0 iff everything passed. Stdlib only."""
import copy, json, os, subprocess, sys, time

HERE = os.path.dirname(os.path.abspath(__file__))
VERIF = os.path.dirname(HERE)
sys.path.insert(0, VERIF)
from checklib import core  # noqa: E402

T0 = time.time()
FAILS = []
COUNT = [0]


def check(name, ok, detail=""):
    COUNT[0] += 1
    if ok:
        print("PASS %s" % name)
    else:
        FAILS.append(name)
        print("FAIL %s %s" % (name, detail if isinstance(detail, str) else json.dumps(detail)[:1500]))


class Runner:
    def __init__(self):
        self.p = subprocess.Popen([core.NODE22, os.path.join(HERE, "runner.mjs")], stdin=subprocess.PIPE,
                                  stdout=subprocess.PIPE, stderr=subprocess.PIPE)

    def raw(self, line):
        self.p.stdin.write(line.encode() + b"\n")
        self.p.stdin.flush()
        ans = self.p.stdout.readline()
        if not ans:
            raise RuntimeError("runner died: " + self.p.stderr.read().decode()[-2000:])
        return json.loads(ans)

    def __call__(self, req):
        return self.raw(json.dumps(req))

    def close(self):
        self.p.stdin.close()
        return self.p.wait(timeout=10)


def compile_group(files, scripts=()):
    if not os.path.exists(core.HARNESS_BIN):
        core.build_harness()
    line = core.run_harness([core.req("group", json.dumps({"files": [list(f) for f in files],
                                                          "scripts": [list(s) for s in scripts]}))])[0]
    o = json.loads(line)
    for p, v in o["per"].items():
        if not isinstance(v, str):
            raise RuntimeError("compile error in %s: %r (warnings %r)" % (p, v, o["warnings"]))
    return o


def strip(t, keys=("log", "n", "applied")):
    """tree without the per-step members; listeners sorted (a re-bound dynamic listener moves to the end)"""
    if isinstance(t, list):
        return [strip(x, keys) for x in t]
    if isinstance(t, dict):
        return {k: (sorted(v, key=json.dumps) if k == "events" else strip(v, keys)) for k, v in t.items() if k not in keys}
    return t


def texts(t):
    """all text contents in document order"""
    out = []
    for n in t:
        if "text" in n:
            out.append(n["text"])
        out.extend(texts(n.get("children", [])))
    return out


def find(t, tag):
    for n in t:
        if n.get("tag") == tag:
            return n
        r = find(n.get("children", []), tag)
        if r is not None:
            return r
    return None


def set_path(data, path, value):
    d = copy.deepcopy(data)
    cur = d
    for k in path[:-1]:
        cur = cur[k]
    cur[path[-1]] = value
    return d


R = Runner()
UNDEF = {"$": "undefined"}


def render(g, path, steps, **kw):
    req = {"op": "render", "gen_groups": g["gen_groups"], "path": path, "steps": steps}
    req.update(kw)
    return R(req)


def consistency(label, g, path, d0, changes, **kw):
    """create(D1) == create(D0)+update(D1,true) == create(D0)+changes(D0->D1), strict == sloppy"""
    d1 = d0
    for p, v in changes:
        d1 = set_path(d1, p, v)
    a = render(g, path, [{"create": d1}], **kw)
    b = render(g, path, [{"create": d0}, {"update": d1, "U": True}], **kw)
    c = render(g, path, [{"create": d0}, {"changes": changes, "D": d1}], **kw)
    s = render(g, path, [{"create": d1}], strict=True, **kw)
    errs = [x.get("error") for x in (a, b, c, s)]
    if any(errs):
        check(label, False, errs)
        return None
    ta = strip(a["snapshots"][0]["tree"])
    check(label + " create(D1) == create(D0)+update(D1,true)", ta == strip(b["snapshots"][1]["tree"]),
          [ta, strip(b["snapshots"][1]["tree"])])
    check(label + " create(D1) == create(D0)+changes", ta == strip(c["snapshots"][1]["tree"]),
          [ta, strip(c["snapshots"][1]["tree"]), c["snapshots"][1]["ret"]])
    check(label + " strict == sloppy", a == s)
    return a["snapshots"][0]["tree"], c["snapshots"][1]


# ---------------------------------------------------------------------------------------------- 0 basics
pong = R({"op": "ping"})
check("ping", pong.get("ok") is True and pong.get("node", "").startswith("v22"), pong)
check("garbage line answered", "error" in R.raw("this is not json"))
check("blank line answered", "error" in R.raw(""))
check("unknown op answered", "error" in R({"op": "nope"}))
sx = R({"op": "syntax", "src": "var a=1;with(a){}"})
check("syntax sloppy-only", sx.get("sloppy") is True and sx.get("strict") is False and "err" in sx, sx)
sx = R({"op": "syntax", "src": "(()=>{return 1})()"})
check("syntax ok", sx == {"sloppy": True, "strict": True}, sx)
sx = R({"op": "syntax", "src": "var if=1"})
check("syntax bad", sx.get("sloppy") is False and sx.get("strict") is False, sx)
sx = R({"op": "syntax", "src": "for(;;){}"})
check("syntax never runs", sx == {"sloppy": True, "strict": True}, sx)

ev = R({"op": "evalref", "expr": "[M(D,'a'), M(null,'x'), CALL(D.f,2,3), CALL(1), -0, 0/0, 1/0, -1/0, [1,,2], D.u, D.g]",
        "data": {"a": 1, "f": {"$": "fn", "name": "add"}, "u": UNDEF, "g": {"$": "fn", "name": "obj"}}})
check("evalref values + encoding",
      ev == {"value": [1, UNDEF, 5, UNDEF, {"$": "-0"}, {"$": "nan"}, {"$": "inf"}, {"$": "-inf"},
                       [1, {"$": "hole"}, 2], UNDEF, {"$": "fn", "name": "obj"}]}, ev)
ev = R({"op": "evalref", "expr": "D.a.b.c", "data": {"a": {}}})
check("evalref throws", "throws" in ev and "TypeError" in ev["throws"], ev)
ev = R({"op": "evalref", "expr": "(()=>{for(;;){}})()", "data": None, "timeout": 100})
check("evalref infinite loop is bounded", "timed out" in ev.get("throws", ""), ev)
ev = R({"op": "evalref", "expr": "(function(){return this===undefined})()", "data": None, "strict": True})
check("evalref strict", ev == {"value": True}, ev)
ev = R({"op": "evalref", "expr": "1 +", "data": None})
check("evalref syntax error reported", "error" in ev, ev)
ev = R({"op": "evalref", "expr": "[D, Object.getPrototypeOf(D.o)===null, (()=>{var a=[];a[0]=a;return a})(), 1n]",
        "data": {"o": {"$": "obj0", "v": {"k": [{"$": "hole"}, {"$": "-0"}]}}}})
check("encode/decode obj0, cycle, bigint",
      ev == {"value": [{"o": {"k": [{"$": "hole"}, {"$": "-0"}]}}, True, [{"$": "cycle"}], {"$": "other", "s": "1"}]}, ev)

pt = R({"op": "pathtree", "changes": [[["a", "b"], 1], [["a", "b", "c"], 2], [["x", 0, "y"], 2]]})
check("pathtree replace", pt == {"U": {"a": {"b": True}, "x": {"0": {"y": True}}}}, pt)
pt = R({"op": "pathtree", "changes": [[["l", 3], 5], [["l"], [7, 8], 1, 1]]})
check("pathtree splice (real builder)",
      pt == {"U": {"l": {"$": "splice", "arr": [{"$": "hole"}, True, True, {"$": "hole"}, True], "own": {}}}}, pt)
pt = R({"op": "pathtree", "changes": []})
check("pathtree empty", pt == {"U": {}}, pt)

# ---------------------------------------------------------------------------------------------- 1 attributes
ATTR = ("<view id='{{i}}' class='x {{c}}' style='color:{{s}}' slot='{{sl}}' data-ab-cd='{{d}}' data:eF='{{d2}}' "
        "mark:m='{{mk}}' bind:tap='t' catch:tap2='{{h}}' mut-bind:a='x' capture-bind:b='y' capture-catch:c='z' "
        "model:value='{{ m.n }}' change:prop='{{f}}' prop='{{pv}}' generic:g='comp' hidden='{{hid}}' "
        "attr='static'>hi {{ n+1 }}!</view>")
g1 = compile_group([("a", ATTR)])
check("syntax of generated code", R({"op": "syntax", "src": g1["gen_groups"]}) == {"sloppy": True, "strict": True})
D0 = {"i": "id0", "c": "cc", "s": "red", "sl": "s1", "d": {"x": 1}, "d2": [1], "mk": 3,
      "h": {"$": "fn", "name": "id"}, "m": {"n": "mv"}, "f": {"$": "fn", "name": "add"}, "pv": 1, "hid": True, "n": 1}
r = render(g1, "a", [{"create": D0}])
v = r["snapshots"][0]["tree"][0] if r.get("snapshots") else {}
check("attrs create ok", "error" not in r, r.get("error"))
check("attrs: class/style/id/slot", (v.get("class"), v.get("style"), v.get("id"), v.get("slotAttr")) ==
      ("x cc", "color:red", "id0", "s1"), v)
check("attrs: attributes", v.get("attrs") == {"value": "mv", "prop": 1, "hidden": True, "attr": "static"}, v.get("attrs"))
check("attrs: dataset+marks", v.get("dataset") == {"abCd": {"x": 1}, "eF": [1]} and v.get("marks") == {"m": 3},
      [v.get("dataset"), v.get("marks")])
check("attrs: events [name,handler,final,mutated,capture,isDynamic]", v.get("events") == [
    ["tap", "t", False, False, False, False], ["tap2", {"$": "fn", "name": "id"}, True, False, False, True],
    ["a", "x", False, True, False, False], ["b", "y", False, False, True, False],
    ["c", "z", True, False, True, False]], v.get("events"))
check("attrs: model path", v.get("modelPaths") == {"value": ["m", "n"]}, v.get("modelPaths"))
check("attrs: change listener", v.get("changeProps") == {"prop": {"listener": {"$": "fn", "name": "add"}, "oldValue": 1}},
      v.get("changeProps"))
check("attrs: generics", v.get("generics") == {"g": "comp"}, v.get("generics"))
check("attrs: text", texts([v]) == ["hi 2!"], texts([v]))
check("attrs: log has every setter family",
      {"c", "y", "i", "d", "m", "v", "r", "p", "=slot", "=change"} <= {e[0] for e in v.get("log", [])}, v.get("log"))
# a partial update only re-evaluates what depends on the change
D1 = set_path(D0, ["c"], "dd")
r = render(g1, "a", [{"create": D0}, {"changes": [[["c"], "dd"]], "D": D1}])
v = r["snapshots"][1]["tree"][0]
check("attrs: partial update log", [e for e in v.get("log", []) if e[0] != "=slot"] == [["c", "x dd"]] and
      "log" not in v["children"][0], v.get("log"))
check("attrs: partial update U", r["snapshots"][1]["ret"] == {"via": "tree", "U": {"c": True}}, r["snapshots"][1]["ret"])
consistency("attrs", g1, "a", D0, [(["c"], "k"), (["m", "n"], "w"), (["pv"], 2), (["d"], None), (["n"], 41)])
# dynamic event handler replaced, not duplicated
r = render(g1, "a", [{"create": D0}, {"changes": [[["h"], "named"]], "D": set_path(D0, ["h"], "named")}])
ev2 = [e for e in r["snapshots"][1]["tree"][0]["events"] if e[0] == "tap2"]
check("attrs: dynamic listener replaced", ev2 == [["tap2", "named", True, False, False, True]], ev2)
# worklet + extra attributes + fallback listeners
g1b = compile_group([("a", "<view worklet:w='wk' bindtap='bt' data-x='1'/>")])
r = render(g1b, "a", [{"create": {}}], fallbackListener=True)
v = r["snapshots"][0]["tree"][0]
check("worklet + legacy bindtap through fallbackListener", v.get("worklets") == {"w": "wk"} and
      any(e[0] == "tap" and e[1] == "bt" for e in v.get("events", [])) and v.get("dataset") == {"x": "1"}, v)

# ---------------------------------------------------------------------------------------------- 2 if / elif / else
IF = ("<view wx:if='{{a}}'>A{{x}}</view><text wx:elif='{{b}}'>B{{x}}</text><block wx:else><i>C</i>{{x}}</block>"
      "<view>tail</view>")
g2 = compile_group([("a", IF)])
for lbl, d0, ch in [("if a->b", {"a": 1, "b": 0, "x": "1"}, [(["a"], 0), (["b"], 1)]),
                    ("if b->else", {"a": 0, "b": 1, "x": "1"}, [(["b"], 0), (["x"], "2")]),
                    ("if same branch", {"a": 1, "b": 1, "x": "1"}, [(["x"], "2")])]:
    consistency(lbl, g2, "a", d0, ch)
r = render(g2, "a", [{"create": {"a": 0, "b": 0, "x": "q"}}], flatten=False)
t = r["snapshots"][0]["tree"]
check("if: unflattened virtual node", t[0].get("virtual") == "wx:if" and texts(t) == ["C", "q", "tail"], t)
r = render(g2, "a", [{"create": {"a": 1, "x": "q"}}, {"update": {"a": 1, "x": "r"}, "U": {"x": True}}], ids=True)
s0, s1 = r["snapshots"]
check("if: same branch keeps nodes", s0["tree"][0]["n"] == s1["tree"][0]["n"] and texts(s1["tree"]) == ["Ar", "tail"], s1)

# ---------------------------------------------------------------------------------------------- 3 for
FOR = ("<block wx:for='{{l}}' wx:key='k'>[{{index}}:{{item.k}}]</block>|"
       "<view wx:for='{{l2}}' wx:for-item='it' wx:for-index='ix'>{{ix}}={{it}}</view>|"
       "<block wx:for='{{rows}}' wx:key='*this'><block wx:for='{{cols}}' wx:for-item='c'>{{item}}{{c}}</block></block>")
g3 = compile_group([("a", FOR)])
L0 = {"l": [{"k": "a"}, {"k": "b"}, {"k": "c"}], "l2": ["x", "y"], "rows": [1, 2], "cols": ["p", "q"]}
r = render(g3, "a", [{"create": L0}])
check("for: create", texts(r["snapshots"][0]["tree"]) ==
      ["[0:a]", "[1:b]", "[2:c]", "|", "0=x", "1=y", "|", "1p", "1q", "2p", "2q"], texts(r["snapshots"][0]["tree"]))
consistency("for keyed reorder", g3, "a", L0, [(["l"], [{"k": "c"}, {"k": "a"}, {"k": "z"}, {"k": "b"}])])
consistency("for keyed shrink", g3, "a", L0, [(["l"], [{"k": "b"}])])
consistency("for unkeyed grow", g3, "a", L0, [(["l2"], ["x", "w", "y", "v"])])
consistency("for nested", g3, "a", L0, [(["rows"], [2, 3, 1]), (["cols"], ["q"])])
consistency("for item field", g3, "a", L0, [(["l", 1, "k"], "B")])
for lbl, val, want in [("object", {"p": "1", "q": "2"}, ["p=1", "q=2"]), ("string", "ab", ["0=a", "1=b"]),
                       ("number", 3, ["0=0", "1=1", "2=2"]), ("null", None, []), ("undefined", UNDEF, [])]:
    rr = render(g3, "a", [{"create": set_path(L0, ["l2"], val)}])
    tt = texts(rr["snapshots"][0]["tree"]) if rr.get("snapshots") else None
    check("for over %s" % lbl, tt is not None and tt[4:-5] == want, [rr.get("error"), tt])
    consistency("for array -> %s" % lbl, g3, "a", L0, [(["l2"], val)])
rr = render(g3, "a", [{"create": set_path(L0, ["l2"], "ab")}])
check("for over string warns", any(d[0] == "warning" for d in rr["snapshots"][0].get("diag", [])), rr["snapshots"][0].get("diag"))
# keyed reorder reuses the nodes (identity through "ids")
r = render(g3, "a", [{"create": L0}, {"update": set_path(L0, ["l"], [{"k": "c"}, {"k": "a"}, {"k": "b"}]), "U": {"l": True}}],
           ids=True, flatten=False)
f0 = r["snapshots"][0]["tree"][0]
f1 = r["snapshots"][1]["tree"][0]
ids0 = [c["n"] for c in f0["children"]]
ids1 = [c["n"] for c in f1["children"]]
check("for: keyed move keeps node identity", f0.get("virtual") == "wx:for" and ids1 == [ids0[2], ids0[0], ids0[1]] and
      f1.get("keys") == ["c", "a", "b"], [ids0, ids1, f1.get("keys")])
# splice change through the real path-tree builder
L1 = set_path(L0, ["l"], [{"k": "a"}, {"k": "n1"}, {"k": "n2"}, {"k": "c"}])
r = render(g3, "a", [{"create": L0}, {"changes": [[["l"], [{"k": "n1"}, {"k": "n2"}], 1, 1]], "D": L1}])
check("for: splice update", "error" not in r and texts(r["snapshots"][1]["tree"])[:4] == ["[0:a]", "[1:n1]", "[2:n2]", "[3:c]"] and
      r["snapshots"][1]["ret"]["U"]["l"].get("$") == "splice", r.get("error") or r["snapshots"][1]["ret"])
# duplicate keys
r = render(g3, "a", [{"create": set_path(L0, ["l"], [{"k": "a"}, {"k": "a"}])}])
check("for: duplicate keys warn", any("not unique" in d[1] for d in r["snapshots"][0].get("diag", [])), r["snapshots"][0].get("diag"))

# ---------------------------------------------------------------------------------------------- 4 template / block
TPL = ("<template name='one'><b>{{v}}-{{w}}</b></template><template name='two'><i>{{v}}</i><slot/></template>"
       "<block><template is='{{which}}' data='{{ v: val, w: 2 }}'/></block><template is='one' data='{{ ...o }}'/>")
g4 = compile_group([("a", TPL)])
T0_ = {"which": "one", "val": "V", "o": {"v": "ov", "w": "ow"}}
r = render(g4, "a", [{"create": T0_}])
check("template is/data", texts(r["snapshots"][0]["tree"]) == ["V-2", "ov-ow"], r)
consistency("template switch", g4, "a", T0_, [(["which"], "two"), (["val"], "W")])
consistency("template missing", g4, "a", T0_, [(["which"], "none")])
consistency("template data spread", g4, "a", T0_, [(["o"], {"v": 1})])
r = render(g4, "a", [{"create": {"v": "direct", "w": 0}}], name="one")
check("named template rendered directly", texts(r["snapshots"][0]["tree"]) == ["direct-0"], r)

# ---------------------------------------------------------------------------------------------- 5 slot
SLOT = "<view><slot/></view><slot name='{{sn}}' val='{{sv}}' other='1'/><view slot='named'>c</view>"
g5 = compile_group([("a", SLOT)])
r = render(g5, "a", [{"create": {"sn": "n1", "sv": 5}}, {"changes": [[["sv"], 6], [["sn"], "n2"]], "D": {"sn": "n2", "sv": 6}}],
           dynamicSlots=True)
s0, s1 = (r["snapshots"] + [None, None])[:2]
check("slot: names and values (dynamicSlots)", s0 is not None and s0["tree"][0]["children"][0] == {"slot": "", "values": {}, "log": [["=slotName", ""]]} and
      s0["tree"][1]["slot"] == "n1" and s0["tree"][1]["values"] == {"val": 5, "other": "1"} and
      s0["tree"][2].get("slotAttr") == "named", r)
check("slot: update", s1 is not None and s1["tree"][1]["slot"] == "n2" and s1["tree"][1]["values"] == {"val": 6, "other": "1"} and
      s1["tree"][1].get("applied") == 1, s1)
r = render(g5, "a", [{"create": {"sn": "n1", "sv": 5}}])
check("slot: values are warnings without dynamic slots", r["snapshots"][0]["tree"][1]["values"] == {} and
      len(r["snapshots"][0].get("diag", [])) == 2, r["snapshots"][0])
consistency("slot", g5, "a", {"sn": "n1", "sv": 5}, [(["sn"], None), (["sv"], [1])], dynamicSlots=True)

# ---------------------------------------------------------------------------------------------- 6 include / import
MAIN = "<import src='./lib/b'/><include src='/lib/b'/><template is='bt' data='{{ v: z }}'/><view>{{z}}</view>"
LIB = "<template name='bt'><b>{{v}}</b></template><i>inc {{z}}</i>"
g6 = compile_group([("main", MAIN), ("lib/b", LIB)])
r = render(g6, "main", [{"create": {"z": 1}}])
check("include+import", texts(r["snapshots"][0]["tree"]) == ["inc 1", "1", "1"] and
      [n["tag"] for n in r["snapshots"][0]["tree"]] == ["i", "b", "view"], r)
consistency("include+import", g6, "main", {"z": 1}, [(["z"], 2)])
r = render(g6, "lib/b", [{"create": {"z": 9}}])
check("other file of the group", texts(r["snapshots"][0]["tree"]) == ["inc 9"], r)

# ---------------------------------------------------------------------------------------------- 7 wxs
WXS = ("<wxs module='mm'>var n=0;exports.f=function(a){return a+1};exports.up=function(s){return String(s).toUpperCase()}</wxs>"
       "<wxs module='ext' src='./util.wxs'/><div data-u='{{mm.up(s)}}' bind:tap='{{mm.f}}'>{{mm.f(z)}} {{ext.twice(z)}}</div>")
g7 = compile_group([("a", WXS)], [("util", "module.exports={twice:function(a){return a*2}}")])
r = render(g7, "a", [{"create": {"z": 10, "s": "ab"}}])
d = r["snapshots"][0]["tree"][0] if r.get("snapshots") else {}
check("wxs inline + file module", texts([d]) == ["11 20"] and d.get("dataset") == {"u": "AB"} and
      d.get("events") and d["events"][0][1] == {"$": "fn", "name": "?"}, r)
consistency("wxs", g7, "a", {"z": 10, "s": "ab"}, [(["z"], 1), (["s"], "q")])

# ---------------------------------------------------------------------------------------------- 8 binding map
BM = "<div>{{a}} and {{b}}</div><view hidden='{{b}}' class='{{a}}'/><view wx:if='{{c}}'>{{c}}</view>"
g8 = compile_group([("a", BM)])
B0 = {"a": 1, "b": 2, "c": 3}
r = render(g8, "a", [{"create": B0}, {"bindmap": "a", "D": set_path(B0, ["a"], 5)}, {"bindmap": "c", "D": B0},
                     {"bindmap": "zz", "D": B0}])
s = r.get("snapshots", [])
check("bindmap: advertised fields", len(s) == 4 and s[0]["B"] == ["a", "b"], r.get("error") or [x["B"] for x in s])
ref = render(g8, "a", [{"create": set_path(B0, ["a"], 5)}])["snapshots"][0]["tree"]
check("bindmap: update equals create", len(s) == 4 and s[1]["ret"] is True and strip(s[1]["tree"]) == strip(ref), s[1:2])
check("bindmap: unadvertised field refused", len(s) == 4 and s[2]["ret"] is False and s[3]["ret"] is False and
      strip(s[3]["tree"]) == strip(s[1]["tree"]), s[2:])
r = render(g8, "a", [{"create": B0}, {"changes": [[["a"], 5]], "D": set_path(B0, ["a"], 5)},
                     {"changes": [[["c"], 4]], "D": {"a": 5, "b": 2, "c": 4}},
                     {"changes": [[["a"], 6], [["b"], 7]], "D": {"a": 6, "b": 7, "c": 4}}], updateMode="")
s = r.get("snapshots", [])
check("updateMode '': the real updateValues picks binding map or tree", len(s) == 4 and s[1]["ret"] == {"via": "bindingMap"} and
      s[2]["ret"] == {"via": "tree", "U": {"c": True}} and s[3]["ret"]["via"] == "tree" and
      texts(s[3]["tree"]) == ["6 and 7", "4"], r.get("error") or [x["ret"] for x in s])

# ---------------------------------------------------------------------------------------------- 9 evalgen, errors
ev = R({"op": "evalgen", "runtime": g1["runtime"], "stmts": "var $A=D.w", "expr": "[Y(X(D.a).b), $A, Z(U,'q'), Z(K,'q'), P(1)()]",
        "data": {"a": None, "w": {"$": "-0"}}, "scopes": {"U": {"q": {"r": True}}, "K": True}})
check("evalgen with runtime helpers", ev == {"value": ["", {"$": "-0"}, {"r": True}, True, UNDEF]}, ev)
ev = R({"op": "evalgen", "runtime": g7["runtime"], "expr": "typeof D", "data": 5})
check("evalgen: data D shadows the runtime's wxs loader D", ev == {"value": "number"}, ev)
r = render({"gen_groups": "({a:()=>(R,C,D,U)=>{for(;;){}}})"}, "a", [{"create": {}}], timeout=100)
check("render: infinite loop bounded", "timed out" in r.get("error", "") and r.get("snapshots") == [], r)
r = render({"gen_groups": "({a:()=>(R,C,D,U)=>({C:(C,T,E)=>{E('x',{},(N)=>{N.fooBar()},()=>{})}})})"}, "a", [{"create": {}}])
check("render: unknown backend call names the missing stub member", "fooBar" in r.get("error", ""), r)
r = render(g2, "a", [{"create": {"a": 1, "x": 1}}, {"update": {"a": 1}, "U": 5}, {"oops": 1}])
check("render: error keeps earlier snapshots", "error" in r and len(r["snapshots"]) == 2, r)
r = render(g2, "a", [{"update": {}, "U": True}])
check("render: create must be first", "error" in r and r["snapshots"] == [], r)
r = render(g2, "nope", [{"create": {}}])
check("render: unknown path", "error" in r, r)
check("runner still alive", R({"op": "ping"}).get("ok") is True)

# ---------------------------------------------------------------------------------------------- 10 throughput
N = 300
reqs = [json.dumps({"op": "render", "gen_groups": g2["gen_groups"], "path": "a",
                    "steps": [{"create": {"a": i % 2, "b": 1, "x": i}}, {"update": {"a": 1, "b": 0, "x": i}, "U": True}]})
        for i in range(N)]
best, good = 0.0, True
for _round in range(3):  # best of 3: the machine may be busy with other checks
    t = time.time()
    R.p.stdin.write(("\n".join(reqs) + "\n").encode())
    R.p.stdin.flush()
    answers = [R.p.stdout.readline() for _ in range(N)]
    best = max(best, N / (time.time() - t))
    good = good and all(b'"snapshots"' in a and b'"error"' not in a for a in answers)
    if best >= 300:
        break
check("throughput >= 300 render requests/s (%.0f/s)" % best, best >= 300 and good)
check("runner exits cleanly", R.close() == 0)

print("%d checks, %d failed, %.1fs" % (COUNT[0], len(FAILS), time.time() - T0))
sys.exit(1 if FAILS else 0)
