import GE.Model.Css
/-! Reading the harness's token-tree dumps and printing the model's outputs in the same format. -/
namespace GE.Css
open GE.Codec

def parsePos (s : String) : Option Pos :=
  if s.startsWith "@" then
    match (s.drop 1).toString.splitOn ":" with
    | [l, c] => do some ⟨← l.toNat?, ← c.toNat?⟩
    | _ => none
  else none

def parseNum : List SExp → Option Num
  | [.atom sign, .str text, .atom bits, .atom int] =>
    do some ⟨sign, text, ← bits.toNat?, if int = "none" then none else int.toInt?⟩
  | _ => none

mutual
partial def tokOfSExp : SExp → Option Tok
  | .list (.atom kind :: rest) =>
    match rest.getLast? with
    | some (.atom p) =>
      match parsePos p with
      | none => none
      | some pos =>
        let args := rest.dropLast
        match kind, args with
        | "ident", [.str s] => some (.leaf (.ident s) pos)
        | "at", [.str s] => some (.leaf (.at s) pos)
        | "hash", [.str s] => some (.leaf (.hash s) pos)
        | "idhash", [.str s] => some (.leaf (.idhash s) pos)
        | "str", [.str s] => some (.leaf (.str s) pos)
        | "url", [.str s] => some (.leaf (.url s) pos)
        | "delim", [.str s] => some (.leaf (.delim s) pos)
        | "num", a => (parseNum a).map fun n => .leaf (.num n) pos
        | "pct", a => (parseNum a).map fun n => .leaf (.pct n) pos
        | "dim", [a, b, c, d, .str u] => (parseNum [a, b, c, d]).map fun n => .leaf (.dim n u) pos
        | "ws", _ => some (.leaf .ws pos)
        | "comment", [.str s] => some (.leaf (.comment s) pos)
        | "colon", [] => some (.leaf .colon pos)
        | "semi", [] => some (.leaf .semi pos)
        | "comma", [] => some (.leaf .comma pos)
        | "incl", [] => some (.leaf .incl pos)
        | "dash", [] => some (.leaf .dash pos)
        | "prefix", [] => some (.leaf .prefix pos)
        | "suffix", [] => some (.leaf .suffix pos)
        | "substr", [] => some (.leaf .substr pos)
        | "cdo", [] => some (.leaf .cdo pos)
        | "cdc", [] => some (.leaf .cdc pos)
        | "badurl", [.str s] => some (.leaf (.badurl s) pos)
        | "badstr", [.str s] => some (.leaf (.badstr s) pos)
        | "closeparen", [] => some (.leaf .closeparen pos)
        | "closesquare", [] => some (.leaf .closesquare pos)
        | "closecurly", [] => some (.leaf .closecurly pos)
        | "fn", .str name :: body => (toksOfSExps body).map fun b => .block .fn name b pos
        | "paren", body => (toksOfSExps body).map fun b => .block .paren "" b pos
        | "square", body => (toksOfSExps body).map fun b => .block .square "" b pos
        | "curly", body => (toksOfSExps body).map fun b => .block .curly "" b pos
        | _, _ => none
    | _ => none
  | _ => none
partial def toksOfSExps : List SExp → Option (List Tok)
  | [] => some []
  | x :: r => do
    let t ← tokOfSExp x
    let ts ← toksOfSExps r
    some (t :: ts)
end

/-- cssparser never hands comments to the transformer -/
partial def stripComments : List Tok → List Tok
  | [] => []
  | .leaf (.comment _) _ :: r => stripComments r
  | .block k n b p :: r => .block k n (stripComments b) p :: stripComments r
  | t :: r => t :: stripComments r

def parseTree (s : String) : Option (List Tok) :=
  match parseSExp s with
  | some (.list xs) => (toksOfSExps xs).map stripComments
  | _ => none

def q (s : String) : String :=
  "\"" ++ String.ofList (s.toList.flatMap fun c => if c = '"' then ['\\', '"'] else escChars [c]) ++ "\""

def numStr (n : Num) : String :=
  s!"{n.sign} {q n.text} {n.bits} " ++ (match n.int with | some i => toString i | none => "none")

def leafStr : Leaf → String
  | .ident s => s!"(ident {q s})" | .at s => s!"(at {q s})" | .hash s => s!"(hash {q s})"
  | .idhash s => s!"(idhash {q s})" | .str s => s!"(str {q s})" | .url s => s!"(url {q s})"
  | .delim c => s!"(delim {q c})" | .num n => s!"(num {numStr n})" | .pct n => s!"(pct {numStr n})"
  | .dim n u => s!"(dim {numStr n} {q u})" | .ws => "(ws \" \")" | .colon => "(colon)" | .semi => "(semi)"
  | .comma => "(comma)" | .incl => "(incl)" | .dash => "(dash)" | .prefix => "(prefix)" | .suffix => "(suffix)"
  | .substr => "(substr)" | .cdo => "(cdo)" | .cdc => "(cdc)" | .badurl s => s!"(badurl {q s})"
  | .badstr s => s!"(badstr {q s})" | .closeparen => "(closeparen)" | .closesquare => "(closesquare)"
  | .closecurly => "(closecurly)" | .comment s => s!"(comment {q s})"

/-- the output items as a flat S-expression stream: blocks are written with explicit `(open …)` `(close …)` -/
def outStr (o : Out) : String :=
  match o.k with
  | .leaf k => leafStr k
  | .open .fn name => s!"(open fn {q name})"
  | .open .paren _ => "(open paren)"
  | .open .square _ => "(open square)"
  | .open .curly _ => "(open curly)"
  | .close .fn | .close .paren => "(close paren)"
  | .close .square => "(close square)"
  | .close .curly => "(close curly)"
  | .sep => "(ws \" \")"

def sinkStr (s : Sink) : String := "(" ++ String.intercalate " " (s.items.map outStr) ++ ")"

def warnStr (w : WarnK × Pos) : String :=
  (match w.1 with
   | .illegalImportPosition => "IllegalImportPosition"
   | .unexpectedCharacter => "UnexpectedCharacter"
   | .hostSelectorCombination => "HostSelectorCombination") ++ s!"@{w.2.line}:{w.2.col}"

/-- source-map entries in order: item index among mapped items, source position, name -/
def mapStr (s : Sink) : String :=
  String.intercalate " " (s.items.filterMap fun o =>
    o.src.map fun p => s!"{p.line}:{p.col}" ++ (match o.name with | some n => "=" ++ q n | none => ""))

end GE.Css
