//! `css` op: run the real stylesheet compiler in-process and dump everything an oracle needs:
//! both outputs, warnings, raw source-map tokens (plus whether they survive a JSON round trip),
//! and the cssparser token TREE of the input and of both outputs (same cssparser version).
//!
//! Token-tree format (one list per token, whole stream wrapped in one outer list):
//!   (ident "a" @L:C) (at "media" @..) (hash "x" @..) (idhash "x" @..) (str "s" @..) (url "u" @..)
//!   (delim "." @..) (num SIGN "TEXT" BITS INT @..) (pct SIGN "TEXT" BITS INT @..)
//!   (dim SIGN "TEXT" BITS INT "unit" @..) (ws "raw" @..) (comment "text" @..)
//!   (colon @..) (semi @..) (comma @..) (incl @..) (dash @..) (prefix @..) (suffix @..) (substr @..)
//!   (cdo @..) (cdc @..) (fn "name" CHILDREN.. @..) (paren CHILDREN.. @..) (square ..) (curly ..)
//!   (badurl "x" @..) (badstr "x" @..) (closeparen @..) (closesquare @..) (closecurly @..)
//!   SIGN = + | - | n (no explicit sign); "TEXT" = `{}` of the f32 (pct: of unit_value);
//!   BITS = f32::to_bits in decimal; INT = int_value | none
//! Extra keys (not part of the S-expressions): `source` echoes the input; `closers_in`,
//! `closers_normal`, `closers_low` list `[openLine, openCol, closeLine, closeCol, closed]` for every
//! block (position of the closing bracket; closed = 0 if the block runs to the end of the text).
//! `@L:C` = 0-based line and 0-based UTF-16 column of the token start as reported by
//! `current_source_location()` immediately before the token (column = loc.column - 1).

use crate::codec::qstr;
use cssparser::{Parser, ParserInput, Token};
use glass_easel_stylesheet_compiler as sc;
use serde_json::{json, Value};
use sourcemap::SourceMap;

fn num_fields(has_sign: bool, value: f32, int_value: Option<i32>) -> String {
    let sign = if !has_sign {
        "n"
    } else if value.is_sign_negative() {
        "-"
    } else {
        "+"
    };
    let int = match int_value {
        Some(i) => i.to_string(),
        None => "none".to_string(),
    };
    format!("{} {} {} {}", sign, qstr(&format!("{}", value)), value.to_bits(), int)
}

/// `closers` collects `[openLine, openCol, closeLine, closeCol, closed]` for every block in the
/// order the blocks end; `closed` is 0 when the block is ended by the end of the input (then the
/// "close" position is the end of the input).
fn dump_into(p: &mut Parser, out: &mut String, closers: &mut Vec<[u32; 5]>, src_len: usize) {
    loop {
        let loc = p.current_source_location();
        let tok = match p.next_including_whitespace_and_comments() {
            Ok(t) => t.clone(),
            Err(_) => break,
        };
        let pos = format!("@{}:{}", loc.line, loc.column.saturating_sub(1));
        if out.len() > 1 {
            out.push(' ');
        }
        let simple = |name: &str, out: &mut String| {
            out.push_str(&format!("({} {})", name, pos));
        };
        let with_str = |name: &str, s: &str, out: &mut String| {
            out.push_str(&format!("({} {} {})", name, qstr(s), pos));
        };
        match &tok {
            Token::Ident(s) => with_str("ident", s, out),
            Token::AtKeyword(s) => with_str("at", s, out),
            Token::Hash(s) => with_str("hash", s, out),
            Token::IDHash(s) => with_str("idhash", s, out),
            Token::QuotedString(s) => with_str("str", s, out),
            Token::UnquotedUrl(s) => with_str("url", s, out),
            Token::Delim(c) => with_str("delim", &c.to_string(), out),
            Token::Number {
                has_sign,
                value,
                int_value,
            } => out.push_str(&format!(
                "(num {} {})",
                num_fields(*has_sign, *value, *int_value),
                pos
            )),
            Token::Percentage {
                has_sign,
                unit_value,
                int_value,
            } => out.push_str(&format!(
                "(pct {} {})",
                num_fields(*has_sign, *unit_value, *int_value),
                pos
            )),
            Token::Dimension {
                has_sign,
                value,
                int_value,
                unit,
            } => out.push_str(&format!(
                "(dim {} {} {})",
                num_fields(*has_sign, *value, *int_value),
                qstr(unit),
                pos
            )),
            Token::WhiteSpace(s) => with_str("ws", s, out),
            Token::Comment(s) => with_str("comment", s, out),
            Token::Colon => simple("colon", out),
            Token::Semicolon => simple("semi", out),
            Token::Comma => simple("comma", out),
            Token::IncludeMatch => simple("incl", out),
            Token::DashMatch => simple("dash", out),
            Token::PrefixMatch => simple("prefix", out),
            Token::SuffixMatch => simple("suffix", out),
            Token::SubstringMatch => simple("substr", out),
            Token::CDO => simple("cdo", out),
            Token::CDC => simple("cdc", out),
            Token::BadUrl(s) => with_str("badurl", s, out),
            Token::BadString(s) => with_str("badstr", s, out),
            Token::CloseParenthesis => simple("closeparen", out),
            Token::CloseSquareBracket => simple("closesquare", out),
            Token::CloseCurlyBracket => simple("closecurly", out),
            Token::Function(_)
            | Token::ParenthesisBlock
            | Token::SquareBracketBlock
            | Token::CurlyBracketBlock => {
                match &tok {
                    Token::Function(name) => {
                        out.push_str("(fn ");
                        out.push_str(&qstr(name));
                    }
                    Token::ParenthesisBlock => out.push_str("(paren"),
                    Token::SquareBracketBlock => out.push_str("(square"),
                    _ => out.push_str("(curly"),
                }
                let _ = p.parse_nested_block::<_, (), ()>(|p| {
                    dump_into(p, out, closers, src_len);
                    let end = p.current_source_location();
                    let closed = p.position().byte_index() < src_len;
                    closers.push([
                        loc.line,
                        loc.column.saturating_sub(1),
                        end.line,
                        end.column.saturating_sub(1),
                        closed as u32,
                    ]);
                    Ok(())
                });
                out.push(' ');
                out.push_str(&pos);
                out.push(')');
            }
        }
    }
}

/// The token tree of `src` as an S-expression string, plus the positions of the closing brackets.
pub fn token_tree_and_closers(src: &str) -> (String, Vec<[u32; 5]>) {
    let mut pi = ParserInput::new(src);
    let mut p = Parser::new(&mut pi);
    let mut out = String::from("(");
    let mut closers = vec![];
    dump_into(&mut p, &mut out, &mut closers, src.len());
    out.push(')');
    (out, closers)
}

/// The token tree of `src` as an S-expression string.
pub fn token_tree(src: &str) -> String {
    token_tree_and_closers(src).0
}

fn opt_str(v: &Value, key: &str) -> Option<String> {
    v.get(key).and_then(|x| x.as_str()).map(|s| s.to_string())
}

pub fn parse_options(options_json: &str) -> sc::StyleSheetOptions {
    let v: Value = serde_json::from_str(options_json).unwrap_or(Value::Null);
    let d = sc::StyleSheetOptions::default();
    sc::StyleSheetOptions {
        class_prefix: opt_str(&v, "class_prefix"),
        class_prefix_sign: opt_str(&v, "class_prefix_sign"),
        rpx_ratio: v
            .get("rpx_ratio")
            .and_then(|x| x.as_f64())
            .map(|x| x as f32)
            .unwrap_or(d.rpx_ratio),
        import_sign: opt_str(&v, "import_sign"),
        convert_host: v
            .get("convert_host")
            .and_then(|x| x.as_bool())
            .unwrap_or(d.convert_host),
        host_is: opt_str(&v, "host_is"),
    }
}

type MapTok = (u32, u32, u32, u32, Option<String>);

fn map_tokens(sm: &SourceMap) -> Vec<MapTok> {
    sm.tokens()
        .map(|t| {
            (
                t.get_dst_line(),
                t.get_dst_col(),
                t.get_src_line(),
                t.get_src_col(),
                t.get_name().map(|s| s.to_string()),
            )
        })
        .collect()
}

fn map_json(toks: &[MapTok]) -> Value {
    Value::Array(
        toks.iter()
            .map(|t| json!([t.0, t.1, t.2, t.3, t.4]))
            .collect(),
    )
}

fn map_roundtrip_equal(sm: &SourceMap, toks: &[MapTok]) -> bool {
    let mut buf = Vec::new();
    if sm.to_writer(&mut buf).is_err() {
        return false;
    }
    match SourceMap::from_reader(&buf[..]) {
        Ok(sm2) => map_tokens(&sm2) == toks,
        Err(_) => false,
    }
}

fn panic_message(e: Box<dyn std::any::Any + Send>) -> String {
    if let Some(s) = e.downcast_ref::<&str>() {
        s.to_string()
    } else if let Some(s) = e.downcast_ref::<String>() {
        s.clone()
    } else {
        "?".to_string()
    }
}

struct Transformed {
    normal: String,
    low: String,
    warnings: Vec<Value>,
    map_normal: Vec<MapTok>,
    map_low: Vec<MapTok>,
    rt_normal: bool,
    rt_low: bool,
}

fn transform(options: sc::StyleSheetOptions, source: &str) -> Transformed {
    let trans = sc::StyleSheetTransformer::from_css("a.wxss", source, options);
    let warnings = trans
        .warnings()
        .map(|w| {
            json!([
                w.kind.to_string(),
                w.location.start.line,
                w.location.start.utf16_col,
                w.location.end.line,
                w.location.end.utf16_col
            ])
        })
        .collect();
    let (n, l) = trans.output_and_low_priority_output();
    let mut nb = Vec::new();
    n.write(&mut nb).unwrap();
    let mut lb = Vec::new();
    l.write(&mut lb).unwrap();
    let smn = n.extract_source_map();
    let sml = l.extract_source_map();
    let map_normal = map_tokens(&smn);
    let map_low = map_tokens(&sml);
    let rt_normal = map_roundtrip_equal(&smn, &map_normal);
    let rt_low = map_roundtrip_equal(&sml, &map_low);
    Transformed {
        normal: String::from_utf8(nb).unwrap(),
        low: String::from_utf8(lb).unwrap(),
        warnings,
        map_normal,
        map_low,
        rt_normal,
        rt_low,
    }
}

/// `css` op. `options_json`: {"class_prefix":str|null,"class_prefix_sign":str|null,
/// "rpx_ratio":number,"import_sign":str|null,"convert_host":bool,"host_is":str|null}.
/// Answers one line of JSON (see module doc); `{"panic": msg}` if the transformer unwinds.
pub fn css(options_json: &str, source: &str) -> String {
    let options = parse_options(options_json);
    let src = source.to_string();
    let r = std::panic::catch_unwind(move || transform(options, &src));
    let t = match r {
        Ok(t) => t,
        Err(e) => {
            return json!({ "panic": panic_message(e), "tokens_in": token_tree(source) })
                .to_string()
        }
    };
    let (ti, ci) = token_tree_and_closers(source);
    let (tn, cn) = token_tree_and_closers(&t.normal);
    let (tl, cl) = token_tree_and_closers(&t.low);
    json!({
        "source": source,
        "closers_in": ci,
        "closers_normal": cn,
        "closers_low": cl,
        "normal": t.normal,
        "low": t.low,
        "warnings": t.warnings,
        "map_normal": map_json(&t.map_normal),
        "map_low": map_json(&t.map_low),
        "map_normal_json_roundtrip_equal": t.rt_normal,
        "map_low_json_roundtrip_equal": t.rt_low,
        "tokens_in": ti,
        "tokens_normal": tn,
        "tokens_low": tl,
    })
    .to_string()
}

/// `needs_separator_when_before` as a table over all serialization types (obtained by calling cssparser).
pub fn septable() -> String {
    use cssparser::TokenSerializationType as T;
    let types: Vec<(&str, T)> = vec![
        ("Nothing", T::Nothing), ("WhiteSpace", T::WhiteSpace), ("AtKeywordOrHash", T::AtKeywordOrHash), ("Number", T::Number),
        ("Dimension", T::Dimension), ("Percentage", T::Percentage), ("UrlOrBadUrl", T::UrlOrBadUrl), ("Function", T::Function),
        ("Ident", T::Ident), ("CDC", T::CDC), ("DashMatch", T::DashMatch), ("SubstringMatch", T::SubstringMatch),
        ("OpenParen", T::OpenParen), ("DelimHash", T::DelimHash), ("DelimAt", T::DelimAt), ("DelimDotOrPlus", T::DelimDotOrPlus),
        ("DelimMinus", T::DelimMinus), ("DelimQuestion", T::DelimQuestion), ("DelimAssorted", T::DelimAssorted),
        ("DelimEquals", T::DelimEquals), ("DelimBar", T::DelimBar), ("DelimSlash", T::DelimSlash), ("DelimAsterisk", T::DelimAsterisk),
        ("DelimPercent", T::DelimPercent), ("Other", T::Other),
    ];
    let mut rows = vec![];
    for (an, a) in types.iter() {
        let yes: Vec<&str> = types.iter().filter(|(_, b)| a.needs_separator_when_before(*b)).map(|(bn, _)| *bn).collect();
        rows.push(format!("{}:{}", an, yes.join(",")));
    }
    rows.join(";")
}
