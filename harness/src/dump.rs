//! S-expression dumps of the template compiler's AST (shared format with lean/GE/Model/ExprSexp.lean).
use crate::codec::*;
use glass_easel_template_compiler::parse::expr::{ArrayFieldKind, Expression, ObjectFieldKind};
use glass_easel_template_compiler::parse::Position;
use std::ops::Range;

pub fn loc(l: &Range<Position>) -> String {
    format!(
        "({} {} {} {})",
        l.start.line, l.start.utf16_col, l.end.line, l.end.utf16_col
    )
}

/// Rust `Display` of an f64, as `write!(value, "{}", x)` prints it.
pub fn float_text(x: f64) -> String {
    format!("{}", x)
}

pub fn expr(e: &Expression, with_loc: bool) -> String {
    let l = |r: &Range<Position>| if with_loc { format!(" {}", loc(r)) } else { String::new() };
    let l2 = |r: &(Range<Position>, Range<Position>)| {
        if with_loc {
            format!(" {} {}", loc(&r.0), loc(&r.1))
        } else {
            String::new()
        }
    };
    let un = |name: &str, v: &Expression, r: &Range<Position>| {
        format!("(un {} {}{})", name, expr(v, with_loc), l(r))
    };
    let bin = |name: &str, a: &Expression, b: &Expression, r: &Range<Position>| {
        format!("(bin {} {} {}{})", name, expr(a, with_loc), expr(b, with_loc), l(r))
    };
    match e {
        Expression::ScopeRef { location, index } => format!("(scope {}{})", index, l(location)),
        Expression::DataField { name, location } => format!("(data {}{})", qstr(name), l(location)),
        Expression::ToStringWithoutUndefined { value, location } => {
            format!("(tostr {}{})", expr(value, with_loc), l(location))
        }
        Expression::LitUndefined { location } => format!("(undef{})", l(location)),
        Expression::LitNull { location } => format!("(null{})", l(location)),
        Expression::LitStr { value, location } => format!("(str {}{})", qstr(value), l(location)),
        Expression::LitInt { value, location } => format!("(int {}{})", value, l(location)),
        Expression::LitFloat { value, location } => {
            format!("(float {}{})", qstr(&float_text(*value)), l(location))
        }
        Expression::LitBool { value, location } => format!("(bool {}{})", value, l(location)),
        Expression::LitObj { fields, brace_location } => {
            let mut s = String::from("(obj");
            for f in fields {
                match f {
                    ObjectFieldKind::Named { name, location, colon_location, value } => {
                        s.push_str(&format!(
                            " (named {} {} {}{})",
                            qstr(name),
                            if colon_location.is_some() { "colon" } else { "short" },
                            expr(value, with_loc),
                            l(location)
                        ));
                    }
                    ObjectFieldKind::Spread { location, value } => {
                        s.push_str(&format!(" (spread {}{})", expr(value, with_loc), l(location)));
                    }
                }
            }
            s.push_str(&l2(brace_location));
            s.push(')');
            s
        }
        Expression::LitArr { fields, bracket_location } => {
            let mut s = String::from("(arr");
            for f in fields {
                match f {
                    ArrayFieldKind::Normal { value } => {
                        s.push_str(&format!(" (item {})", expr(value, with_loc)));
                    }
                    ArrayFieldKind::Spread { location, value } => {
                        s.push_str(&format!(" (spread {}{})", expr(value, with_loc), l(location)));
                    }
                    ArrayFieldKind::EmptySlot => s.push_str(" (hole)"),
                }
            }
            s.push_str(&l2(bracket_location));
            s.push(')');
            s
        }
        Expression::StaticMember { obj, field_name, dot_location, field_location } => format!(
            "(smember {} {}{}{})",
            expr(obj, with_loc),
            qstr(field_name),
            l(dot_location),
            l(field_location)
        ),
        Expression::DynamicMember { obj, field_name, bracket_location } => format!(
            "(dmember {} {}{})",
            expr(obj, with_loc),
            expr(field_name, with_loc),
            l2(bracket_location)
        ),
        Expression::FuncCall { func, args, paren_location } => {
            let mut s = format!("(call {}", expr(func, with_loc));
            for a in args {
                s.push(' ');
                s.push_str(&expr(a, with_loc));
            }
            s.push_str(&l2(paren_location));
            s.push(')');
            s
        }
        Expression::Reverse { value, location } => un("Reverse", value, location),
        Expression::BitReverse { value, location } => un("BitReverse", value, location),
        Expression::Positive { value, location } => un("Positive", value, location),
        Expression::Negative { value, location } => un("Negative", value, location),
        Expression::TypeOf { value, location } => un("TypeOf", value, location),
        Expression::Void { value, location } => un("Void", value, location),
        Expression::Multiply { left, right, location } => bin("Multiply", left, right, location),
        Expression::Divide { left, right, location } => bin("Divide", left, right, location),
        Expression::Remainer { left, right, location } => bin("Remainer", left, right, location),
        Expression::Plus { left, right, location } => bin("Plus", left, right, location),
        Expression::Minus { left, right, location } => bin("Minus", left, right, location),
        Expression::LeftShift { left, right, location } => bin("LeftShift", left, right, location),
        Expression::RightShift { left, right, location } => bin("RightShift", left, right, location),
        Expression::UnsignedRightShift { left, right, location } => {
            bin("UnsignedRightShift", left, right, location)
        }
        Expression::Lt { left, right, location } => bin("Lt", left, right, location),
        Expression::Gt { left, right, location } => bin("Gt", left, right, location),
        Expression::Lte { left, right, location } => bin("Lte", left, right, location),
        Expression::Gte { left, right, location } => bin("Gte", left, right, location),
        Expression::InstanceOf { left, right, location } => bin("InstanceOf", left, right, location),
        Expression::Eq { left, right, location } => bin("Eq", left, right, location),
        Expression::Ne { left, right, location } => bin("Ne", left, right, location),
        Expression::EqFull { left, right, location } => bin("EqFull", left, right, location),
        Expression::NeFull { left, right, location } => bin("NeFull", left, right, location),
        Expression::BitAnd { left, right, location } => bin("BitAnd", left, right, location),
        Expression::BitXor { left, right, location } => bin("BitXor", left, right, location),
        Expression::BitOr { left, right, location } => bin("BitOr", left, right, location),
        Expression::LogicAnd { left, right, location } => bin("LogicAnd", left, right, location),
        Expression::LogicOr { left, right, location } => bin("LogicOr", left, right, location),
        Expression::NullishCoalescing { left, right, location } => {
            bin("NullishCoalescing", left, right, location)
        }
        Expression::Cond { cond, true_br, false_br, question_location, colon_location } => format!(
            "(cond {} {} {}{}{})",
            expr(cond, with_loc),
            expr(true_br, with_loc),
            expr(false_br, with_loc),
            l(question_location),
            l(colon_location)
        ),
        _ => "(unknown)".to_string(),
    }
}

/// Replace data fields named `s<i>` (i < n) by scope references, over ALL children (own walker).
pub fn convert_scopes(e: &mut Expression, n: usize) {
    if let Expression::DataField { name, location } = e {
        if let Some(rest) = name.strip_prefix('s') {
            if let Ok(i) = rest.parse::<usize>() {
                if i < n && rest == i.to_string() {
                    *e = Expression::ScopeRef { location: location.clone(), index: i };
                    return;
                }
            }
        }
    }
    match e {
        Expression::ToStringWithoutUndefined { value, .. }
        | Expression::Reverse { value, .. }
        | Expression::BitReverse { value, .. }
        | Expression::Positive { value, .. }
        | Expression::Negative { value, .. }
        | Expression::TypeOf { value, .. }
        | Expression::Void { value, .. } => convert_scopes(value, n),
        Expression::LitObj { fields, .. } => {
            for f in fields.iter_mut() {
                match f {
                    ObjectFieldKind::Named { value, .. } | ObjectFieldKind::Spread { value, .. } => {
                        convert_scopes(value, n)
                    }
                }
            }
        }
        Expression::LitArr { fields, .. } => {
            for f in fields.iter_mut() {
                match f {
                    ArrayFieldKind::Normal { value } | ArrayFieldKind::Spread { value, .. } => {
                        convert_scopes(value, n)
                    }
                    ArrayFieldKind::EmptySlot => {}
                }
            }
        }
        Expression::StaticMember { obj, .. } => convert_scopes(obj, n),
        Expression::DynamicMember { obj, field_name, .. } => {
            convert_scopes(obj, n);
            convert_scopes(field_name, n);
        }
        Expression::FuncCall { func, args, .. } => {
            convert_scopes(func, n);
            for a in args.iter_mut() {
                convert_scopes(a, n);
            }
        }
        Expression::Multiply { left, right, .. }
        | Expression::Divide { left, right, .. }
        | Expression::Remainer { left, right, .. }
        | Expression::Plus { left, right, .. }
        | Expression::Minus { left, right, .. }
        | Expression::LeftShift { left, right, .. }
        | Expression::RightShift { left, right, .. }
        | Expression::UnsignedRightShift { left, right, .. }
        | Expression::Lt { left, right, .. }
        | Expression::Gt { left, right, .. }
        | Expression::Lte { left, right, .. }
        | Expression::Gte { left, right, .. }
        | Expression::InstanceOf { left, right, .. }
        | Expression::Eq { left, right, .. }
        | Expression::Ne { left, right, .. }
        | Expression::EqFull { left, right, .. }
        | Expression::NeFull { left, right, .. }
        | Expression::BitAnd { left, right, .. }
        | Expression::BitXor { left, right, .. }
        | Expression::BitOr { left, right, .. }
        | Expression::LogicAnd { left, right, .. }
        | Expression::LogicOr { left, right, .. }
        | Expression::NullishCoalescing { left, right, .. } => {
            convert_scopes(left, n);
            convert_scopes(right, n);
        }
        Expression::Cond { cond, true_br, false_br, .. } => {
            convert_scopes(cond, n);
            convert_scopes(true_br, n);
            convert_scopes(false_br, n);
        }
        _ => {}
    }
}
