/-
C09 — class prefixing over the WHOLE stylesheet (companion of `GE/Thm/C17Sheet.lean`, which does the token kinds).

`GE/Thm/C09.lean` shows for ONE rule that the identifiers written are the input's, an identifier being
replaced by `<prefix>--<name>` iff it directly follows a `.` in selector context.  Here this is lifted to
`transform` (the model of `StyleSheetTransformer::from_css`): `goI` reads the token tree token by token
(structural recursion, no fuel) and says which identifiers belong in the normal and which in the low-priority
output —

  * a qualified rule: selector context up to its `{}` block (`ruleIdents`), the block a value context;
  * an at-rule: its keyword and the loose tokens of its prelude are never class positions; the
    parenthesised / bracketed / functional blocks of the prelude are selector context
    (`selectorIdents`: `.name` inside `@scope (.a)`, `@container f(.b)` … is prefixed);
    the `{}` block of a rule-bearing at-rule is a stylesheet again (so every rule nested inside any
    rule-bearing at-rule is treated like a top-level rule), any other `{}` block is a value context;
  * a `:host {}` rule: the identifiers of the replayed chain, `wx-host` (and `is`), and the block's own.

`sheet_idents`: the identifiers of both outputs of `transform` are exactly `goI` (no import sign).
-/
import GE.Thm.C17Sheet

namespace GE.Css
open GE.Extracted

inductive ModeI where
  | top
  | qual (ic : Bool)
  | host (legal : Bool)
  | atPre (cr : Bool) (acc : List String)

def addNI (n : List String) (p : List String × List String) : List String × List String := (n ++ p.1, p.2)
def addNLI (n l : List String) (p : List String × List String) : List String × List String := (n ++ p.1, l ++ p.2)

/-- identifiers of one token of a qualified rule's prelude, and whether the next token is in class position -/
def qualTokIdents (opts : Opts) (ic : Bool) : Tok → List String × Bool
  | .leaf .ws _ => ([], false)
  | .leaf (.delim c) _ => ([], c = ".")
  | .leaf (.ident s) _ => ([rewriteIdent opts s ic], false)
  | .leaf _ _ => ([], false)
  | .block .curly _ body _ => (valueIdentsL body, false)
  | .block _ _ body _ => (selectorIdents opts body false, false)

/-- identifiers of one token of an at-rule's prelude (loose identifiers are never class positions) -/
def atTokIdents (opts : Opts) : Tok → List String
  | .leaf (.ident s) _ => [s]
  | .leaf _ _ => []
  | .block _ _ body _ => selectorIdents opts body false

def hostLowI (opts : Opts) (chain : List (List String)) (body : List Tok) : List String :=
  chain.flatten ++ (hostSelIdents opts ++ valueIdentsL body)

/-- (identifiers of the normal output, identifiers of the low-priority output) of a stylesheet -/
def goI (opts : Opts) : List (List String) → ModeI → List Tok → List String × List String
  | _, _, [] => ([], [])
  | chain, .top, t :: ts =>
    match t with
    | .leaf .ws _ => goI opts chain .top ts
    | .leaf (.at name) _ => goI opts chain (.atPre (containRuleList.contains (lower name)) []) ts
    | .block .curly _ body _ => addNI (valueIdentsL body) (goI opts chain .top ts)
    | _ =>
      match hostClass opts (t :: ts) with
      | some legal => goI opts chain (.host legal) ts
      | none => addNI (qualTokIdents opts false t).1 (goI opts chain (.qual (qualTokIdents opts false t).2) ts)
  | chain, .qual ic, t :: ts =>
    match t with
    | .block .curly _ body _ => addNI (valueIdentsL body) (goI opts chain .top ts)
    | _ => addNI (qualTokIdents opts ic t).1 (goI opts chain (.qual (qualTokIdents opts ic t).2) ts)
  | chain, .host legal, t :: ts =>
    match t with
    | .block .curly _ body _ =>
      if legal then addNLI [] (hostLowI opts chain body) (goI opts chain .top ts) else goI opts chain .top ts
    | _ => goI opts chain (.host legal) ts
  | chain, .atPre cr acc, t :: ts =>
    match t with
    | .leaf .ws _ => goI opts chain (.atPre cr acc) ts
    | .block .curly _ b _ =>
      let inner := if cr then goI opts (chain ++ [acc]) .top b else (valueIdentsL b, [])
      let rest := goI opts chain .top ts
      (inner.1 ++ rest.1, inner.2 ++ rest.2)
    | .leaf .semi _ => goI opts chain .top ts
    | _ => addNI (atTokIdents opts t) (goI opts chain (.atPre cr (acc ++ atTokIdents opts t)) ts)

/-! ## the writes of the model, seen from both outputs -/

structure SheetI (st st' : St) (n l : List String) : Prop where
  opts : st'.opts = st.opts
  ul : st.usingLow = false
  ul' : st'.usingLow = false
  stacks : st'.stacks = st.stacks
  extN : ∃ new, st'.normal.items = st.normal.items ++ new ∧ idents new = n
  low : idents st'.low.items = idents st.low.items ++ l

theorem SheetI.refl (st : St) (h : st.usingLow = false) : SheetI st st [] [] :=
  ⟨rfl, h, h, rfl, ⟨[], by simp, rfl⟩, by simp⟩

theorem SheetI.trans {a b c : St} {n1 n2 l1 l2} (h1 : SheetI a b n1 l1) (h2 : SheetI b c n2 l2) :
    SheetI a c (n1 ++ n2) (l1 ++ l2) :=
  ⟨h2.opts.trans h1.opts, h1.ul, h2.ul', h2.stacks.trans h1.stacks, by
     obtain ⟨x1, e1, s1⟩ := h1.extN
     obtain ⟨x2, e2, s2⟩ := h2.extN
     exact ⟨x1 ++ x2, by rw [e2, e1, List.append_assoc], by rw [idents_append, s1, s2]⟩,
   by rw [h2.low, h1.low, List.append_assoc]⟩

theorem SheetI.congr {a b : St} {n n' l l'} (h : SheetI a b n l) (hn : n = n') (hl : l = l') : SheetI a b n' l' := by
  subst hn; subst hl; exact h

theorem SheetI.normalIdents {a b : St} {n l} (h : SheetI a b n l) :
    idents b.normal.items = idents a.normal.items ++ n := by
  obtain ⟨x, e, s⟩ := h.extN; rw [e, idents_append, s]

theorem SheetI.ofWrote {st st' : St} {ids shs} (h : Wrote st st' ids shs) (hu : st.usingLow = false) :
    SheetI st st' ids [] := by
  have hu' : st'.usingLow = false := by rw [h.ul, hu]
  have ho := h.other
  simp only [hu] at ho
  obtain ⟨new, e, hi, _⟩ := h.ext
  refine ⟨h.opts, hu, hu', h.stacks, ⟨new, ?_, hi⟩, ?_⟩
  · simpa [St.cur, hu, hu'] using e
  · have : st'.low = st.low := by simpa using ho
    simp [this]

theorem SheetI.restack {st st1 st' : St} {n l} (w : SheetI st1 st' n l) (ho : st1.opts = st.opts)
    (hn : st1.normal = st.normal) (hl : st1.low = st.low) (hu : st.usingLow = false) :
    SheetI st { st' with stacks := st.stacks } n l :=
  ⟨w.opts.trans ho, hu, w.ul', rfl, by rw [← hn]; exact w.extN, by rw [← hl]; exact w.low⟩

theorem addNI_addNI (a b : List String) (p : List String × List String) : addNI a (addNI b p) = addNI (a ++ b) p := by
  simp [addNI]

theorem addNLI_addNLI (n1 l1 n2 l2 : List String) (p : List String × List String) :
    addNLI n1 l1 (addNLI n2 l2 p) = addNLI (n1 ++ n2) (l1 ++ l2) p := by simp [addNLI]

theorem addNI_eq_addNLI (n : List String) (p : List String × List String) : addNI n p = addNLI n [] p := by
  simp [addNI, addNLI]

/-! ## a generic qualified rule -/

theorem qualLoop_goI (opts : Opts) (chain : List (List String)) : ∀ (ts : List Tok) (st : St) (a b c : Bool),
    goI opts chain (.qual c) ts = addNI (ruleIdents opts ts c) (goI opts chain .top (qualLoop st ts a b c).2)
  | [], st, _, _, _ => by simp [qualLoop, goI, ruleIdents, addNI]
  | .block k name body pos :: ts, st, a, b, c => by
    cases k with
    | curly => simp [qualLoop, goI, ruleIdents]
    | fn =>
      have ih := qualLoop_goI opts chain ts (closeTok (convCls (openTok (flushWs st b pos) .fn name pos) body true false false) .fn pos) false false false
      simp only [qualLoop, goI, ruleIdents, qualTokIdents]
      rw [ih, addNI_addNI]
    | paren =>
      have ih := qualLoop_goI opts chain ts (closeTok (convCls (openTok (flushWs st b pos) .paren name pos) body true false false) .paren pos) false false false
      simp only [qualLoop, goI, ruleIdents, qualTokIdents]
      rw [ih, addNI_addNI]
    | square =>
      have ih := qualLoop_goI opts chain ts (closeTok (convCls (openTok (flushWs st b pos) .square name pos) body true false false) .square pos) false false false
      simp only [qualLoop, goI, ruleIdents, qualTokIdents]
      rw [ih, addNI_addNI]
  | .leaf k pos :: ts, st, a, b, c => by
    have rec_ : ∀ (s1 : St) (a' b' : Bool),
        goI opts chain (.qual c) (.leaf k pos :: ts) = addNI (ruleIdents opts (.leaf k pos :: ts) c)
          (goI opts chain .top (qualLoop s1 ts a' b' (qualTokIdents opts c (.leaf k pos)).2).2) := by
      intro s1 a' b'
      simp only [goI]
      rw [qualLoop_goI opts chain ts s1 a' b' _, addNI_addNI]
      congr 1
      cases k <;> simp [qualTokIdents, ruleIdents]
    cases k with
    | ws => simp only [qualLoop]; exact rec_ _ _ _
    | delim d => simp only [qualLoop]; exact rec_ _ _ _
    | ident x => simp only [qualLoop]; exact rec_ _ _ _
    | _ => simp only [qualLoop]; exact rec_ _ _ _

/-! ## `:host` rules -/

theorem goI_host_dropWs (opts : Opts) (chain : List (List String)) (legal : Bool) : ∀ ts : List Tok,
    goI opts chain (.host legal) (dropWs ts) = goI opts chain (.host legal) ts
  | [] => by simp [dropWs]
  | t :: ts => by
    unfold dropWs
    split
    · next h =>
      rw [goI_host_dropWs opts chain legal ts]
      cases t with
      | leaf k p => cases k <;> simp_all [Tok.isWs, goI]
      | block k n b p => simp [Tok.isWs] at h
    · rfl

theorem splitAtCurly_goI (opts : Opts) (chain : List (List String)) (legal : Bool) : ∀ (r acc : List Tok),
    match splitAtCurly r acc with
    | none => goI opts chain (.host legal) r = ([], [])
    | some (_, curly, rest) =>
      ∀ n b p, curly = .block .curly n b p →
      goI opts chain (.host legal) r =
        (if legal then addNLI [] (hostLowI opts chain b) (goI opts chain .top rest) else goI opts chain .top rest)
  | [], acc => by simp [splitAtCurly, goI]
  | t :: ts, acc => by
    have ih := splitAtCurly_goI opts chain legal ts (t :: acc)
    cases t with
    | leaf k p =>
      simp only [splitAtCurly]
      cases hsp : splitAtCurly ts (.leaf k p :: acc) with
      | none => simp only [hsp] at ih; simp [goI, ih]
      | some v =>
        obtain ⟨sel, curly, rest⟩ := v
        simp only [hsp] at ih
        intro n b p' hc
        simp only [goI]; exact ih n b p' hc
    | block k n b p =>
      cases k with
      | curly =>
        simp only [splitAtCurly]
        intro n' b' p' hc
        cases hc
        simp only [goI]
      | fn =>
        simp only [splitAtCurly]
        cases hsp : splitAtCurly ts (.block .fn n b p :: acc) with
        | none => simp only [hsp] at ih; simp [goI, ih]
        | some v =>
          obtain ⟨sel, curly, rest⟩ := v
          simp only [hsp] at ih
          intro n' b' p' hc
          simp only [goI]; exact ih n' b' p' hc
      | paren =>
        simp only [splitAtCurly]
        cases hsp : splitAtCurly ts (.block .paren n b p :: acc) with
        | none => simp only [hsp] at ih; simp [goI, ih]
        | some v =>
          obtain ⟨sel, curly, rest⟩ := v
          simp only [hsp] at ih
          intro n' b' p' hc
          simp only [goI]; exact ih n' b' p' hc
      | square =>
        simp only [splitAtCurly]
        cases hsp : splitAtCurly ts (.block .square n b p :: acc) with
        | none => simp only [hsp] at ih; simp [goI, ih]
        | some v =>
          obtain ⟨sel, curly, rest⟩ := v
          simp only [hsp] at ih
          intro n' b' p' hc
          simp only [goI]; exact ih n' b' p' hc

theorem hostHead_goI (opts : Opts) (chain : List (List String)) (legal : Bool) (ts : List Tok) (isFn : Bool) (r : List Tok)
    (h : hostHead ts = some (isFn, r)) :
    ∃ p r0, ts = .leaf .colon p :: r0 ∧ goI opts chain (.host legal) r0 = goI opts chain (.host legal) r := by
  unfold hostHead at h
  split at h
  · next p r0 =>
    refine ⟨p, r0, rfl, ?_⟩
    have hd := goI_host_dropWs opts chain legal r0
    split at h
    · next q r' hdw => cases h; rw [← hd, hdw]; simp [goI]
    · next b q r' hdw => cases h; rw [← hd, hdw]; simp [goI]
    · cases h
  · cases h

theorem idents_open_chain (stacks : List (List Out)) (s : Sink) :
    idents (stacks.foldl (fun (s : Sink) seg => (s.raw seg).raw [⟨.open .curly "", none, none⟩]) s).items
      = idents s.items ++ (stacks.map idents).flatten := by
  induction stacks generalizing s with
  | nil => simp
  | cons seg rest ih =>
    simp only [List.foldl_cons, ih, idents_raw, List.map_cons, List.flatten_cons]
    simp [idents, identOfK, List.append_assoc]

theorem idents_close_chain (stacks : List (List Out)) (s : Sink) :
    idents (stacks.foldl (fun (s : Sink) _ => s.raw [⟨.close .curly, none, none⟩]) s).items = idents s.items := by
  induction stacks generalizing s with
  | nil => simp
  | cons seg rest ih =>
    simp only [List.foldl_cons, ih, idents_raw]
    simp [idents, identOfK]

/-- `write_in_low_priority`, identifiers: the replayed chain's, then what `f` writes -/
theorem writeLow_idents (st : St) (f : St → St) (ids : List String) (shs : List Shape)
    (hf : ∀ s0 : St, s0.opts = st.opts → Wrote s0 (f s0) ids shs) :
    idents (writeLow st f).low.items = idents st.low.items ++ (st.stacks.map idents).flatten ++ ids := by
  let lowOpen : Sink := st.stacks.foldl (fun (s : Sink) seg => (s.raw seg).raw [⟨.open .curly "", none, none⟩]) st.low
  let st1 : St := ⟨st.opts, st.normal, lowOpen, true, st.warnings, st.stacks⟩
  have w := hf st1 rfl
  have hcur1 : st1.cur = lowOpen := by simp [St.cur, st1]
  have hul : (f st1).usingLow = true := by rw [w.ul]
  have hcur2 : (f st1).cur = (f st1).low := by simp [St.cur, hul]
  have hids := w.ids
  rw [hcur1, hcur2] at hids
  have e1 : writeLow st f =
      { (f st1) with low := (f st1).stacks.foldl (fun (s : Sink) _ => s.raw [⟨.close .curly, none, none⟩]) (f st1).low,
                     usingLow := false } := rfl
  rw [e1]
  simp only [idents_close_chain, hids, lowOpen, idents_open_chain]

theorem goI_top_qual (opts : Opts) (chain : List (List String)) (t : Tok) (ts : List Tok) (ht : t.isWs = false)
    (hat : ∀ name p, t ≠ .leaf (.at name) p) (hc : hostClass opts (t :: ts) = none) :
    goI opts chain .top (t :: ts) = goI opts chain (.qual false) (t :: ts) := by
  cases t with
  | leaf k p =>
    cases k with
    | ws => simp [Tok.isWs] at ht
    | «at» name => exact absurd rfl (hat name p)
    | _ => simp [goI, hc]
  | block k n b p =>
    cases k with
    | curly => simp [goI]
    | _ => simp [goI, hc]

/-- one qualified rule at the top of a (possibly nested) rule list -/
theorem qualRule_sheetI (st : St) (t : Tok) (ts : List Tok) (chain : List (List String))
    (ht : t.isWs = false) (hat : ∀ name p, t ≠ .leaf (.at name) p)
    (hu : st.usingLow = false) (hch : st.stacks.map idents = chain) :
    ∃ n l, SheetI st (qualRule st (t :: ts)).1 n l ∧
      goI st.opts chain .top (t :: ts) = addNLI n l (goI st.opts chain .top (qualRule st (t :: ts)).2) := by
  have hd := dropWs_cons_of_not_ws t ts ht
  have generic : hostClass st.opts (t :: ts) = none → qualRule st (t :: ts) = qualLoop st (t :: ts) true false false →
      ∃ n l, SheetI st (qualRule st (t :: ts)).1 n l ∧
      goI st.opts chain .top (t :: ts) = addNLI n l (goI st.opts chain .top (qualRule st (t :: ts)).2) := by
    intro hc e
    rw [e]
    have w := qualLoop_wrote (t :: ts) st true false false
    have g := qualLoop_goI st.opts chain (t :: ts) st true false false
    refine ⟨ruleIdents st.opts (t :: ts) false, [], SheetI.ofWrote w hu, ?_⟩
    rw [goI_top_qual st.opts chain t ts ht hat hc, g]; simp [addNI, addNLI]
  cases hcv : st.opts.convertHost with
  | false =>
    exact generic (by simp [hostClass, hcv]) (by rw [host_off_generic st (t :: ts) hcv, hd])
  | true =>
    cases hh : hostHead (t :: ts) with
    | none =>
      exact generic (by simp [hostClass, hcv, hh]) (by rw [not_host_generic st (t :: ts) (by rw [hd]; exact hh), hd])
    | some v =>
      obtain ⟨isFn, r⟩ := v
      cases hs : splitAtCurly r [] with
      | none =>
        have hcls : hostClass st.opts (t :: ts) = some false := by simp [hostClass, hcv, hh, hs]
        obtain ⟨p, r0, e0, hg⟩ := hostHead_goI st.opts chain false (t :: ts) isFn r hh
        have eq : qualRule st (t :: ts) = (st, []) := by
          unfold qualRule; simp only [hd, hcv, hh, hs, if_true]
        have sg := splitAtCurly_goI st.opts chain false r []
        simp only [hs] at sg
        refine ⟨[], [], by rw [eq]; exact SheetI.refl st hu, ?_⟩
        rw [eq]
        simp only [List.cons.injEq] at e0
        obtain ⟨e1, e2⟩ := e0
        subst e1; subst e2
        simp [goI, hcls, hg, sg, addNLI]
      | some v2 =>
        obtain ⟨sel, curly, rest⟩ := v2
        obtain ⟨p, r0, e0, hg1⟩ := hostHead_goI st.opts chain (!(isFn || sel.any (fun t => !t.isWs))) (t :: ts) isFn r hh
        have hcls : hostClass st.opts (t :: ts) = some (!(isFn || sel.any (fun t => !t.isWs))) := by
          simp [hostClass, hcv, hh, hs]
        have sgs := splitAtCurly_go st.opts [] false r []
        simp only [hs] at sgs
        obtain ⟨⟨bn, bb, bp, hcur⟩, _, _⟩ := sgs
        have sg := splitAtCurly_goI st.opts chain (!(isFn || sel.any (fun t => !t.isWs))) r []
        simp only [hs] at sg
        have sg2 := sg bn bb bp hcur
        have hgo : goI st.opts chain .top (t :: ts) = goI st.opts chain (.host (!(isFn || sel.any (fun t => !t.isWs)))) r := by
          simp only [List.cons.injEq] at e0
          obtain ⟨e1, e2⟩ := e0
          subst e1; subst e2
          simp only [goI, hcls]
          exact hg1
        cases hbad : (isFn || sel.any (fun t => !t.isWs)) with
        | true =>
          have eq : qualRule st (t :: ts) = (st.warn .hostSelectorCombination
              (if isFn then nextPos r curly.pos else nextPos (dropWs sel).tail curly.pos), rest) := by
            unfold qualRule; simp only [hd, hcv, hh, hs, hbad, if_true]
          rw [eq]
          refine ⟨[], [], ?_, ?_⟩
          · exact ⟨rfl, hu, by simpa [St.warn] using hu, rfl, ⟨[], by simp [St.warn], rfl⟩, by simp [St.warn]⟩
          · rw [hgo, sg2]; simp [hbad, addNLI]
        | false =>
          subst hcur
          have eq : qualRule st (t :: ts) = (writeLow st (hostBody bn bb bp), rest) := by
            unfold qualRule
            simp only [hd, hcv, hh, hs, hbad, if_true, Bool.false_eq_true, if_false]
            rfl
          have hfw : ∀ s0 : St, s0.opts = st.opts → Wrote s0 (hostBody bn bb bp s0) (hostSelIdents st.opts ++ valueIdentsL bb)
              (hostSelShapes st.opts ++ inShape (.block .curly bn bb bp)) :=
            fun s0 h0 => by have := wrote_hostBody bn bb bp s0; rw [h0] at this; exact this
          have w := writeLow_spec st (hostBody bn bb bp) _ _ hfw
          have wi := writeLow_idents st (hostBody bn bb bp) _ _ hfw
          rw [eq]
          refine ⟨[], hostLowI st.opts chain bb, ?_, ?_⟩
          · refine ⟨w.2.2.2.2.1, hu, w.2.2.2.1, w.2.2.1, ⟨[], by simp [w.1], rfl⟩, ?_⟩
            rw [wi, hch]
            simp [hostLowI, List.append_assoc]
          · rw [hgo, sg2]; simp [hbad, addNLI]

/-! ## at-rules -/

def SegInvI (st : St) (startLen : Nat) (acc : List String) : Prop :=
  ∃ pre seg, st.normal.items = pre ++ seg ∧ pre.length = startLen ∧ idents seg = acc

theorem SegInvI.step {st st' : St} {startLen : Nat} {acc n l : List String} (h : SegInvI st startLen acc)
    (w : SheetI st st' n l) : SegInvI st' startLen (acc ++ n) := by
  obtain ⟨pre, seg, e, hl, hs⟩ := h
  obtain ⟨new, e2, hn⟩ := w.extN
  exact ⟨pre, seg ++ new, by rw [e2, e, List.append_assoc], hl, by rw [idents_append, hs, hn]⟩

theorem ident_leaf (opts : Opts) (k : Leaf) (pos : Pos) : identOfK (.leaf k) = atTokIdents opts (.leaf k pos) := by
  cases k <;> simp [identOfK, atTokIdents]

theorem atLoop_sheetI (nested : St → List Tok → St) (fuelB : Nat)
    (hn : ∀ (st : St) (body : List Tok), sizeToks body < fuelB → st.usingLow = false → st.opts.importSign = none →
      SheetI st (nested st body) (goI st.opts (st.stacks.map idents) .top body).1 (goI st.opts (st.stacks.map idents) .top body).2)
    (cr : Bool) (startLen : Nat) : ∀ (ts : List Tok) (st : St) (acc : List String) (chain : List (List String)),
    sizeToks ts ≤ fuelB → st.usingLow = false → st.opts.importSign = none → st.stacks.map idents = chain →
    SegInvI st startLen acc →
    ∃ n l, SheetI st (atLoop nested cr startLen st ts).1 n l ∧
      goI st.opts chain (.atPre cr acc) ts = addNLI n l (goI st.opts chain .top (atLoop nested cr startLen st ts).2)
  | [], st, acc, chain, _, hu, _, _, _ => ⟨[], [], by simpa [atLoop] using SheetI.refl st hu, by simp [atLoop, goI, addNLI]⟩
  | .block k name body pos :: ts, st, acc, chain, hsz, hu, hi, hch, hseg => by
    have hszt : sizeToks ts ≤ fuelB := by simp only [sizeToks] at hsz; omega
    have other : ∀ (hk : k ≠ .curly),
        ∃ n l, SheetI st (atLoop nested cr startLen (closeTok (convCls (openTok st k name pos) body true false false) k pos) ts).1 n l ∧
          addNI (atTokIdents st.opts (.block k name body pos))
              (goI st.opts chain (.atPre cr (acc ++ atTokIdents st.opts (.block k name body pos))) ts) =
            addNLI n l (goI st.opts chain .top
              (atLoop nested cr startLen (closeTok (convCls (openTok st k name pos) body true false false) k pos) ts).2) := by
      intro _
      have w1 := SheetI.ofWrote (wrote_open st k name pos) hu
      have w2 := SheetI.ofWrote (convCls_wrote body (openTok st k name pos) true false false) w1.ul'
      have w3 := SheetI.ofWrote (wrote_close (convCls (openTok st k name pos) body true false false) k pos) w2.ul'
      have w := (w1.trans w2).trans w3
      rw [w1.opts] at w
      have w' : SheetI st (closeTok (convCls (openTok st k name pos) body true false false) k pos)
          (atTokIdents st.opts (.block k name body pos)) [] := w.congr (by simp [atTokIdents]) (by simp)
      obtain ⟨n, l, h1, h2⟩ := atLoop_sheetI nested fuelB hn cr startLen ts _ _ chain hszt w'.ul' (by rw [w'.opts]; exact hi)
        (by rw [w'.stacks]; exact hch) (hseg.step w')
      rw [w'.opts] at h2
      refine ⟨_, _, w'.trans h1, ?_⟩
      rw [h2, addNI_eq_addNLI, addNLI_addNLI]
    cases k with
    | curly =>
      simp only [atLoop]
      obtain ⟨pre, seg, e, hl, hs⟩ := hseg
      have hseg' : st.cur.items.drop startLen = seg := by
        simp [St.cur, hu, e, ← hl]
      rw [hseg']
      let st1 : St := { st with stacks := st.stacks ++ [seg] }
      have hu1 : st1.usingLow = false := hu
      have w1 := SheetI.ofWrote (wrote_open st1 .curly name pos) hu1
      have hch2 : (openTok st1 .curly name pos).stacks.map idents = chain ++ [acc] := by
        rw [w1.stacks]; simp [st1, hch, hs]
      have hi2 : (openTok st1 .curly name pos).opts.importSign = none := by rw [w1.opts]; exact hi
      have hbody : sizeToks body < fuelB := by simp only [sizeToks, sizeTok] at hsz; omega
      have w2 : SheetI (openTok st1 .curly name pos)
          (if cr = true then nested (openTok st1 .curly name pos) body else convRpx (openTok st1 .curly name pos) false body none)
          (if cr then goI st.opts (chain ++ [acc]) .top body else (valueIdentsL body, [])).1
          (if cr then goI st.opts (chain ++ [acc]) .top body else (valueIdentsL body, [])).2 := by
        cases cr with
        | true =>
          have := hn (openTok st1 .curly name pos) body hbody w1.ul' hi2
          rw [hch2, w1.opts] at this
          simpa using this
        | false =>
          simpa using SheetI.ofWrote (convRpx_wrote body (openTok st1 .curly name pos) false none) w1.ul'
      generalize (if cr = true then nested (openTok st1 .curly name pos) body else convRpx (openTok st1 .curly name pos) false body none) = st3 at w2
      have w3 := SheetI.ofWrote (wrote_close st3 .curly pos) w2.ul'
      have w := (w1.trans w2).trans w3
      have hst : (closeTok st3 .curly pos).stacks.dropLast = st.stacks := by rw [w.stacks]; simp [st1]
      rw [hst]
      refine ⟨_, _, w.restack (st := st) rfl rfl rfl hu, ?_⟩
      simp only [goI]
      simp [addNLI]
    | fn => simp only [atLoop, goI]; exact other (by simp)
    | paren => simp only [atLoop, goI]; exact other (by simp)
    | square => simp only [atLoop, goI]; exact other (by simp)
  | .leaf k pos :: ts, st, acc, chain, hsz, hu, hi, hch, hseg => by
    have hszt : sizeToks ts ≤ fuelB := by simp only [sizeToks] at hsz; omega
    have generic : ∀ (hk1 : k ≠ .ws) (hk2 : k ≠ .semi),
        ∃ n l, SheetI st (atLoop nested cr startLen (st.tok (.leaf k) pos) ts).1 n l ∧
          addNI (atTokIdents st.opts (.leaf k pos)) (goI st.opts chain (.atPre cr (acc ++ atTokIdents st.opts (.leaf k pos))) ts) =
            addNLI n l (goI st.opts chain .top (atLoop nested cr startLen (st.tok (.leaf k) pos) ts).2) := by
      intro _ _
      have w := SheetI.ofWrote (wrote_tok st (.leaf k) pos none) hu
      rw [ident_leaf st.opts k pos] at w
      obtain ⟨n, l, h1, h2⟩ := atLoop_sheetI nested fuelB hn cr startLen ts _ _ chain hszt w.ul' (by rw [w.opts]; exact hi)
        (by rw [w.stacks]; exact hch) (hseg.step w)
      rw [w.opts] at h2
      refine ⟨_, _, w.trans h1, ?_⟩
      rw [h2, addNI_eq_addNLI, addNLI_addNLI]
    cases k with
    | ws =>
      simp only [atLoop, goI]
      exact atLoop_sheetI nested fuelB hn cr startLen ts st acc chain hszt hu hi hch hseg
    | semi =>
      simp only [atLoop, goI]
      have w := SheetI.ofWrote (wrote_tok st (.leaf .semi) pos none) hu
      exact ⟨_, _, w, by simp [addNLI, identOfK]⟩
    | _ =>
      simp only [atLoop, goI]
      exact generic (by simp) (by simp)

/-! ## the rule loop -/

theorem goI_top_dropWs (opts : Opts) (chain : List (List String)) : ∀ ts : List Tok,
    goI opts chain .top (dropWs ts) = goI opts chain .top ts
  | [] => by simp [dropWs]
  | t :: ts => by
    unfold dropWs
    split
    · next h =>
      rw [goI_top_dropWs opts chain ts]
      cases t with
      | leaf k p => cases k <;> simp_all [Tok.isWs, goI]
      | block k n b p => simp [Tok.isWs] at h
    · rfl

theorem rules_sheetI : ∀ (fuel : Nat) (st : St) (ts : List Tok) (atStart : Bool),
    sizeToks ts < fuel → st.usingLow = false → st.opts.importSign = none →
    SheetI st (rules fuel st ts atStart) (goI st.opts (st.stacks.map idents) .top ts).1
      (goI st.opts (st.stacks.map idents) .top ts).2
  | 0, _, _, _, h, _, _ => by omega
  | fuel + 1, st, ts, atStart, hsz, hu, hi => by
    have hds := sizeToks_dropWs ts
    rw [← goI_top_dropWs]
    unfold rules
    split
    · next hd => rw [hd]; simpa [goI] using SheetI.refl st hu
    · next name pos r hd =>
      rw [hd]
      rw [hd] at hds
      simp only [sizeToks, sizeTok] at hds
      have eat : atRule (fun st body => rules fuel st body true) st name pos atStart r =
          atLoop (fun st body => rules fuel st body true) (containRuleList.contains (lower name)) st.cur.items.length
            (st.tok (.leaf (.at name)) pos) r := by
        unfold atRule
        have : (if name = "import" then st.opts.importSign else none) = none := by split <;> simp [hi]
        simp only [this]
      rw [eat]
      have w0 := SheetI.ofWrote (wrote_tok st (.leaf (.at name)) pos none) hu
      have w0s := Sheet.ofWrote (wrote_tok st (.leaf (.at name)) pos none) hu
      have hseg : SegInvI (st.tok (.leaf (.at name)) pos) st.cur.items.length [] := by
        obtain ⟨new, e, hs⟩ := w0.extN
        exact ⟨st.normal.items, new, e, by simp [St.cur, hu], by simpa [identOfK] using hs⟩
      have hsegS : SegInv (st.tok (.leaf (.at name)) pos) st.cur.items.length [.leaf "at"] := by
        obtain ⟨new, e, hs⟩ := w0s.extN
        exact ⟨st.normal.items, new, e, by simp [St.cur, hu], by simpa [shapeOfK, leafTag] using hs⟩
      -- the size of what is left comes from the companion lemma about token kinds
      obtain ⟨_, _, _, _, h3⟩ := atLoop_sheet (fun st body => rules fuel st body true) fuel
        (fun s body hb hu' hi' => rules_sheet fuel s body true hb hu' hi')
        (containRuleList.contains (lower name)) st.cur.items.length r _ [.leaf "at"] (st.stacks.map shapes)
        (by omega) w0s.ul' (by rw [w0s.opts]; exact hi) (by rw [w0s.stacks]) hsegS
      obtain ⟨n, l, h1, h2⟩ := atLoop_sheetI (fun st body => rules fuel st body true) fuel
        (fun s body hb hu' hi' => rules_sheetI fuel s body true hb hu' hi')
        (containRuleList.contains (lower name)) st.cur.items.length r _ [] (st.stacks.map idents)
        (by omega) w0.ul' (by rw [w0.opts]; exact hi) (by rw [w0.stacks]) hseg
      rw [w0.opts] at h2
      have w1 := w0.trans h1
      have ih := rules_sheetI fuel _ (atLoop (fun st body => rules fuel st body true) (containRuleList.contains (lower name))
        st.cur.items.length (st.tok (.leaf (.at name)) pos) r).2 false (by omega) w1.ul' (by rw [w1.opts]; exact hi)
      rw [w1.stacks, w1.opts] at ih
      refine (w1.trans ih).congr ?_ ?_
      · simp only [goI, h2]; simp [addNLI, identOfK]
      · simp only [goI, h2]; simp [addNLI]
    · next ts' hne hnat =>
      cases hd : dropWs ts with
      | nil => exact absurd hd hne
      | cons t r =>
        have ht := dropWs_head_not_ws ts t r hd
        have hat : ∀ name p, t ≠ .leaf (.at name) p := by
          intro name p e; subst e; exact hnat name p r hd
        rw [hd] at hds
        obtain ⟨_, _, _, _, h3⟩ := qualRule_sheet st t r (st.stacks.map shapes) ht hat hu rfl
        obtain ⟨n, l, h1, h2⟩ := qualRule_sheetI st t r (st.stacks.map idents) ht hat hu rfl
        have ih := rules_sheetI fuel _ (qualRule st (t :: r)).2 false (by omega) h1.ul' (by rw [h1.opts]; exact hi)
        rw [h1.stacks, h1.opts] at ih
        refine (h1.trans ih).congr ?_ ?_
        · rw [h2]; simp [addNLI]
        · rw [h2]; simp [addNLI]

/-- **C09 for a whole stylesheet** (no import sign configured): the identifiers of the normal and of the low-priority output
of `transform` are, in order, exactly those the fuel-free reading `goI` assigns — every identifier of the input once, replaced by
`<prefix>--<name>` exactly when it directly follows a `.` in selector context (style-rule selectors and the parenthesised /
functional blocks of at-rule preludes, at any depth, in every rule nested inside any rule-bearing at-rule), and unchanged
everywhere else (at-rule keywords and loose prelude identifiers, declaration blocks, `calc()`). -/
theorem sheet_idents (opts : Opts) (ts : List Tok) (hi : opts.importSign = none) :
    idents (transform opts ts).normal.items = (goI opts [] .top ts).1 ∧
    idents (transform opts ts).low.items = (goI opts [] .top ts).2 := by
  have h := rules_sheetI (sizeToks ts + 1) ⟨opts, .empty, .empty, false, [], []⟩ ts true (by omega) rfl hi
  exact ⟨by simpa [transform, Sink.empty, idents] using h.normalIdents, by simpa [transform, Sink.empty, idents] using h.low⟩

/-! non-vacuity: `@media x{.a .b{c} @scope (.s){:is(.d) e{f}}} .g{h}` with prefix `p` -/
def exSheetI : List Tok :=
  [.leaf (.at "media") ⟨0,0⟩, .leaf .ws ⟨0,6⟩, .leaf (.ident "x") ⟨0,7⟩,
   .block .curly "" [.leaf (.delim ".") ⟨0,9⟩, .leaf (.ident "a") ⟨0,10⟩, .leaf .ws ⟨0,11⟩, .leaf (.delim ".") ⟨0,12⟩, .leaf (.ident "b") ⟨0,13⟩,
     .block .curly "" [.leaf (.ident "c") ⟨0,15⟩] ⟨0,14⟩, .leaf .ws ⟨0,17⟩,
     .leaf (.at "scope") ⟨0,18⟩, .leaf .ws ⟨0,24⟩, .block .paren "" [.leaf (.delim ".") ⟨0,26⟩, .leaf (.ident "s") ⟨0,27⟩] ⟨0,25⟩,
     .block .curly "" [.leaf .colon ⟨0,30⟩, .block .fn "is" [.leaf (.delim ".") ⟨0,34⟩, .leaf (.ident "d") ⟨0,35⟩] ⟨0,31⟩, .leaf .ws ⟨0,37⟩,
       .leaf (.ident "e") ⟨0,38⟩, .block .curly "" [.leaf (.ident "f") ⟨0,40⟩] ⟨0,39⟩] ⟨0,29⟩] ⟨0,8⟩,
   .leaf .ws ⟨0,44⟩, .leaf (.delim ".") ⟨0,45⟩, .leaf (.ident "g") ⟨0,46⟩, .block .curly "" [.leaf (.ident "h") ⟨0,48⟩] ⟨0,47⟩]

example : goI ⟨some "p", none, 0x443b8000, none, false, none⟩ [] .top exSheetI =
    (["x", "p--a", "p--b", "c", "p--s", "p--d", "e", "f", "p--g", "h"], []) := by
  simp [goI, exSheetI, hostClass, addNI, qualTokIdents, atTokIdents, selectorIdents, valueIdentsL, valueIdents, rewriteIdent,
    containRuleList, lower]

end GE.Css
