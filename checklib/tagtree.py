"""Tie of the tag-level structure model (lean/GE/Model/TagTree.lean, theorems in GE/Thm/C14Tag.lean) to the implementation.

Sequences of sibling tags — ordinary elements, <block>, <slot>, <include>, <template is>, texts, white space, comments, tags that leave nothing in
place (<import>, <wxs>, <template name>) — carrying every combination of the control attributes wx:if / wx:elif / wx:else / wx:for / wx:for-item /
wx:for-index / wx:key and `slot:` references, well-formed or not, are written as WXML for the real parser and printer and as an S-expression for the
model.  Compared: the tree the real parser builds (harness op `tag_tree`, in the text form of `AS.show`) with the model's `parse`, and the text the
real printer writes for that tree, read back by a small tag reader, with the model's `print (parse …)`."""
import re, json
from . import core

TAGS = ["a", "view", "cmp-x", "b"]


def gen_forest(r, depth, n, counter):
    """a list of X nodes; two kept texts are always separated by an element (adjacent texts are one text for any reader)"""
    out, last_text, after_if = [], True if False else False, False
    for _ in range(n):
        c = r.below(12)
        if c == 0 and not last_text:
            out.append(("text", r.choice(["t1", "{{x}}", "a{{x}}b", '{{" "}}', "x y"])))
            last_text = True
            continue
        if c == 1:
            out.append(("text", r.choice([" ", "\n\t", "  "])) if not last_text else ("comment",))
            if out[-1][0] == "text":
                last_text = True
            continue
        if c == 2:
            out.append(("comment",))
            continue
        if c == 3:
            counter[0] += 1
            out.append(("gone", r.below(3), counter[0]))
            continue
        if after_if and r.chance(1, 4):
            # between the members of a wx:if group: runs of comments, white space, tags that leave nothing in place
            for _ in range(1 + r.below(4)):
                k = r.below(4)
                if k == 3:
                    counter[0] += 1
                    out.append(("gone", r.below(3), counter[0]))
                elif k == 2 and not last_text:
                    out.append(("text", r.choice([" ", "\n"])))
                    last_text = True
                else:
                    out.append(("comment",))
        b = gen_base(r, counter)
        ctl = gen_ctl(r, after_if)
        kids = gen_forest(r, depth - 1, r.below(4), counter) if depth > 0 and r.chance(3, 5) else []
        out.append(("el", b, ctl, kids, r.chance(1, 2)))
        last_text = False
        after_if = any(ctl[k] is not None for k in ("if", "elif")) or ctl["else"]
    return out


def gen_base(r, counter):
    refs = []
    if r.chance(1, 5):
        for _ in range(1 + r.below(2)):
            counter[0] += 1
            refs.append("r%d=v%d" % (counter[0], counter[0]))
    c = r.below(10)
    if c < 4:
        counter[0] += 1
        return ("normal", "%s#%s" % (r.choice(TAGS), "p%d" % counter[0] if r.chance(2, 3) else ""), refs)
    if c < 7:
        counter[0] += 1
        return ("pure", "s%d" % counter[0] if r.chance(1, 4) else None, refs)
    if c == 7:
        counter[0] += 1
        return ("slot", "n%d" % counter[0] if r.chance(2, 3) else "", refs)
    counter[0] += 1
    return ("leaf", r.choice(["include#q%d", "template#t%d", "template#{{t%d}}"]) % counter[0])


def gen_ctl(r, after_if):
    c = {"if": None, "elif": None, "else": False, "for": None, "item": None, "index": None, "key": None}
    val = lambda nm: r.choice([nm, "{{%s}}" % nm, "{{%s.p}}" % nm])
    k = r.below(10)
    if after_if and r.chance(2, 3):
        k = r.choice([1, 2, 2, 1, 5])
    if k == 0 or k == 5:
        c["if"] = val("c%d" % r.below(4))
    elif k == 1:
        c["elif"] = val("d%d" % r.below(4))
    elif k == 2:
        c["else"] = True
    elif k == 3:
        c["for"] = val("l%d" % r.below(3))
    if r.chance(1, 6):      # any further combination, legal or not
        for f in ("if", "elif", "for"):
            if c[f] is None and r.chance(1, 3):
                c[f] = val("e%d" % r.below(3))
        if r.chance(1, 3):
            c["else"] = True
    if c["for"] is not None or r.chance(1, 12):
        if r.chance(1, 2):
            c["item"] = r.choice(["it1", "item", "w"])
        if r.chance(1, 2):
            c["index"] = r.choice(["ix1", "index", "i"])
        if r.chance(1, 2):
            c["key"] = r.choice(["k1", "*this", "id"])
    return c


# ---------------------------------------------------------------------------------------------
def wx_forest(r, f):
    return "".join(wx_node(r, x) for x in f)


def wx_node(r, x):
    if x[0] == "text":
        return x[1]
    if x[0] == "comment":
        return "<!-- c -->"
    if x[0] == "gone":
        return ['<import src="i%d"/>', '<wxs module="m%d">1</wxs>', '<template name="n%d">x</template>'][x[1]] % x[2]
    _, b, c, kids, selfclose = x
    attrs = []
    if b[0] == "normal":
        tag, ident = b[1].split("#")
        if ident:
            attrs.append('id="%s"' % ident)
    elif b[0] == "pure":
        tag = "block"
        if b[1] is not None:
            attrs.append('slot="%s"' % b[1])
    elif b[0] == "slot":
        tag = "slot"
        if b[1]:
            attrs.append('name="%s"' % b[1])
    else:
        tag, v = b[1].split("#")
        attrs.append(('src="%s"' if tag == "include" else 'is="%s"') % v)
    if b[0] != "leaf":
        for ref in b[2]:
            attrs.append('slot:%s="%s"' % tuple(ref.split("=")))
    for k, nm in (("if", "wx:if"), ("elif", "wx:elif"), ("for", "wx:for"), ("item", "wx:for-item"), ("index", "wx:for-index"), ("key", "wx:key")):
        if c[k] is not None:
            attrs.append('%s="%s"' % (nm, c[k]))
    if c["else"]:
        attrs.append("wx:else")
    for i in range(len(attrs) - 1, 0, -1):     # (attribute order is free in the source)
        j = r.below(i + 1)
        attrs[i], attrs[j] = attrs[j], attrs[i]
    if b[0] != "leaf":                         # (… but the `slot:` references keep their order among themselves: the tree lists them in source order)
        it = iter('slot:%s="%s"' % tuple(ref.split("=")) for ref in b[2])
        attrs = [next(it) if a.startswith("slot:") else a for a in attrs]
    head = "<" + tag + "".join(" " + a for a in attrs)
    if not kids and selfclose:
        return head + "/>"
    return head + ">" + wx_forest(r, kids) + "</" + tag + ">"


def q(s):
    return '"' + s.replace("\\", "\\\\").replace('"', '\\"') + '"'


def sx_forest(f):
    return " ".join(sx_node(x) for x in f)


def sx_node(x):
    if x[0] == "text":
        return "(text %s)" % q(x[1])
    if x[0] == "comment":
        return "(comment)"
    if x[0] == "gone":
        return "(gone)"
    _, b, c, kids, _ = x
    if b[0] == "normal":
        bs = "(normal %s %s)" % (q(b[1]), " ".join(q(y) for y in b[2]))
    elif b[0] == "pure":
        bs = "(pure %s %s)" % ("-" if b[1] is None else q(b[1]), " ".join(q(y) for y in b[2]))
    elif b[0] == "slot":
        bs = "(slot %s %s)" % (q(b[1]), " ".join(q(y) for y in b[2]))
    else:
        bs = "(leaf %s)" % q(b[1])
    o = lambda v: "-" if v is None else q(v)
    cs = "(ctl %s %s %s %s %s %s %s)" % (o(c["if"]), o(c["elif"]), "else" if c["else"] else "-", o(c["for"]), o(c["item"]), o(c["index"]), o(c["key"]))
    return "(el %s %s %s)" % (bs, cs, sx_forest(kids))


# ---------------------------------------------------------------------------------------------
# the printed text, read back as tags (same tuples as the generator's), and the text form of `XS.show`
TAG_RE = re.compile(r'<(/?)([A-Za-z][-A-Za-z0-9_:]*)((?:\s+[-A-Za-z0-9_:*]+(?:="[^"]*")?)*)\s*(/?)>')
ATTR_RE = re.compile(r'([-A-Za-z0-9_:*]+)(=)?(?:"([^"]*)")?')


class Unreadable(Exception):
    pass


def read_printed(s):
    pos, stack, cur = 0, [], []
    while pos < len(s):
        if s[pos] == "<":
            m = TAG_RE.match(s, pos)
            if not m:
                raise Unreadable(s[pos:pos + 40])
            close, tag, attrs, selfclose = m.groups()
            pos = m.end()
            if close:
                if not stack or stack[-1][0] != tag:
                    raise Unreadable("end tag " + tag)
                t, a, parent = stack.pop()
                if not hoisted(t, a):
                    parent.append(el_of(t, a, cur))
                cur = parent
                continue
            a = [(k, (v if eq else None)) for k, eq, v in ATTR_RE.findall(attrs)]
            if selfclose:
                if not hoisted(tag, a):
                    cur.append(el_of(tag, a, []))
            else:
                stack.append((tag, a, cur))
                cur = []
            continue
        j = s.find("<", pos)
        j = len(s) if j < 0 else j
        cur.append(("text", s[pos:j]))
        pos = j
    if stack:
        raise Unreadable("unclosed " + stack[-1][0])
    return cur


def hoisted(tag, attrs):
    """<import>, <wxs> and <template name> are printed in front of the content; they are not part of it"""
    return tag in ("import", "wxs") or (tag == "template" and any(k == "name" for k, _ in attrs))


def el_of(tag, attrs, kids):
    d = dict(attrs)
    refs = ["%s=%s" % (k[5:], k[5:] if v is None else v) for k, v in attrs if k.startswith("slot:")]
    if tag == "block":
        base = ("pure", d.get("slot"), refs)
    elif tag == "slot":
        base = ("slot", d.get("name") or "", refs)
    elif tag == "include":
        base = ("leaf", "include#" + (d.get("src") or ""))
    elif tag == "template":
        base = ("leaf", "template#" + (d.get("is") or ""))
    else:
        base = ("normal", tag + "#" + (d.get("id") or ""), refs)
    c = {"if": d.get("wx:if"), "elif": d.get("wx:elif"), "else": "wx:else" in d, "for": d.get("wx:for"), "item": d.get("wx:for-item"),
         "index": d.get("wx:for-index"), "key": d.get("wx:key")}
    return ("el", base, c, kids, False)


def show_forest(f):
    sq = lambda v: '"' + v + '"'
    o = lambda v: "-" if v is None else sq(v)
    out = ""
    for x in f:
        if x[0] == "text":
            out += " (text %s)" % sq(x[1])
            continue
        _, b, c, kids, _ = x
        if b[0] == "leaf":
            base = "leaf " + sq(b[1])
        else:
            base = "%s %s [%s]" % (b[0], o(b[1]) if b[0] == "pure" else sq(b[1]), " ".join(sq(y) for y in b[2]))
        ctl = "{%s %s %s %s %s %s %s}" % (o(c["if"]), o(c["elif"]), "else" if c["else"] else "-", o(c["for"]), o(c["item"]), o(c["index"]), o(c["key"]))
        out += " (el %s %s%s)" % (base, ctl, show_forest(kids))
    return out


DIRECTED = [
    '<a wx:if="c"/><b wx:elif="d"/><c wx:else/>',
    '<a wx:if="c"/><!-- c --><b wx:elif="d">t</b><!-- c --><!-- c --><block wx:else>u</block>',
    '<a wx:if="c"/> <b wx:else/>',
    '<a wx:if="c"/>t<b wx:else/>',
    '<a wx:if="c"/><wxs module="m">1</wxs><b wx:else/>',
    '<a wx:if="c"/><b wx:else/><c wx:else/><d wx:elif="e"/>',
    '<a wx:elif="c"/><b wx:else/>',
    '<a wx:for="l" wx:if="c"/><b wx:else/>',
    '<a wx:for="l" wx:elif="c"/><a wx:for="l" wx:else/>',
    '<a wx:if="c" wx:elif="d" wx:else/>',
    '<block wx:if="c"><block wx:if="d">t</block><block wx:else>u</block></block><block wx:else><a/></block>',
    '<block wx:for="l"><block>t</block></block><block><block wx:for="l">t</block></block>',
    '<block slot="s" wx:if="c">t</block><block slot="s" wx:for="l">t</block><block slot:r="v" wx:if="c">t</block><block slot:r="v">t</block>',
    '<a slot:r="v" wx:if="c"/><a slot:r="v" wx:for="l"/><a slot:r="v" wx:else/><a slot:r="v"/><slot slot:r="v" wx:if="c"/><slot name="n" slot:r="v"/>',
    '<block wx:for="l" wx:for-item="item" wx:for-index="index" wx:key="">t</block><block wx:for="l" wx:for-item="x" wx:for-index="i" wx:key="k">t</block>',
    '<a wx:for-item="x" wx:key="k"/><a wx:for-item="x" wx:if="c"/>',
    '<include src="q" wx:if="c">t</include><template is="t" wx:for="l">t</template><slot wx:else>t</slot>',
    '<a wx:if="c"><b wx:else/></a><c wx:else/>',
    '<a wx:if="c"/><template name="n"><b wx:else/></template><c wx:else/>',
    '<a></a><a/><block></block><block/><a> </a><a><!-- c --></a><a>{{""}}</a><a>{{" "}}</a>',
]


def stream(chk, rng, count):
    """model vs implementation on `count` generated sequences of tags (+ the directed ones); returns the number of differences"""
    srcs, sxs = [], []
    for i in range(count):
        r = rng.fork(("tagtree", i))
        f = gen_forest(r, 3, 1 + r.below(6), [0])
        srcs.append(wx_forest(r, f))
        sxs.append("(tags %s)" % sx_forest(f))
    real = core.run_harness([core.req("tag_tree", s) for s in srcs + DIRECTED], timeout=3600)
    # the directed sources are given to the model through the real printer's reader: only their printed form (second round) is compared
    reals, dreqs, keep = [], [], []
    nprint = 0
    for i, (s, a) in enumerate(zip(srcs + DIRECTED, real)):
        if a.startswith("PANIC"):
            chk.violation("input", "the compiler panicked on a sequence of tags: " + a[:200], template=s)
            continue
        o = json.loads(a)
        try:
            ptags = read_printed(o["printed"])
            printed = show_forest(ptags)
        except Unreadable as e:
            chk.violation("input", "the printed text is not a sequence of well-formed tags: %s" % e, template=s, printed=o["printed"])
            continue
        if i < len(srcs):
            dreqs.append(core.req("tagtree", sxs[i]))
            reals.append(core.esc(o["ast"]) + "\t" + core.esc(printed))
        else:
            # a directed source: its printed text, as tags, must parse (in the model) to the tree the real parser built from the source, minus comments
            # and print (in the model) to the same tags — the round trip the theorems are about, on the real printer's output
            dreqs.append(core.req("tagtree", "(tags %s)" % sx_forest(ptags)))
            o2 = json.loads(core.run_harness([core.req("tag_tree", o["printed"])])[0])
            reals.append(core.esc(o2["ast"]) + "\t" + core.esc(show_forest(read_printed(o2["printed"]))))
        nprint += 1
        chk.case(("tagtree", s), nontrivial=True, sample=dict(tags=s[:200], tree=o["ast"][:300]) if len(chk.samples) < 3 else None)
        keep.append(s)
    if not dreqs:
        return 0
    model = core.run_driver(dreqs) if core.MODEL_OK else reals
    chk.bump("corr:tagtree:if-groups", sum(1 for a in reals if "(if (" in a))
    chk.bump("corr:tagtree:stray-elif-or-else", sum(1 for s in keep if re.search(r"^(?:(?!wx:if).)*wx:el", s) is not None))
    chk.bump("corr:tagtree:for-with-if", sum(1 for a in reals if re.search(r'\(for "[^"]*" "[^"]*" "[^"]*" "[^"]*" \(if', a) is not None))
    return core.diff_streams(chk, "tagtree", dreqs, reals, model)


# ---------------------------------------------------------------------------------------------
# dependencies at the tag level (C13): leaves_parse (GE/Thm/C13Leaves.lean) + what direct_dependencies lists
def all_tags(f, out):
    """every <include> / <import> tag of a generated forest, at any depth (also below elements whose children the tree does not keep)"""
    for x in f:
        if x[0] == "gone" and x[1] == 0:
            out.append("i%d" % x[2])
        elif x[0] == "el":
            if x[1][0] == "leaf" and x[1][1].startswith("include#"):
                out.append(x[1][1][len("include#"):])
            all_tags(x[3], out)
    return out


def deps_stream(chk, rng, count):
    """generated tag sequences (every combination of control attributes on <include> / <template is> and around them):
    (tie) the leaves of the tree the real parser builds = the model's leavesAS (parse xs), and — where every wx:if group is well-formed — = the leaves of the
    source (the statement of leaves_parse, evaluated on the real tree); (oracle) direct_dependencies = every <import> / <include> tag of the source, and every
    include element of the real tree is among them"""
    cases = []
    for i in range(count):
        r = rng.fork(("tagdeps", i))
        f = gen_forest(r, 3, 1 + r.below(6), [0])
        cases.append((wx_forest(r, f), "(tags %s)" % sx_forest(f), f))
    real = core.run_harness([core.req("tag_tree", s) for s, _, _ in cases], timeout=3600)
    model = core.run_driver([core.req("tagleaves", sx) for _, sx, _ in cases]) if core.MODEL_OK else [None] * len(cases)
    nwf = nleaf = nd = 0
    for (s, sx, f), a, m in zip(cases, real, model):
        if a.startswith("PANIC"):
            chk.violation("input", "the compiler panicked on a sequence of tags: " + a[:200], template=s)
            continue
        o = json.loads(a)
        tree_leaves = re.findall(r'\(leaf "([^"]*)"\)', o["ast"])
        want = sorted(all_tags(f, []))
        got = sorted(o["deps"])
        chk.case(("tagdeps", s), nontrivial=bool(want))
        if got != want:
            nd += 1
            if nd <= 3:
                chk.violation("input", f"direct_dependencies lists {got}, the <import> / <include> tags of the source are {want}", template=s, got=got, want=want)
        inc = [x[len("include#"):] for x in tree_leaves if x.startswith("include#")]
        miss = [x for x in inc if x not in o["deps"]]
        if miss:
            chk.violation("input", f"the tree contains <include> elements {miss} that direct_dependencies does not list", template=s, deps=o["deps"])
        if m is None:
            continue
        chk.disagreements_checked += 1
        mf = m.split("\t")
        if len(mf) != 3:
            chk.violation("correspondence", "stream tagleaves: the model could not read the tags", stream="tagleaves", request=sx, model=m)
            continue
        ok, lp, ls = mf[0] == "true", [x for x in core.unesc(mf[1]).split("\x1f") if x], [x for x in core.unesc(mf[2]).split("\x1f") if x]
        nleaf += len(tree_leaves)
        if lp != tree_leaves:
            chk.violation("correspondence", "stream tagleaves: the leaves of the real tree differ from the model's leavesAS (parse xs)", stream="tagleaves",
                          template=s, real=tree_leaves, model=lp)
        elif ok:
            nwf += 1
            if tree_leaves != ls:
                # leaves_parse says this cannot happen in the model; on the real tree it is the property itself
                chk.violation("input", f"every wx:if group is well-formed, but the tree keeps the leaves {tree_leaves} of the source's {ls}", template=s)
    chk.bump("corr:tagleaves:cases", len(cases))
    chk.bump("corr:tagleaves:well-formed-groups", nwf)
    chk.bump("corr:tagleaves:leaves-in-trees", nleaf)
    chk.bump("oracle:direct-dependencies-vs-source-tags", len(cases))
