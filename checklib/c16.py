"""C16 — recorded source positions point at the text they describe (DESIGN.md §9 C16)."""
import html.entities, json, re
from . import core, tmplgen as tg, exprgen as eg

THEOREMS = [
    "GE.Pos.skipBytes_eq_advance",
    "GE.Pos.advance_spec",
    "GE.Pos.advance_lt",
    "GE.Pos.posOf_injective_on_prefixes",
    "GE.Pos.step_lt",
    "GE.C15.position_shapes",
    "GE.C15.try_parse_restores",
]
TABLE = {k[:-1]: v for k, v in html.entities.html5.items() if k.endswith(";")}
WARN = 2


class Src:
    """line / UTF-16 column <-> string index"""

    def __init__(self, s):
        self.s = s
        self.lines = s.split("\n")
        self.starts = [0]
        for l in self.lines[:-1]:
            self.starts.append(self.starts[-1] + len(l) + 1)

    def index(self, pos):
        l, c = pos
        if l >= len(self.lines):
            return None
        u = 0
        line = self.lines[l]
        if c == 0:
            return self.starts[l]
        for i, ch in enumerate(line):
            u += 2 if ord(ch) > 0xFFFF else 1
            if u == c:
                return self.starts[l] + i + 1
            if u > c:
                return None
        return None

    def slice(self, a, b):
        i, j = self.index(a), self.index(b)
        if i is None or j is None or i > j:
            return None
        return self.s[i:j]


def camel(s):
    o, up = [], False
    for c in s:
        if c == "-":
            up = True
        elif up:
            up = False
            o.append(c.upper() if "a" <= c <= "z" else c)
        else:
            o.append(c)
    return "".join(o)


def decode_entities(s):
    """python port of parse_next_entity (letters/digits names, &#..; &#x..;), references from the WHATWG table"""
    out, i, n = [], 0, len(s)
    while i < n:
        if s[i] != "&":
            out.append(s[i]); i += 1
            continue
        m = re.match(r"&#x([0-9a-fA-F]*);", s[i:])
        if m:
            if m.group(1):
                v = int(m.group(1), 16)
                if v < 0x110000 and not (0xD800 <= v < 0xE000) and len(m.group(1)) <= 8:
                    out.append(chr(v)); i += m.end()
                    continue
            out.append("&"); i += 1
            continue
        m = re.match(r"&#([0-9]+);", s[i:])
        if m:
            v = int(m.group(1))
            if v < 0x110000 and not (0xD800 <= v < 0xE000):
                out.append(chr(v)); i += m.end()
                continue
            out.append("&"); i += 1
            continue
        m = re.match(r"&([A-Za-z][A-Za-z0-9]*);", s[i:])
        if m and m.group(1) in TABLE:
            out.append(TABLE[m.group(1)]); i += m.end()
            continue
        out.append("&"); i += 1
    return "".join(out)


def js_number(text):
    t = text.strip()
    try:
        if re.fullmatch(r"0[xX][0-9a-fA-F]+", t):
            return float(int(t, 16))
        if re.fullmatch(r"0[0-7]+", t):
            return float(int(t, 8))
        return float(t)
    except (ValueError, OverflowError):
        return None


def check_record(src, r):
    """None if the record's range covers what it should; otherwise a description"""
    text = src.slice(r["start"], r["end"])
    if text is None:
        return "range does not lie on character boundaries inside the source"
    if r.get("synthetic"):
        return None
    sp = r.get("spelling")
    if r["exact"]:
        if sp is not None and text != sp:
            return f"covers {text!r}, the node is {sp!r}"
        return None
    tr = r.get("transform")
    if tr is None or sp is None:
        return None
    if tr == "entity_decode":
        if decode_entities(text) != sp:
            return f"covers {text!r}, which decodes to {decode_entities(text)!r}, the node holds {sp!r}"
    elif tr.startswith("entity_decode+strip_suffix"):
        suf = tr[tr.index("(") + 1:-1]
        d = decode_entities(text)
        if d != sp and not (d.endswith(suf) and d[:-len(suf)] == sp):
            return f"covers {text!r}, the node holds {sp!r}"
    elif tr == "dash_to_camel":
        if camel(text) != sp:
            return f"covers {text!r}, the node holds {sp!r}"
    elif tr == "data_hyphen":
        if not text.startswith("data-") or camel(text[5:].lower()) != sp:
            return f"covers {text!r}, the node holds {sp!r}"
    elif tr == "js_string_literal":
        if len(text) < 2 or text[0] not in "\"'" or text[-1] != text[0]:
            return f"covers {text!r}, not a quoted string"
    elif tr == "js_number_literal":
        a, b = js_number(text), js_number(sp)
        if a is None or b is None or (a != b and not (a != a and b != b)):
            return f"covers {text!r}, the node holds the number {sp}"
    elif tr.startswith("comment"):
        if text != "<!--" + sp + "-->":
            return f"covers {text!r}, the comment is {sp!r}"
    return None


def le(a, b):
    return tuple(a) <= tuple(b)


def decorate(rng, s):
    """random line breaks, multi-byte and astral characters before and between tokens (as text and comments)"""
    pre = rng.choice(["", "\n", "😀\n", "é中\n\n", "<!-- 😀 -->\n", "𝒳 ", "\r\n", "text😀&amp;\n", "<!-- note\n 😀 -->", "R&D\n😀 ",
                      "<!--\n\n𝒳😀--> ", "{{ /* c\n😀 */ 1 }}", "<wxs module=\"zz\">// 😀\nexports.a = 1 // 😀\n/* 😀 */</wxs>"])
    return pre + s


def gen_sources(rng, n):
    out = []
    for i in range(n):
        r = rng.fork(("t", i))
        g = tg.TmplGen(r, max_depth=3)
        s = tg.Printer(r.fork("p"), vary=True).template(g.template())
        out.append(decorate(r, s))
    # expressions in every printing mode, on several lines
    for i, t in enumerate(eg.enum_depth2()[::7]):
        r = rng.fork(("e", i))
        try:
            e = eg.src(tg.requote(t, "'"), r.choice(["min", "full", "rand"]), r)
        except Exception:
            continue
        if '"' in e:
            continue
        out.append(decorate(r, '<v\n title="{{ %s }}"\tdata-k="😀">é{{ %s }}😀</v>' % (e, e)))
        # a binding followed by static text: the text is a literal of its own
        out.append(decorate(r, '<v title="{{ %s }}q&amp;" data-k="{{ %s }}{{ %s }}z">{{ %s }}t&lt;😀</v>' % (e, e, e, e)))
    # blanks, line breaks and comments between the tokens of member / call / index chains and literals (each token's location is its own text)
    for e in ["x. y", "x .y", "x . y .z", "p.\n q", "a./* c */b", "a/* c */.b", "a[ 0 ] . b ( c , d )", "a .\n\tb\n. c", "f ( a ) [ 'k' ] .\nm", "{ a : 1 , b }. a",
              "[ 1 , , 2 ] [ 0 ]", "x ?. y", "a ? b . c : d .\n e", "! a . b", "typeof\na . b", "a.b ?? c .\nd"]:
        out.append(decorate(rng.fork(("chain", e)), '<v title="{{ %s }}">{{ %s }}t</v>' % (e, e)))
    for e in ["x + 's'", "'s' + x", "x + ''", "a + b + 't'", "x + 's' + 't'", "(x + 's')", "f(x) + '&'"]:
        out.append(decorate(rng.fork(("lit", e)), '<v title="{{ %s }}q&amp;" data-k="{{ %s }}{{ %s }}z">{{ %s }}t&lt;😀</v>' % (e, e, e, e)))
    return out


def run(chk):
    quick = chk.tier != "thorough"
    chk.rule = ("generated templates in varied concrete syntax with line breaks, multi-byte and astral characters before and between tokens, and every "
                "operator pair of the expression grammar on several lines: (1) every located node of the public AST: the source slice at its location "
                "is its spelling (exactly for names / punctuation / keywords, through the documented decoding for entity text, camel-cased names, "
                "literals), children lie inside their parent, sibling nodes are disjoint and in source order; (2) the re-printing source map: every "
                "token's source position starts the construct it was printed from and its name is the source spelling there, output positions "
                "non-decreasing and on the printed token; (model) next / skip_whitespace / skip_bytes vs the Lean position model on random step sequences")
    chk.trusted = ["Lean 4.33 kernel", "axioms ⊆ {propext, Classical.choice, Quot.sound}", "extractor of the position-update code shapes",
                   "GE/Model/Position.lean tied to ParseState by differential runs through a cfg hook",
                   "harness/src/astdump.rs: the walk over the public AST that lists every stored location with the spelling it should cover"]
    chk.assumptions = ["PARTIAL: proved = all position bookkeeping paths agree and compute (line feeds, UTF-16 length of the last line) of the consumed prefix; "
                       "positions are strictly monotone, so a stored location determines one source slice. That each parser routine records the position "
                       "at the right moment (the start and the end of the node it reads) is established by the oracle only",
                       "only templates parsed without a diagnostic at Warn or above are judged (property premise)"]
    chk.model_tie([("GE.Thm.C16Pos", THEOREMS[:5]), ("GE.Thm.C15", THEOREMS[5:])])
    rng = chk.rng.fork("c16")
    # ---- (model) position bookkeeping ----------------------------------------------------------------------
    alpha = ["a", " ", "\n", "\t", "\r", "é", "中", "😀", "𝒳", "\n\n", "  ", "x=\"1\""]
    reqs = []
    for i in range(2000 if quick else 40000):
        s = "".join(rng.choice(alpha) for _ in range(rng.below(14)))
        b = s.encode("utf-8")
        steps, pos = [], 0
        while pos < len(b) and len(steps) < 12:
            c = rng.below(4)
            if c == 0:
                steps.append("0")
                ch = s.encode("utf-8")[pos:].decode("utf-8")[0]
                pos += len(ch.encode("utf-8"))
            elif c == 1:
                steps.append("w")
                rest = b[pos:].decode("utf-8")
                k = 0
                while k < len(rest) and rest[k] in " \t\n\r\x0b\x0c":
                    k += 1
                pos += len(rest[:k].encode("utf-8"))
            else:
                rest = b[pos:].decode("utf-8")
                k = 1 + rng.below(max(1, min(5, len(rest))))
                nb = len(rest[:k].encode("utf-8"))
                steps.append(str(nb))
                pos += nb
        if steps:
            reqs.append(core.req("positions", s, ",".join(steps)))
    core.diff_streams(chk, "positions", reqs, core.run_harness(reqs), core.run_driver(reqs))
    # ---- oracle: AST locations ---------------------------------------------------------------------------------
    srcs = gen_sources(rng, 300 if quick else 6000)
    answers = core.run_harness([core.req("ast_locs", s) for s in srcs], timeout=3600)
    nb = 0
    judged = 0
    for s, a in zip(srcs, answers):
        if a.startswith("PANIC"):
            chk.violation("input", f"parser panicked: {a[:200]}", template=s[:3000])
            continue
        o = json.loads(a)
        if any(w[1] >= WARN for w in o["warnings"]):
            chk.bump("oracle:skipped-has-diagnostics")
            continue
        judged += 1
        src = Src(s)
        nodes = o["nodes"]
        by_id = {r["id"]: r for r in nodes}
        chk.case(("ast", s), nontrivial=len(nodes) > 5)
        for r in nodes:
            if not le(r["start"], r["end"]):
                p = "start after end"
            else:
                p = check_record(src, r)
            if p is None and r.get("parent") is not None and not r.get("synthetic"):
                pa = by_id[r["parent"]]
                if not pa.get("synthetic") and not (le(pa["start"], r["start"]) and le(r["end"], pa["end"])):
                    p = f"lies outside its parent {pa['kind']} ({pa['start']}-{pa['end']})"
            if p is not None:
                nb += 1
                if nb <= 6:
                    chk.violation("input", f"{r['kind']} ({r['field']}) at {r['start']}-{r['end']}: {p}", template=s[:3000], record=r)
        # sibling nodes (elements / texts of one parent): disjoint and in source order
        kids = {}
        for r in nodes:
            if (r["kind"].startswith("Element.") or r["field"].startswith("Node.Text")) and not r.get("synthetic"):
                kids.setdefault(r.get("parent"), []).append(r)
        for pid, ks in kids.items():
            for x, y in zip(ks, ks[1:]):
                if x["kind"].startswith("Element.") and y["kind"].startswith("Element.") and x["start"] == y["start"]:
                    continue     # for / if wrappers of one written element share its range
                if not le(x["end"], y["start"]):
                    nb += 1
                    if nb <= 6:
                        chk.violation("input", f"sibling nodes out of source order: {x['kind']} {x['start']}-{x['end']} then {y['kind']} {y['start']}-{y['end']}",
                                      template=s[:3000], record=y)
    chk.bump("oracle:templates-judged", judged)
    # ---- oracle: source map of the re-printed text --------------------------------------------------------------
    outs = core.run_harness([core.req("strmap", s, "0") for s in srcs], timeout=3600)
    nm = 0
    for s, a in zip(srcs, outs):
        if a.startswith("PANIC"):
            chk.violation("input", f"stringifier panicked: {a[:200]}", template=s[:3000])
            continue
        o = json.loads(a)
        src, dst = Src(s), Src(o["output"])
        prev = (0, 0)
        chk.case(("map", s), nontrivial=len(o["tokens"]) > 3)
        for t in o["tokens"]:
            dl, dc, sl, sc, name = t
            p = None
            if (dl, dc) < prev:
                p = "output positions decrease"
            prev = (dl, dc)
            si, di = src.index((sl, sc)), dst.index((dl, dc))
            if p is None and si is None:
                p = f"source position {sl}:{sc} is not a character position of the source"
            if p is None and di is None:
                p = f"output position {dl}:{dc} is not a character position of the output"
            if p is None and name is not None:
                # the name is the source spelling: the source continues with it (camel-cased / decoded names continue with their source form)
                tail = s[si:si + len(name) + 24]
                if not (tail.startswith(name) or camel(tail).startswith(name) or decode_entities(tail).startswith(name)
                        or camel(tail[5:].lower()).startswith(name)):
                    p = f"name {name!r} but the source at {sl}:{sc} reads {tail[:20]!r}"
            if p is None and name is None and di < len(o["output"]) and si < len(s) and \
                    (o["output"][di] in "[].:?" or o["output"][di:di + 2] in ("{{", "}}")):
                # structural punctuation is copied: the source position must show the same character
                if s[si] != o["output"][di]:
                    p = f"the printed {o['output'][di:di + 2]!r} is mapped to source {sl}:{sc}, which reads {s[si:si + 6]!r}"
            if p is not None:
                nm += 1
                if nm <= 6:
                    chk.violation("input", f"source-map token {t}: {p}", template=s[:3000], printed=o["output"][:3000], token=t)
    chk.programs = len(srcs)
    chk.bump("oracle:bad-records", nb)
    chk.bump("oracle:bad-map-tokens", nm)


def replay(chk, path):
    o = json.load(open(path))["first"]
    if "template" in o:
        a = json.loads(core.run_harness([core.req("ast_locs", o["template"])])[0])
        src = Src(o["template"])
        for r in a["nodes"]:
            p = check_record(src, r)
            if p:
                print(r["kind"], r["field"], r["start"], r["end"], p)
    return chk.finish()
