/-!
Specification: how ECMAScript (ES2023 §12.9.4) reads a double-quoted string literal, in strict and
in sloppy mode.  Written from the standard, independent of the generator.  The result is the
sequence of code points (`none` = SyntaxError, or an escape that denotes a lone surrogate, which
the generator must never need).
-/
namespace GE.Spec.JsString

def hexVal (c : Char) : Option Nat :=
  if '0' ≤ c ∧ c ≤ '9' then some (c.toNat - 48)
  else if 'a' ≤ c ∧ c ≤ 'f' then some (c.toNat - 87)
  else if 'A' ≤ c ∧ c ≤ 'F' then some (c.toNat - 55)
  else none

def isLineTerminator (c : Char) : Bool :=
  c = '\n' || c = '\r' || c.toNat = 0x2028 || c.toNat = 0x2029

def isOctal (c : Char) : Bool := '0' ≤ c && c ≤ '7'
def isDecimal (c : Char) : Bool := '0' ≤ c && c ≤ '9'

def scalar (v : Nat) : Option Char :=
  if v < 0xD800 ∨ (0xE000 ≤ v ∧ v < 0x110000) then some (Char.ofNat v) else none

/-- hex digits up to `}` (at least one), value ≤ 0x10FFFF; returns value and number of chars consumed (incl. `}`) -/
def readBraced : List Char → Nat → Nat → Option (Nat × Nat)
  | [], _, _ => none
  | c :: cs, v, n =>
    if c = '}' then (if 0 < n then some (v, n + 1) else none)
    else match hexVal c with
      | some d => if v * 16 + d < 0x110000 then readBraced cs (v * 16 + d) (n + 1) else none
      | none => none

def octVal (c : Char) : Nat := c.toNat - 48

/-- One escape sequence, given the text after the backslash.  Returns the denoted code point
(`none` for a line continuation) and the number of characters consumed after the backslash. -/
def decEsc (strict : Bool) : List Char → Option (Option Char × Nat)
  | [] => none
  | c :: r =>
    if c = 'n' then some (some '\n', 1)
    else if c = 'r' then some (some '\r', 1)
    else if c = 't' then some (some '\t', 1)
    else if c = 'b' then some (some (Char.ofNat 8), 1)
    else if c = 'f' then some (some (Char.ofNat 12), 1)
    else if c = 'v' then some (some (Char.ofNat 11), 1)
    else if c = 'x' then
      match r with
      | a :: b :: _ =>
        match hexVal a, hexVal b with
        | some x, some y => some (some (Char.ofNat (x * 16 + y)), 3)
        | _, _ => none
      | _ => none
    else if c = 'u' then
      match r with
      | '{' :: r' =>
        match readBraced r' 0 0 with
        | some (v, n) => (scalar v).map (fun ch => (some ch, n + 2))
        | none => none
      | a :: b :: c' :: d :: _ =>
        match hexVal a, hexVal b, hexVal c', hexVal d with
        | some x, some y, some z, some w =>
          (scalar (((x * 16 + y) * 16 + z) * 16 + w)).map (fun ch => (some ch, 5))
        | _, _, _, _ => none
      | _ => none
    else if c = '\r' then
      match r with
      | '\n' :: _ => some (none, 2)
      | _ => some (none, 1)
    else if isLineTerminator c then some (none, 1)
    else if isDecimal c then
      -- `\0` not followed by a digit is NUL in both modes; every other digit escape is a
      -- SyntaxError in strict code and a legacy octal / identity escape in sloppy code
      match r with
      | d :: r' =>
        if c = '0' ∧ ¬ isDecimal d then some (some (Char.ofNat 0), 1)
        else if strict then none
        else if ¬ isOctal c then some (some c, 1)          -- `\8`, `\9`
        else if ¬ isOctal d then some (some (Char.ofNat (octVal c)), 1)
        else if c ≤ '3' then
          match r' with
          | e :: _ =>
            if isOctal e then some (some (Char.ofNat ((octVal c * 8 + octVal d) * 8 + octVal e)), 3)
            else some (some (Char.ofNat (octVal c * 8 + octVal d)), 2)
          | [] => some (some (Char.ofNat (octVal c * 8 + octVal d)), 2)
        else some (some (Char.ofNat (octVal c * 8 + octVal d)), 2)
      | [] =>
        if c = '0' then some (some (Char.ofNat 0), 1)
        else if strict then none
        else if ¬ isOctal c then some (some c, 1)
        else some (some (Char.ofNat (octVal c)), 1)
    else some (some c, 1)  -- identity escape (incl. `\"`, `\\`, `\'`)

def consOpt (oc : Option Char) (l : List Char) : List Char :=
  match oc with
  | some c => c :: l
  | none => l

@[simp] theorem consOpt_some (c : Char) : consOpt (some c) = fun x => c :: x := rfl
@[simp] theorem consOpt_none : consOpt none = fun x => x := rfl

/-- The body of a double-quoted literal after the opening quote; the closing quote must be the
last character of the input. -/
def decBody (strict : Bool) (s : List Char) : Option (List Char) :=
  match s with
  | [] => none
  | c :: r =>
    if c = '"' then (if r = [] then some [] else none)
    else if c = '\\' then
      (decEsc strict r).bind (fun p => (decBody strict (r.drop p.2)).map (consOpt p.1))
    else if c = '\n' ∨ c = '\r' then none
    else (decBody strict r).map (c :: ·)
termination_by s.length
decreasing_by all_goals simp_wf; all_goals omega

theorem decBody_nil (strict : Bool) : decBody strict [] = none := by rw [decBody]

theorem decBody_cons (strict : Bool) (c : Char) (r : List Char) :
    decBody strict (c :: r) =
      if c = '"' then (if r = [] then some [] else none)
      else if c = '\\' then
        (decEsc strict r).bind (fun p => (decBody strict (r.drop p.2)).map (consOpt p.1))
      else if c = '\n' ∨ c = '\r' then none
      else (decBody strict r).map (c :: ·) := by
  rw [decBody]

/-- A whole double-quoted string literal. -/
def decode (strict : Bool) : List Char → Option (List Char)
  | '"' :: r => decBody strict r
  | _ => none

end GE.Spec.JsString
