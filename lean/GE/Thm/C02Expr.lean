import GE.Model.ExprGen
/-!
# C02 / C03 (structure) — the emitted expression text is read by JavaScript as the intended tree

For every expression tree, every allowed level and every counter value, the tokens the model of
`to_proc_gen_rec` emits derive — in the stratified ECMAScript grammar `GE.Spec.G` — exactly the
JavaScript tree the generator means (`Out.js`), and every hoisted `var $x=…` initialiser derives
its tree as an AssignmentExpression.  Hence parenthesisation is sufficient for every nesting of
every operator pair: precedence and associativity of the printed text are those of the tree.
The only facts used about the Rust tables are inequalities re-checked by `decide` on the tables
regenerated from the source (`GE.Extracted.ExprTables`).
-/
namespace GE.Gen
open GE.Spec GE.Extracted

/-! ## side conditions on the extracted tables -/

theorem paren_rule_ok : procGenParenRuleOk = true := by decide
theorem condLevel_eq : condLevel = 13 := by decide

/-- unary arms: spelling is the operator, operand allowed at most at unary level, own level ≥ unary -/
theorem unArm_ok : ∀ op ∈ allUnOps,
    spells (unArm op).1 (unText op) = true ∧ (unArm op).2 ≤ 2 ∧ 2 ≤ procGenLevelOfKind op.name := by
  decide

/-- binary arms (all but `??`, which is emitted as a conditional): the left operand is allowed at
most the operator's own ECMAScript level, the right operand strictly tighter, the spelling is the
operator, and the expression's own level is at least the operator's level. -/
theorem binArm_ok : ∀ op ∈ allBinOps, op ≠ .NullishCoalescing →
    spells (binArm op).2.1 (binText op) = true ∧ (binArm op).1 ≤ binLevel op ∧
    (binArm op).2.2 ≤ binLevel op - 1 ∧ binLevel op ≤ procGenLevelOfKind op.name := by
  decide

theorem lvl_member_kinds :
    1 ≤ procGenLevelOfKind "DataField" ∧ 1 ≤ procGenLevelOfKind "ToStringWithoutUndefined" ∧
    1 ≤ procGenLevelOfKind "LitObj" ∧ 1 ≤ procGenLevelOfKind "LitArr" ∧
    1 ≤ procGenLevelOfKind "StaticMember" ∧ 1 ≤ procGenLevelOfKind "DynamicMember" ∧
    1 ≤ procGenLevelOfKind "FuncCall" := by decide

theorem lvl_cond_kinds :
    13 ≤ procGenLevelOfKind "NullishCoalescing" ∧ 13 ≤ procGenLevelOfKind "Cond" := by decide

/-- the special arms are exactly the ones the model writes by hand -/
theorem special_arms_ok : specialArms =
    ["ScopeRef", "DataField", "ToStringWithoutUndefined", "LitUndefined", "LitNull", "LitStr",
     "LitInt", "LitFloat", "LitBool", "LitObj", "LitArr", "StaticMember", "DynamicMember",
     "FuncCall", "NullishCoalescing", "Cond"] := by decide

/-! ## helper relations for object / array literals with spreads -/

/-- tokens following the first `{…` segment of an object literal, and the `Object.assign`
arguments they denote -/
inductive ObjTail : JsList → List Tok → Prop
  | nil : ObjTail .nil []
  | spread {v tv seg tseg rest trest} : G 13 v tv → GFields seg tseg → ObjTail rest trest →
      ObjTail (.cons (callJs "X" v) (.cons (.obj seg) rest))
        (.p "}" :: .p "," :: .id "X" :: .p "(" :: (tv ++ .p ")" :: .p "," :: .p "{" :: (tseg ++ trest)))

inductive ArrTail : JsList → List Tok → Prop
  | nil : ArrTail .nil []
  | spread {v tv seg tseg rest trest} : G 13 v tv → GItems seg tseg → ArrTail rest trest →
      ArrTail (.cons v (.cons (.arr seg) rest))
        (.p "]" :: .p "," :: (tv ++ .p "," :: .p "[" :: (tseg ++ trest)))

theorem G_callX {v tv} (h : G 13 v tv) :
    G 13 (callJs "X" v) (.id "X" :: .p "(" :: (tv ++ [.p ")"])) := by
  have := G.call (f := .id "X") (args := .cons v .nil) ((G.id "X").mono (Nat.zero_le 1)) (GArgs.one h)
  exact (by simpa [callJs] using this : G 1 _ _).mono (by decide)

theorem G_call1 (f : String) {v tv} (h : G 13 v tv) :
    G 1 (callJs f v) (.id f :: .p "(" :: (tv ++ [.p ")"])) := by
  have := G.call (f := .id f) (args := .cons v .nil) ((G.id f).mono (Nat.zero_le 1)) (GArgs.one h)
  simpa [callJs] using this

theorem objTail_args {seg tseg rest trest} (hs : GFields seg tseg) (ht : ObjTail rest trest) :
    GArgs (.cons (.obj seg) rest) (.p "{" :: (tseg ++ trest ++ [.p "}"])) := by
  induction ht generalizing seg tseg with
  | nil =>
    simp only [List.append_nil]
    exact GArgs.one ((G.obj hs).mono (Nat.zero_le 13))
  | @spread v tv seg2 tseg2 rest2 trest2 hv hs2 _ ih =>
    have h2 := ih hs2
    have hx := G_callX hv
    have h3 := GArgs.more hx h2 (by simp)
    have h4 := GArgs.more ((G.obj hs).mono (Nat.zero_le 13)) h3 (by simp)
    simpa [List.append_assoc] using h4

theorem arrTail_args {seg tseg rest trest} (hs : GItems seg tseg) (ht : ArrTail rest trest) :
    GArgs (.cons (.arr seg) rest) (.p "[" :: (tseg ++ trest ++ [.p "]"])) := by
  induction ht generalizing seg tseg with
  | nil =>
    simp only [List.append_nil]
    exact GArgs.one ((G.arr hs).mono (Nat.zero_le 13))
  | @spread v tv seg2 tseg2 rest2 trest2 hv hs2 _ ih =>
    have h2 := ih hs2
    have h3 := GArgs.more hv h2 (by simp)
    have h4 := GArgs.more ((G.arr hs).mono (Nat.zero_le 13)) h3 (by simp)
    simpa [List.append_assoc] using h4

theorem GFields_nil_inv {ts} (h : GFields .nil ts) : ts = [] := by cases h; rfl
theorem GItems_nil_inv {ts} (h : GItems .nil ts) : ts = [] := by cases h; rfl

/-! ## the statements proved by mutual induction -/

def StmtsOk (ss : List Stmt) : Prop := ∀ s ∈ ss, G 13 s.js s.toks

theorem StmtsOk.append {a b} (ha : StmtsOk a) (hb : StmtsOk b) : StmtsOk (a ++ b) := by
  intro s hs; simp at hs; rcases hs with h | h
  · exact ha s h
  · exact hb s h

theorem StmtsOk.cons {s ss} (h : G 13 s.js s.toks) (hs : StmtsOk ss) : StmtsOk (s :: ss) := by
  intro x hx; simp at hx; rcases hx with rfl | hx
  · exact h
  · exact hs x hx

theorem StmtsOk.nil : StmtsOk [] := by intro s hs; simp at hs

def BodyOk (scopes : List ScopeInfo) (e : Expr) : Prop :=
  ∀ n, G (lvl e) (genBody scopes e n).js (genBody scopes e n).toks ∧ StmtsOk (genBody scopes e n).stmts

def GenOk (scopes : List ScopeInfo) (e : Expr) : Prop :=
  ∀ allow n, G allow (gen scopes e allow n).js (gen scopes e allow n).toks ∧
    StmtsOk (gen scopes e allow n).stmts

def ArgsOk (scopes : List ScopeInfo) (a : Exprs) : Prop :=
  ∀ n, GArgs (genArgs scopes a n).js (genArgs scopes a n).toks ∧ StmtsOk (genArgs scopes a n).stmts

def ObjOk (scopes : List ScopeInfo) (fs : ObjFields) : Prop :=
  ∀ n, (∃ tseg trest, (genObj scopes fs n).toks = tseg ++ trest ∧
      GFields (genObj scopes fs n).seg tseg ∧ ObjTail (genObj scopes fs n).rest trest ∧
      ((genObj scopes fs n).hasSpread = false → (genObj scopes fs n).rest = .nil) ∧
      (objNeedsComma fs = false → tseg = [] ∧ (genObj scopes fs n).seg = .nil) ∧
      (objNeedsComma fs = true → (genObj scopes fs n).seg ≠ .nil)) ∧
    StmtsOk (genObj scopes fs n).stmts

def ArrOk (scopes : List ScopeInfo) (fs : ArrFields) : Prop :=
  ∀ n, (∃ tseg trest, (genArr scopes fs n).toks = tseg ++ trest ∧
      GItems (genArr scopes fs n).seg tseg ∧ ArrTail (genArr scopes fs n).rest trest ∧
      ((genArr scopes fs n).hasSpread = false → (genArr scopes fs n).rest = .nil) ∧
      (arrNeedsComma fs = false → tseg = [] ∧ (genArr scopes fs n).seg = .nil) ∧
      (arrNeedsComma fs = true → (genArr scopes fs n).seg ≠ .nil)) ∧
    StmtsOk (genArr scopes fs n).stmts

theorem lvl_le (e : Expr) : lvl e ≤ 13 := by
  have hu : ∀ op : UnOp, procGenLevelOfKind op.name ≤ 13 := by intro op; cases op <;> decide
  have hb : ∀ op : BinOp, procGenLevelOfKind op.name ≤ 13 := by intro op; cases op <;> decide
  cases e <;> simp only [lvl, Expr.kind] <;> first | decide | exact hu _ | exact hb _

/-- the parenthesising rule turns a derivation at the expression's own level into one at any
allowed level -/
theorem gen_of_body {scopes e} (h : BodyOk scopes e) : GenOk scopes e := by
  intro allow n
  unfold gen
  split
  · refine ⟨?_, (h n).2⟩
    have hb := (h n).1
    have h13 : G 13 (genBody scopes e n).js (genBody scopes e n).toks := hb.mono (lvl_le e)
    exact (G.paren h13).mono (Nat.zero_le _)
  · rename_i hle
    exact ⟨(h n).1.mono (by omega), (h n).2⟩

/-! ## main induction -/

theorem G_cond13 {e ts} (h : G condLevel e ts) : G 13 e ts := by rw [← condLevel_eq]; exact h

mutual
theorem body_ok (scopes : List ScopeInfo) : ∀ e, BodyOk scopes e
  | .scope i => fun n => by simp only [genBody]; exact ⟨(G.id _).mono (Nat.zero_le _), StmtsOk.nil⟩
  | .data x => fun n => by
    simp only [genBody]
    refine ⟨?_, StmtsOk.nil⟩
    have h := G.member (n := x) ((G.id "D").mono (Nat.zero_le 1))
    exact (by simpa [genBody] using h : G 1 _ _).mono lvl_member_kinds.1
  | .toStr x => fun n => by
    simp only [genBody]
    have hx := gen_of_body (body_ok scopes x) condLevel n
    refine ⟨?_, hx.2⟩
    have h := G_call1 "Y" (G_cond13 hx.1)
    exact (by simpa [genBody] using h : G 1 _ _).mono lvl_member_kinds.2.1
  | .undef => fun n => by simp only [genBody]; exact ⟨(G.id _).mono (Nat.zero_le _), StmtsOk.nil⟩
  | .null => fun n => by simp only [genBody]; exact ⟨(G.id _).mono (Nat.zero_le _), StmtsOk.nil⟩
  | .str s => fun n => by simp only [genBody]; exact ⟨(G.str _).mono (Nat.zero_le _), StmtsOk.nil⟩
  | .int v => fun n => by simp only [genBody]; exact ⟨(G.num _).mono (Nat.zero_le _), StmtsOk.nil⟩
  | .float t => fun n => by
    simp only [genBody]
    refine ⟨?_, StmtsOk.nil⟩
    simp only [floatToks]
    split
    · exact (G.id _).mono (Nat.zero_le _)
    · exact (G.num _).mono (Nat.zero_le _)
  | .bool b => fun n => by simp only [genBody]; exact ⟨(G.id _).mono (Nat.zero_le _), StmtsOk.nil⟩
  | .obj fs => fun n => by
    obtain ⟨⟨tseg, trest, htoks, hseg, htail, hnos, _, _⟩, hst⟩ := obj_ok scopes fs n
    simp only [genBody]
    split
    · refine ⟨?_, hst⟩
      have hargs := objTail_args hseg htail
      have hm : G 1 (.member (.id "Object") "assign") [.id "Object", .p ".", .id "assign"] := by
        simpa using G.member (n := "assign") ((G.id "Object").mono (Nat.zero_le 1))
      have h := G.call hm hargs
      rw [htoks]
      exact (by simpa [List.append_assoc] using h : G 1 _ _).mono lvl_member_kinds.2.2.1
    · rename_i hns
      refine ⟨?_, hst⟩
      have hr := hnos (by simpa using hns)
      rw [hr] at htail
      cases htail
      rw [htoks]
      simp only [List.append_nil]
      exact (G.obj hseg).mono (Nat.zero_le _)
  | .arr fs => fun n => by
    obtain ⟨⟨tseg, trest, htoks, hseg, htail, hnos, _, _⟩, hst⟩ := arr_ok scopes fs n
    simp only [genBody]
    split
    · refine ⟨?_, hst⟩
      have hargs := arrTail_args hseg htail
      have hm : G 1 (.member (.arr .nil) "concat") [.p "[", .p "]", .p ".", .id "concat"] := by
        have h0 : G 0 (.arr .nil) [.p "[", .p "]"] := by simpa using G.arr GItems.nil
        simpa using G.member (n := "concat") (h0.mono (Nat.zero_le 1))
      have h := G.call hm hargs
      rw [htoks]
      exact (by simpa [List.append_assoc] using h : G 1 _ _).mono lvl_member_kinds.2.2.2.1
    · rename_i hns
      refine ⟨?_, hst⟩
      have hr := hnos (by simpa using hns)
      rw [hr] at htail
      cases htail
      rw [htoks]
      simp only [List.append_nil]
      exact (G.arr hseg).mono (Nat.zero_le _)
  | .smember o f => fun n => by
    simp only [genBody]
    have ho := gen_of_body (body_ok scopes o) condLevel n
    refine ⟨?_, ho.2⟩
    have h := G.member (n := f) (G_call1 "X" (G_cond13 ho.1))
    exact (by simpa [genBody, List.append_assoc] using h : G 1 _ _).mono lvl_member_kinds.2.2.2.2.1
  | .dmember o f => fun n => by
    simp only [genBody]
    have hf := gen_of_body (body_ok scopes f) condLevel (n + 1)
    have ho := gen_of_body (body_ok scopes o) condLevel (gen scopes f condLevel (n + 1)).next
    refine ⟨?_, StmtsOk.append hf.2 (StmtsOk.cons (G_cond13 hf.1) ho.2)⟩
    have h := G.index (G_call1 "X" (G_cond13 ho.1)) ((G.id (privName n)).mono (Nat.zero_le 13))
    exact (by simpa [genBody, List.append_assoc] using h : G 1 _ _).mono lvl_member_kinds.2.2.2.2.2.1
  | .call f args => fun n => by
    simp only [genBody]
    have hf := gen_of_body (body_ok scopes f) condLevel n
    have ha := args_ok scopes args (gen scopes f condLevel n).next
    refine ⟨?_, StmtsOk.append hf.2 ha.2⟩
    have h := G.call (G_call1 "P" (G_cond13 hf.1)) ha.1
    exact (by simpa [genBody, List.append_assoc] using h : G 1 _ _).mono lvl_member_kinds.2.2.2.2.2.2
  | .un op x => fun n => by
    simp only [genBody]
    have hx := gen_of_body (body_ok scopes x) (unArm op).2 n
    obtain ⟨hsp, hle, hlv⟩ := unArm_ok op (mem_allUnOps op)
    refine ⟨?_, hx.2⟩
    have h := G.un hsp (hx.1.mono hle)
    exact (by simpa [genBody] using h : G 2 _ _).mono hlv
  | .bin op x y => fun n => by
    simp only [genBody]
    split
    · rename_i hop
      subst hop
      have hx := gen_of_body (body_ok scopes x) condLevel (n + 1)
      have hy := gen_of_body (body_ok scopes y) condLevel (gen scopes x condLevel (n + 1)).next
      refine ⟨?_, StmtsOk.append hx.2 (StmtsOk.cons (G_cond13 hx.1) hy.2)⟩
      have hne : G 7 (.bin .Ne (.id (privName n)) (.id "null")) [.id (privName n), .p "!=", .id "null"] := by
        have := G.bin (op := .Ne) (sp := "!=") (by decide) (by decide)
          ((G.id (privName n)).mono (Nat.zero_le _)) ((G.id "null").mono (Nat.zero_le _))
        simpa [binLevel] using this
      have h := G.cond (hne.mono (by decide)) ((G.id (privName n)).mono (Nat.zero_le 13)) (G_cond13 hy.1)
      exact (by simpa using h : G 13 _ _).mono lvl_cond_kinds.1
    · rename_i hop
      have hx := gen_of_body (body_ok scopes x) (binArm op).1 n
      have hy := gen_of_body (body_ok scopes y) (binArm op).2.2 (gen scopes x (binArm op).1 n).next
      obtain ⟨hsp, hl, hr, hlv⟩ := binArm_ok op (mem_allBinOps op) hop
      refine ⟨?_, StmtsOk.append hx.2 hy.2⟩
      exact (G.bin hop hsp (hx.1.mono hl) (hy.1.mono hr)).mono hlv
  | .cond c t f => fun n => by
    simp only [genBody]
    have hc := gen_of_body (body_ok scopes c) condLevel (n + 1)
    have ht := gen_of_body (body_ok scopes t) condLevel (gen scopes c condLevel (n + 1)).next
    have hf := gen_of_body (body_ok scopes f) condLevel
      (gen scopes t condLevel (gen scopes c condLevel (n + 1)).next).next
    refine ⟨?_, StmtsOk.append hc.2 (StmtsOk.cons (G_cond13 hc.1) (StmtsOk.append ht.2 hf.2))⟩
    have h := G.cond ((G.id (privName n)).mono (Nat.zero_le 12)) (G_cond13 ht.1) (G_cond13 hf.1)
    exact (by simpa [genBody] using h : G 13 _ _).mono lvl_cond_kinds.2
theorem args_ok (scopes : List ScopeInfo) : ∀ a, ArgsOk scopes a
  | .nil => fun n => by simp only [genArgs]; exact ⟨GArgs.nil, StmtsOk.nil⟩
  | .cons e r => fun n => by
    have he := gen_of_body (body_ok scopes e) condLevel n
    have hr := args_ok scopes r (gen scopes e condLevel n).next
    simp only [genArgs]
    refine ⟨?_, StmtsOk.append he.2 hr.2⟩
    cases r with
    | nil =>
      have := GArgs.one (G_cond13 he.1)
      simpa [genArgs, argsNeedComma] using this
    | cons e2 r2 =>
      have hne : (genArgs scopes (.cons e2 r2) (gen scopes e condLevel n).next).js ≠ .nil := by
        simp [genArgs]
      have := GArgs.more (G_cond13 he.1) hr.1 hne
      simpa [argsNeedComma, List.append_assoc] using this
theorem obj_ok (scopes : List ScopeInfo) : ∀ fs, ObjOk scopes fs
  | .nil => fun n => by
    simp only [genObj]
    exact ⟨⟨[], [], by simp, GFields.nil, ObjTail.nil, by simp, by simp, by simp [objNeedsComma]⟩, StmtsOk.nil⟩
  | .named k sh v r => fun n => by
    have hv := gen_of_body (body_ok scopes v) condLevel n
    obtain ⟨⟨tseg, trest, htoks, hseg, htail, hnos, hnc, hc⟩, hst⟩ :=
      obj_ok scopes r (gen scopes v condLevel n).next
    simp only [genObj]
    refine ⟨?_, StmtsOk.append hv.2 hst⟩
    by_cases hcomma : objNeedsComma r = true
    · refine ⟨.id k :: .p ":" :: ((gen scopes v condLevel n).toks ++ .p "," :: tseg), trest, ?_, ?_, ?_, ?_, ?_, ?_⟩
      · simp [hcomma, htoks, List.append_assoc]
      · exact GFields.more (G_cond13 hv.1) hseg (hc hcomma)
      · exact htail
      · exact hnos
      · simp [objNeedsComma]
      · simp
    · have hcf : objNeedsComma r = false := by simpa using hcomma
      obtain ⟨ht0, hs0⟩ := hnc hcf
      refine ⟨.id k :: .p ":" :: (gen scopes v condLevel n).toks, trest, ?_, ?_, ?_, ?_, ?_, ?_⟩
      · simp [hcf, htoks, ht0]
      · rw [hs0]; exact GFields.one (k := k) (G_cond13 hv.1)
      · exact htail
      · exact hnos
      · simp [objNeedsComma]
      · simp
  | .spread v r => fun n => by
    have hv := gen_of_body (body_ok scopes v) condLevel n
    obtain ⟨⟨tseg, trest, htoks, hseg, htail, _, _, _⟩, hst⟩ :=
      obj_ok scopes r (gen scopes v condLevel n).next
    simp only [genObj]
    refine ⟨⟨[], _, by simp; rfl, GFields.nil, ?_, by simp, by simp, by simp [objNeedsComma]⟩,
      StmtsOk.append hv.2 hst⟩
    rw [htoks]
    exact ObjTail.spread (G_cond13 hv.1) hseg htail
theorem arr_ok (scopes : List ScopeInfo) : ∀ fs, ArrOk scopes fs
  | .nil => fun n => by
    simp only [genArr]
    exact ⟨⟨[], [], by simp, GItems.nil, ArrTail.nil, by simp, by simp, by simp [arrNeedsComma]⟩, StmtsOk.nil⟩
  | .item v r => fun n => by
    have hv := gen_of_body (body_ok scopes v) condLevel n
    obtain ⟨⟨tseg, trest, htoks, hseg, htail, hnos, hnc, hc⟩, hst⟩ :=
      arr_ok scopes r (gen scopes v condLevel n).next
    simp only [genArr]
    refine ⟨?_, StmtsOk.append hv.2 hst⟩
    by_cases hcomma : arrNeedsComma r = true
    · refine ⟨(gen scopes v condLevel n).toks ++ .p "," :: tseg, trest, ?_, ?_, ?_, ?_, ?_, ?_⟩
      · simp [hcomma, htoks, List.append_assoc]
      · exact GItems.item (G_cond13 hv.1) hseg (hc hcomma)
      · exact htail
      · exact hnos
      · simp [arrNeedsComma]
      · simp
    · have hcf : arrNeedsComma r = false := by simpa using hcomma
      obtain ⟨ht0, hs0⟩ := hnc hcf
      refine ⟨(gen scopes v condLevel n).toks, trest, ?_, ?_, ?_, ?_, ?_, ?_⟩
      · simp [hcf, htoks, ht0]
      · rw [hs0]; exact GItems.last (G_cond13 hv.1)
      · exact htail
      · exact hnos
      · simp [arrNeedsComma]
      · simp
  | .hole r => fun n => by
    obtain ⟨⟨tseg, trest, htoks, hseg, htail, hnos, _, _⟩, hst⟩ := arr_ok scopes r n
    simp only [genArr]
    exact ⟨⟨.p "," :: tseg, trest, by simp [htoks], GItems.hole hseg, htail, hnos, by simp [arrNeedsComma],
      by simp⟩, hst⟩
  | .spread v r => fun n => by
    have hv := gen_of_body (body_ok scopes v) condLevel n
    obtain ⟨⟨tseg, trest, htoks, hseg, htail, _, _, _⟩, hst⟩ :=
      arr_ok scopes r (gen scopes v condLevel n).next
    simp only [genArr]
    refine ⟨⟨[], _, by simp; rfl, GItems.nil, ?_, by simp, by simp, by simp [arrNeedsComma]⟩,
      StmtsOk.append hv.2 hst⟩
    rw [htoks]
    exact ArrTail.spread (G_cond13 hv.1) hseg htail
end

/-! ## property theorems -/

/-- **Every emitted value expression derives its intended tree at the level it is pasted at**, and
every hoisted initialiser derives its tree as an AssignmentExpression — for all trees, all allowed
levels, all counter values, all scope lists. -/
theorem gen_derives (scopes : List ScopeInfo) (e : Expr) (allow n : Nat) :
    G allow (gen scopes e allow n).js (gen scopes e allow n).toks ∧
      ∀ s ∈ (gen scopes e allow n).stmts, G 13 s.js s.toks :=
  gen_of_body (body_ok scopes e) allow n

/-- `to_proc_gen_prepare` pastes at `Cond` level: the value is an AssignmentExpression. -/
theorem prepare_derives (scopes : List ScopeInfo) (e : Expr) :
    G 13 (prepare scopes e).js (prepare scopes e).toks ∧
      ∀ s ∈ (prepare scopes e).stmts, G 13 s.js s.toks := by
  have := gen_derives scopes e condLevel 0
  rw [condLevel_eq] at this
  simpa [prepare, condLevel_eq] using this

end GE.Gen
