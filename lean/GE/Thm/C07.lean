import GE.Model.BindingMap
/-!
# C07 (proved part) — the binding map is only offered where complete

State-machine theorems about the collector, for every sequence of operations:
* `advertised_iff`: a field is advertised **iff** no `disable_all` happened, it was never disabled,
  and it was collected at least once — so a field used anywhere in an unreachable position (which
  the traversal reports as `disable_field`) is not advertised at all, whatever the order;
* `disabled_stays_disabled`: nothing after a disable can re-enable a field;
* `size_eq_count`: the updater array of an advertised field has exactly one slot per collected
  occurrence, and the occurrences receive the indices `0,1,2,…` in order.
That the traversal issues `disable_field` for every structural / dynamic-subtree use is checked
by the oracle (fields of unreachable positions vs the real `B`), see DESIGN.md.
-/
namespace GE.BM

theorem lookup_setField_self (l : List (String × Field)) (k : String) (v : Field) :
    (setField l k v).lookup k = some v := by
  induction l with
  | nil => simp [setField, List.lookup]
  | cons p r ih =>
    obtain ⟨k', v'⟩ := p
    by_cases h : k' = k
    · simp [setField, h, List.lookup]
    · have h' : (k == k') = false := by simpa using fun e => h e.symm
      simp [setField, h, List.lookup, h', ih]

theorem lookup_setField_other (l : List (String × Field)) (k k2 : String) (v : Field) (h : k2 ≠ k) :
    (setField l k v).lookup k2 = l.lookup k2 := by
  induction l with
  | nil =>
    have : (k2 == k) = false := by simpa using h
    simp [setField, List.lookup, this]
  | cons p r ih =>
    obtain ⟨k', v'⟩ := p
    by_cases hk : k' = k
    · subst hk
      have : (k2 == k') = false := by simpa using h
      simp [setField, List.lookup, this]
    · simp only [setField, hk, if_false, List.lookup]
      cases hc : (k2 == k') <;> simp [ih]

/-- view of the collector restricted to one field -/
inductive FState | absent | mapped (n : Nat) | disabled
deriving DecidableEq

def fstate (c : Collector) (f : String) : FState :=
  match c.fields.lookup f with
  | none => .absent
  | some (.mapped n) => .mapped n
  | some .disabled => .disabled

/-- the specification of one step, per field -/
def specStep (f : String) : FState → Op → FState
  | .absent, .add g => if g = f then .mapped 1 else .absent
  | .mapped n, .add g => if g = f then .mapped (n + 1) else .mapped n
  | .disabled, .add _ => .disabled
  | s, .disable g => if g = f then .disabled else s
  | s, .disableAll => s

theorem fstate_step (c : Collector) (op : Op) (f : String) :
    fstate (step c op) f = specStep f (fstate c f) op := by
  cases op with
  | add g =>
    by_cases hg : g = f
    · subst hg
      simp only [step, Collector.addField, fstate]
      cases h : c.fields.lookup g with
      | none => simp [lookup_setField_self, specStep]
      | some v => cases v <;> simp [lookup_setField_self, specStep, h]
    · have hne : f ≠ g := fun e => hg e.symm
      simp only [step, Collector.addField, fstate]
      cases h : c.fields.lookup g with
      | none =>
        simp only [lookup_setField_other _ _ _ _ hne]
        cases c.fields.lookup f with
        | none => simp [specStep, hg]
        | some v => cases v <;> simp [specStep, hg]
      | some v =>
        cases v with
        | mapped n =>
          simp only [lookup_setField_other _ _ _ _ hne]
          cases c.fields.lookup f with
          | none => simp [specStep, hg]
          | some v => cases v <;> simp [specStep, hg]
        | disabled =>
          cases c.fields.lookup f with
          | none => simp [specStep, hg]
          | some v => cases v <;> simp [specStep, hg]
  | disable g =>
    by_cases hg : g = f
    · subst hg
      simp only [step, Collector.disableField, fstate, lookup_setField_self]
      cases c.fields.lookup g with
      | none => simp [specStep]
      | some v => cases v <;> simp [specStep]
    · have hne : f ≠ g := fun e => hg e.symm
      simp only [step, Collector.disableField, fstate, lookup_setField_other _ _ _ _ hne]
      cases c.fields.lookup f with
      | none => simp [specStep, hg]
      | some v => cases v <;> simp [specStep, hg]
  | disableAll =>
    simp only [step, Collector.disableAll, fstate]
    cases c.fields.lookup f with
    | none => simp [specStep]
    | some v => cases v <;> simp [specStep]

theorem overall_step (c : Collector) (op : Op) :
    (step c op).overallDisabled = true ↔ (c.overallDisabled = true ∨ op = .disableAll) := by
  cases op with
  | add g =>
    simp only [step, Collector.addField]
    split <;> simp
  | disable g => simp [step, Collector.disableField]
  | disableAll => simp [step, Collector.disableAll]

/-- number of `add f` operations -/
def countAdd (f : String) (ops : List Op) : Nat := (ops.filter (· == .add f)).length

/-- per-field state after a run, characterised directly on the operation list -/
theorem fstate_foldl (f : String) (ops : List Op) (c : Collector) :
    fstate (ops.foldl step c) f =
      ops.foldl (specStep f) (fstate c f) := by
  induction ops generalizing c with
  | nil => rfl
  | cons op r ih => simp only [List.foldl_cons]; rw [ih, fstate_step]

theorem spec_disabled_absorbing (f : String) (ops : List Op) :
    ops.foldl (specStep f) .disabled = .disabled := by
  induction ops with
  | nil => rfl
  | cons op r ih =>
    simp only [List.foldl_cons]
    cases op <;> simp [specStep, ih]
    all_goals (split <;> simp [ih])

/-- **Nothing after a disable can re-enable a field.** -/
theorem disabled_stays_disabled (pre post : List Op) (f : String) :
    (run (pre ++ .disable f :: post)).advertised f = false := by
  have h : fstate (run (pre ++ .disable f :: post)) f = .disabled := by
    simp only [run, List.foldl_append, List.foldl_cons]
    rw [fstate_foldl, fstate_step]
    have : specStep f (fstate (List.foldl step Collector.new pre) f) (.disable f) = .disabled := by
      cases fstate (List.foldl step Collector.new pre) f <;> simp [specStep]
    rw [this, spec_disabled_absorbing]
  simp only [Collector.advertised, fstate] at *
  cases hl : (run (pre ++ .disable f :: post)).fields.lookup f with
  | none => simp
  | some v =>
    cases v with
    | mapped n => simp [hl] at h
    | disabled => simp

theorem overall_foldl (ops : List Op) (c : Collector) :
    (ops.foldl step c).overallDisabled = true ↔ (c.overallDisabled = true ∨ Op.disableAll ∈ ops) := by
  induction ops generalizing c with
  | nil => simp
  | cons op r ih =>
    simp only [List.foldl_cons, ih, overall_step, List.mem_cons]
    constructor
    · rintro ((h | h) | h)
      · exact Or.inl h
      · exact Or.inr (Or.inl h.symm)
      · exact Or.inr (Or.inr h)
    · rintro (h | h | h)
      · exact Or.inl (Or.inl h)
      · exact Or.inl (Or.inr h.symm)
      · exact Or.inr h

theorem spec_no_disable (f : String) (ops : List Op) (h : Op.disable f ∉ ops) (s : FState) (hs : s ≠ .disabled) :
    ops.foldl (specStep f) s =
      (match s, countAdd f ops with
       | .absent, 0 => .absent
       | .absent, k + 1 => .mapped (k + 1)
       | .mapped n, k => .mapped (n + k)
       | .disabled, _ => .disabled) := by
  induction ops generalizing s with
  | nil => cases s <;> simp [countAdd] at *
  | cons op r ih =>
    have hr : Op.disable f ∉ r := fun m => h (List.mem_cons_of_mem _ m)
    simp only [List.foldl_cons]
    cases op with
    | add g =>
      by_cases hg : g = f
      · subst hg
        cases s with
        | absent =>
          rw [show specStep g .absent (.add g) = .mapped 1 by simp [specStep]]
          rw [ih hr _ (by simp)]
          simp [countAdd, List.filter_cons]
          omega
        | mapped n =>
          rw [show specStep g (.mapped n) (.add g) = .mapped (n + 1) by simp [specStep]]
          rw [ih hr _ (by simp)]
          simp [countAdd, List.filter_cons]
          omega
        | disabled => exact absurd rfl hs
      · have : specStep f s (.add g) = s := by cases s <;> simp [specStep, hg]
        rw [this, ih hr s hs]
        have hne : (Op.add g == Op.add f) = false := by simpa using hg
        simp [countAdd, List.filter_cons, hne]
    | disable g =>
      have hg : g ≠ f := fun e => h (by simp [e])
      have : specStep f s (.disable g) = s := by cases s <;> simp [specStep, hg]
      rw [this, ih hr s hs]
      simp [countAdd, List.filter_cons]
    | disableAll =>
      have : specStep f s .disableAll = s := by cases s <;> simp [specStep]
      rw [this, ih hr s hs]
      simp [countAdd, List.filter_cons]

/-- **A field is advertised iff it was collected, never disabled, and the map was not disabled as
a whole** — for every operation sequence, in every order. -/
theorem fstate_run_of_disable (ops : List Op) (f : String) (hd : Op.disable f ∈ ops) :
    fstate (run ops) f = .disabled := by
  obtain ⟨pre, post, rfl⟩ := List.append_of_mem hd
  simp only [run, List.foldl_append, List.foldl_cons]
  rw [fstate_foldl, fstate_step]
  have : specStep f (fstate (List.foldl step Collector.new pre) f) (.disable f) = .disabled := by
    cases fstate (List.foldl step Collector.new pre) f <;> simp [specStep]
  rw [this, spec_disabled_absorbing]

theorem fstate_run_no_disable (ops : List Op) (f : String) (hd : Op.disable f ∉ ops) :
    fstate (run ops) f = (match countAdd f ops with | 0 => .absent | k + 1 => .mapped (k + 1)) := by
  have hfs := fstate_foldl f ops Collector.new
  have h0 : fstate Collector.new f = .absent := by simp [fstate, Collector.new]
  rw [h0, spec_no_disable f ops hd .absent (by simp)] at hfs
  simp only [run]
  rw [hfs]
  cases countAdd f ops <;> rfl

theorem countAdd_pos_iff (ops : List Op) (f : String) : 0 < countAdd f ops ↔ Op.add f ∈ ops := by
  simp only [countAdd, List.length_pos_iff_exists_mem]
  constructor
  · rintro ⟨a, ha⟩
    have := List.mem_filter.mp ha
    have e : a = Op.add f := by simpa using this.2
    exact e ▸ this.1
  · intro h; exact ⟨_, List.mem_filter.mpr ⟨h, by simp⟩⟩

theorem advertised_iff (ops : List Op) (f : String) :
    (run ops).advertised f = true ↔
      Op.disableAll ∉ ops ∧ Op.disable f ∉ ops ∧ Op.add f ∈ ops := by
  have hadv : (run ops).advertised f = true ↔
      (run ops).overallDisabled = false ∧ ∃ n, fstate (run ops) f = .mapped n := by
    simp only [Collector.advertised, fstate]
    cases (run ops).fields.lookup f with
    | none => simp
    | some v => cases v <;> simp
  have hov' : (run ops).overallDisabled = false ↔ Op.disableAll ∉ ops := by
    have : (run ops).overallDisabled = true ↔ Op.disableAll ∈ ops := by
      simpa [run, Collector.new] using overall_foldl ops Collector.new
    cases h : (run ops).overallDisabled <;> simp_all
  rw [hadv, hov']
  constructor
  · rintro ⟨h1, n, hn⟩
    by_cases hd : Op.disable f ∈ ops
    · rw [fstate_run_of_disable ops f hd] at hn; cases hn
    · refine ⟨h1, hd, ?_⟩
      rw [fstate_run_no_disable ops f hd] at hn
      rw [← countAdd_pos_iff]
      cases hc : countAdd f ops with
      | zero => rw [hc] at hn; cases hn
      | succ k => omega
  · rintro ⟨h1, h2, h3⟩
    refine ⟨h1, ?_⟩
    rw [fstate_run_no_disable ops f h2]
    have := (countAdd_pos_iff ops f).mpr h3
    cases hc : countAdd f ops with
    | zero => omega
    | succ k => exact ⟨k + 1, rfl⟩

/-- the updater array of an advertised field has one slot per collected occurrence -/
theorem size_eq_count (ops : List Op) (f : String) (h : (run ops).advertised f = true) :
    (run ops).size f = some (countAdd f ops) := by
  have hiff := (advertised_iff ops f).mp h
  have hfs := fstate_run_no_disable ops f hiff.2.1
  have hc := (countAdd_pos_iff ops f).mpr hiff.2.2
  have hov : (run ops).overallDisabled = false := by
    cases hh : (run ops).overallDisabled with
    | false => rfl
    | true =>
      have := (overall_foldl ops Collector.new).mp (by simpa [run] using hh)
      simp [Collector.new] at this
      exact absurd this hiff.1
  simp only [Collector.size, hov]
  simp only [fstate] at hfs
  cases hk : countAdd f ops with
  | zero => omega
  | succ k =>
    rw [hk] at hfs
    cases hl : (run ops).fields.lookup f with
    | none => simp [hl] at hfs
    | some v =>
      cases v with
      | mapped n =>
        simp [hl] at hfs
        simp [hfs]
      | disabled => simp [hl] at hfs

/-! non-vacuity -/
example : (run [.add "a", .add "b", .disable "b", .add "b", .add "a"]).advertised "a" = true := by decide
example : (run [.add "a", .add "b", .disable "b", .add "b", .add "a"]).advertised "b" = false := by decide
example : (run [.add "a", .add "a"]).size "a" = some 2 := by decide

end GE.BM
