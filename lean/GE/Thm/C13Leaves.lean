import GE.Model.TagLeaves
/-!
C13 / C04 — the tree the parser builds keeps exactly the `<include>` / `<template is>` elements of the source, in document order
(`leaves_parse`), for every sequence of tags whose `wx:if` groups have the shape `wx:if`, `wx:elif`*, `wx:else`?: whatever control attributes
the leaves themselves carry (a leaf with `wx:elif` / `wx:else` is merged into the preceding group, one with `wx:for` is wrapped), at any depth,
with comments / white space / `<import>` / `<wxs>` between the members of a group.  `second_else_loses` shows the hypothesis is needed: a
second `wx:else` replaces the first branch, and an include in it is in no branch of the tree (it stays a dependency of the file).
-/
namespace GE.TagTree

/-- leaves of an accumulator (most recent node first) in document order -/
def revL : AS → List String
  | .nil => []
  | .cons a r => revL r ++ leavesA a

theorem leaves_revAppend : ∀ (a b : AS), leavesAS (a.revAppend b) = revL a ++ leavesAS b
  | .nil, b => by simp [AS.revAppend, revL]
  | .cons x r, b => by simp [AS.revAppend, revL, leaves_revAppend r, leavesAS]

theorem leaves_rev (a : AS) : leavesAS a.rev = revL a := by
  simp [AS.rev, leaves_revAppend, leavesAS]

theorem leafOf_dropRefs (b : Base) : leafOf (dropRefs b) = leafOf b := by cases b <;> rfl
theorem keepsKids_dropRefs (b : Base) : keepsKids (dropRefs b) = keepsKids b := by cases b <;> rfl

theorem leaves_mkElem (b : Base) (kids : AS) :
    leavesA (mkElem b kids) = leafOf b ++ (if keepsKids b then leavesAS kids else []) := by
  cases b <;> simp [mkElem, leavesA, leafOf, keepsKids]

theorem leaves_wrapChildren (e : A) : leavesAS (wrapChildren e) = leavesA e := by
  unfold wrapChildren
  split <;> simp [leavesAS, leavesA]

theorem leaves_snoc : ∀ (m : Brs) (c : String) (k : AS), leavesBrs (m.snoc c k) = leavesBrs m ++ leavesAS k
  | .nil, c, k => by simp [Brs.snoc, leavesBrs]
  | .cons c0 k0 r, c, k => by simp [Brs.snoc, leavesBrs, leaves_snoc r]

/-- what `find_if_element_index` passes over are comments; the group it finds is the most recent node that has leaves -/
theorem findIf_leaves : ∀ (acc cs older : AS) (c : String) (k : AS) (m : Brs) (e : Els),
    findIf acc = some (cs, (c, k, m, e), older) → revL acc = revL older ++ leavesA (.cond c k m e) ∧ revL cs = []
  | .nil, _, _, _, _, _, _, h => by simp [findIf] at h
  | .cons a r, cs, older, c, k, m, e, h => by
    cases a with
    | comment =>
      simp only [findIf] at h
      split at h
      · next cs' g older' hf =>
        obtain ⟨c', k', m', e'⟩ := g
        simp only [Option.some.injEq, Prod.mk.injEq] at h
        obtain ⟨h1, ⟨h2, h3, h4, h5⟩, h6⟩ := h
        subst h1 h2 h3 h4 h5 h6
        have := findIf_leaves r cs' older' c' k' m' e' hf
        simp [revL, leavesA, this.1, this.2]
      · simp at h
    | cond c1 k1 m1 e1 =>
      simp only [findIf, Option.some.injEq, Prod.mk.injEq] at h
      obtain ⟨h1, ⟨h2, h3, h4, h5⟩, h6⟩ := h
      subst h1 h2 h3 h4 h5 h6
      simp [revL]
    | text _ => simp [findIf] at h
    | normal _ _ _ => simp [findIf] at h
    | pure _ _ _ => simp [findIf] at h
    | slotEl _ _ => simp [findIf] at h
    | leaf _ => simp [findIf] at h
    | loop _ _ _ _ _ => simp [findIf] at h

theorem leaves_elem (p : Bool) (b : Base) (kids : AS) :
    leavesA (mkElem (if p then b else dropRefs b) kids) = leafOf b ++ (if keepsKids b then leavesAS kids else []) := by
  cases p <;> simp [leaves_mkElem, leafOf_dropRefs, keepsKids_dropRefs]

/-- the last step of `Element::parse`: the new tag's leaves come after everything accumulated so far -/
theorem step_leaves (acc : AS) (b : Base) (c : Ctl) (kids : AS) (h : groupOk acc c = true) :
    revL (stepEl acc b c kids) = revL acc ++ (leafOf b ++ (if keepsKids b then leavesAS kids else [])) := by
  have he := leaves_elem (ifCond c == .none && c.wxFor.isNone) b kids
  generalize mkElem (if (ifCond c == .none && c.wxFor.isNone) = true then b else dropRefs b) kids = e at he
  unfold stepEl
  simp only
  generalize hE : mkElem (if (ifCond c == IfC.none && c.wxFor.isNone) = true then b else dropRefs b) kids = e'
  have he' : leavesA e' = leafOf b ++ (if keepsKids b then leavesAS kids else []) := by
    rw [← hE]; exact leaves_elem _ b kids
  rw [← he']
  cases hic : ifCond c with
  | none =>
    cases hf : c.wxFor <;> simp [revL, leavesA, leaves_wrapChildren]
  | if_ v =>
    cases hf : c.wxFor <;> simp [revL, leavesA, leavesAS, leavesBrs, leavesEls, leaves_wrapChildren]
  | elif v =>
    simp only [groupOk, hic] at h
    cases hfi : findIf acc with
    | none => cases hf : c.wxFor <;> simp [revL, leavesA, leaves_wrapChildren]
    | some r =>
      obtain ⟨cs, ⟨c0, k0, m0, e0⟩, older⟩ := r
      have hl := findIf_leaves acc cs older c0 k0 m0 e0 hfi
      cases e0 with
      | some _ => simp [hfi] at h
      | none =>
        simp [revL, leavesA, leavesEls, leaves_snoc, leaves_revAppend, leaves_wrapChildren, hl.1, hl.2]
  | else_ =>
    simp only [groupOk, hic] at h
    cases hfi : findIf acc with
    | none => cases hf : c.wxFor <;> simp [revL, leavesA, leaves_wrapChildren]
    | some r =>
      obtain ⟨cs, ⟨c0, k0, m0, e0⟩, older⟩ := r
      have hl := findIf_leaves acc cs older c0 k0 m0 e0 hfi
      cases e0 with
      | some _ => simp [hfi] at h
      | none =>
        simp [revL, leavesA, leavesEls, leaves_revAppend, leaves_wrapChildren, hl.1, hl.2]

mutual
theorem parseX_leaves : ∀ (x : X) (acc : AS), okX acc x = true → revL (parseX acc x) = revL acc ++ leavesX x
  | .text s, acc, _ => by
    simp only [parseX, leavesX]
    split <;> simp [revL, leavesA]
  | .comment, acc, _ => by simp [parseX, leavesX, revL, leavesA]
  | .gone, acc, _ => by simp [parseX, leavesX]
  | .el b c kids, acc, h => by
    simp only [okX, Bool.and_eq_true] at h
    simp only [parseX, leavesX]
    rw [step_leaves acc b c _ h.2, leaves_rev, parseXS_leaves kids .nil h.1]
    simp [revL]
theorem parseXS_leaves : ∀ (xs : XS) (acc : AS), okXS acc xs = true → revL (parseXS acc xs) = revL acc ++ leavesXS xs
  | .nil, acc, _ => by simp [parseXS, leavesXS]
  | .cons x r, acc, h => by
    simp only [okXS, Bool.and_eq_true] at h
    simp only [parseXS, leavesXS]
    rw [parseXS_leaves r _ h.2, parseX_leaves x acc h.1, List.append_assoc]
end

/-- **leaves_parse.**  The tree built from any sequence of tags whose `wx:if` groups are well-formed contains exactly the `<include>` / `<template is>`
elements of the source, in document order — none lost, none invented, none moved, at any depth and under any control attributes. -/
theorem leaves_parse (xs : XS) (h : groupsOk xs = true) : leavesAS (parse xs) = leavesXS xs := by
  unfold parse
  rw [leaves_rev, parseXS_leaves xs .nil h]
  simp [revL]

/-- the hypothesis is met by a non-trivial sequence: an include under `wx:if`, one carrying `wx:elif`, one carrying `wx:else` behind a comment, one in a loop -/
example : groupsOk (.cons (.el (.leaf "include#a") { wxIf := some "c" } .nil) (.cons (.el (.leaf "include#b") { wxElif := some "d" } .nil)
    (.cons .comment (.cons (.el (.leaf "include#c") { wxElse := true } .nil) (.cons (.el (.leaf "include#d") { wxFor := some "l" } .nil) .nil))))) = true := by decide

/-- … and needed: a second `wx:else` replaces the first branch; the include in it is in no branch of the tree -/
theorem second_else_loses :
    let xs : XS := .cons (.el (.normal "v" []) { wxIf := some "c" } .nil) (.cons (.el (.leaf "include#a") { wxElse := true } .nil)
      (.cons (.el (.leaf "include#b") { wxElse := true } .nil) .nil))
    leavesXS xs = ["include#a", "include#b"] ∧ leavesAS (parse xs) = ["include#b"] := by decide

end GE.TagTree
