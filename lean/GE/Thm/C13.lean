import GE.Model.Path
/-!
# C13 — cross-file references resolve by normalised path

Property theorems about the model of `path.rs`.  Spec reading of the property:
a reference `rel` in file `base` denotes `normalize(rel)` from the root when `rel` starts with `/`,
and otherwise `normalize(dirname(base) / rel)`; the result never contains `.`/`..` segments (it
cannot escape the root), and normalisation is idempotent (so the key under which a file was
registered by a normalising front end is a fixed point).
-/
namespace GE.Path

/-! ## helper lemmas -/

@[simp] theorem splitSlash_nil : splitSlash [] = [[]] := rfl
theorem splitSlash_cons_slash (cs : List Char) : splitSlash ('/' :: cs) = [] :: splitSlash cs := by
  rw [splitSlash]; simp
theorem splitSlash_cons_ne (c : Char) (cs : List Char) (h : c ≠ '/') :
    splitSlash (c :: cs) = consHead c (splitSlash cs) := by
  conv => lhs; rw [splitSlash]
  simp only [h, ↓reduceIte]

theorem splitSlash_ne_nil (s : List Char) : splitSlash s ≠ [] := by
  induction s with
  | nil => simp [splitSlash]
  | cons c cs ih =>
    by_cases hc : c = '/'
    · subst hc; rw [splitSlash_cons_slash]; simp
    · rw [splitSlash_cons_ne _ _ hc]; cases splitSlash cs <;> simp [consHead]

def SlashFree (p : List Char) : Prop := '/' ∉ p
instance : DecidablePred SlashFree := fun p => inferInstanceAs (Decidable ('/' ∉ p))

theorem splitSlash_slashFree (s : List Char) : ∀ p ∈ splitSlash s, SlashFree p := by
  induction s with
  | nil => simp [splitSlash, SlashFree]
  | cons c cs ih =>
    by_cases hc : c = '/'
    · subst hc; rw [splitSlash_cons_slash]
      intro p hp
      simp at hp
      rcases hp with rfl | hp
      · simp [SlashFree]
      · exact ih p hp
    · rw [splitSlash_cons_ne _ _ hc]
      cases heq : splitSlash cs with
      | nil => intro p hp; simp [consHead] at hp; subst hp; simp [SlashFree]; exact fun h => hc h.symm
      | cons q qs =>
        intro p hp
        simp [consHead] at hp
        rcases hp with rfl | hp
        · have := ih q (by rw [heq]; simp)
          simp [SlashFree] at *
          exact ⟨fun h => hc h.symm, this⟩
        · exact ih p (by rw [heq]; simp [hp])

theorem splitSlash_of_slashFree (p : List Char) (h : SlashFree p) : splitSlash p = [p] := by
  induction p with
  | nil => simp [splitSlash]
  | cons c cs ih =>
    have hc : c ≠ '/' := by intro hc; apply h; simp [hc]
    have hcs : SlashFree cs := by intro hm; apply h; simp [hm]
    rw [splitSlash_cons_ne _ _ hc, ih hcs]; rfl

theorem splitSlash_append_slash (a b : List Char) (ha : SlashFree a) :
    splitSlash (a ++ '/' :: b) = a :: splitSlash b := by
  induction a with
  | nil => simp [splitSlash]
  | cons c cs ih =>
    have hc : c ≠ '/' := by intro hc; apply ha; simp [hc]
    have hcs : SlashFree cs := by intro hm; apply ha; simp [hm]
    simp only [List.cons_append]
    rw [splitSlash_cons_ne _ _ hc, ih hcs]; rfl

/-- `split('/')` inverts `join("/")` on non-empty lists of '/'-free pieces. -/
theorem splitSlash_joinSlash (ps : List (List Char)) (hne : ps ≠ [])
    (hf : ∀ p ∈ ps, SlashFree p) : splitSlash (joinSlash ps) = ps := by
  induction ps with
  | nil => exact absurd rfl hne
  | cons p ps ih =>
    cases ps with
    | nil => simpa [joinSlash] using splitSlash_of_slashFree p (hf p (by simp))
    | cons q qs =>
      simp only [joinSlash]
      rw [splitSlash_append_slash _ _ (hf p (by simp))]
      rw [ih (by simp) (fun x hx => hf x (by simp [hx]))]

theorem splitSlash_joinSlash_nil : splitSlash (joinSlash []) = [[]] := by
  simp [joinSlash]

/-- `join` then `split` of arbitrary text: splitting a concatenation `a/b`. -/
theorem splitSlash_append (a b : List Char) :
    splitSlash (a ++ '/' :: b) = splitSlash a ++ splitSlash b := by
  induction a with
  | nil => simp [splitSlash]
  | cons c cs ih =>
    simp only [List.cons_append]
    by_cases hc : c = '/'
    · subst hc
      rw [splitSlash_cons_slash, splitSlash_cons_slash, ih]; simp
    · rw [splitSlash_cons_ne _ _ hc, splitSlash_cons_ne _ _ hc, ih]
      cases h : splitSlash cs with
      | nil => exact absurd h (splitSlash_ne_nil cs)
      | cons p ps => simp [consHead]

/-- Invariant of the segment stack: '/'-free and free of `.` / `..`. -/
def Clean (ps : List (List Char)) : Prop := ∀ p ∈ ps, SlashFree p ∧ p ≠ dot ∧ p ≠ dotdot

theorem clean_nil : Clean [] := by simp [Clean]

theorem clean_dropLast {ps} (h : Clean ps) : Clean ps.dropLast :=
  fun p hp => h p (List.dropLast_subset ps hp)

theorem step_clean {ps s} (h : Clean ps) (hs : SlashFree s) : Clean (step ps s) := by
  unfold step
  split
  · exact h
  · split
    · exact clean_dropLast h
    · rename_i h1 h2
      intro p hp
      simp at hp
      rcases hp with hp | rfl
      · exact h p hp
      · exact ⟨hs, h1, h2⟩

theorem foldl_step_clean (segs : List (List Char)) (ps : List (List Char)) (h : Clean ps)
    (hs : ∀ s ∈ segs, SlashFree s) : Clean (segs.foldl step ps) := by
  induction segs generalizing ps with
  | nil => simpa
  | cons s segs ih =>
    simp only [List.foldl_cons]
    exact ih _ (step_clean h (hs s (by simp))) (fun x hx => hs x (by simp [hx]))

theorem normSegs_clean (p : List Char) : Clean (normSegs p) :=
  foldl_step_clean _ _ clean_nil (splitSlash_slashFree p)

theorem resolveSegs_clean (base rel : List Char) : Clean (resolveSegs base rel) := by
  unfold resolveSegs
  split
  · exact foldl_step_clean _ _ (clean_dropLast clean_nil) (splitSlash_slashFree _)
  · exact foldl_step_clean _ _ (clean_dropLast (normSegs_clean base)) (splitSlash_slashFree _)

/-- Folding `step` over clean segments just appends them. -/
theorem foldl_step_of_clean (segs ps : List (List Char)) (h : Clean segs) :
    segs.foldl step ps = ps ++ segs := by
  induction segs generalizing ps with
  | nil => simp
  | cons s segs ih =>
    have hs := h s (by simp)
    simp only [List.foldl_cons]
    rw [ih _ (fun x hx => h x (by simp [hx]))]
    simp [step, hs.2.1, hs.2.2]

/-! ## property theorems -/

/-- The resolved path never contains a `.` or `..` segment and so can never point above the root;
its segments are exactly the '/'-separated pieces of the returned string. -/
theorem resolve_never_above_root (base rel : List Char) :
    ∀ seg ∈ resolveSegs base rel, seg ≠ dot ∧ seg ≠ dotdot :=
  fun seg h => (resolveSegs_clean base rel seg h).2

theorem normalize_no_dot_segments (p : List Char) :
    ∀ seg ∈ normSegs p, seg ≠ dot ∧ seg ≠ dotdot :=
  fun seg h => (normSegs_clean p seg h).2

/-- A leading `/` resolves from the root, independently of the referring file. -/
theorem resolve_abs (base r : List Char) : resolve base ('/' :: r) = normalize r := by
  simp [resolve, resolveSegs, normalize, normSegs]

/-- The segments of the text returned by `normalize`/`resolve` are the model's segment stack
(so reasoning on segments is reasoning on the returned string). -/
theorem split_join_clean (ps : List (List Char)) (h : Clean ps) (hne : ps ≠ []) :
    splitSlash (joinSlash ps) = ps :=
  splitSlash_joinSlash ps hne (fun p hp => (h p hp).1)

/-- Normalisation is idempotent. -/
theorem normalize_idempotent (p : List Char) : normalize (normalize p) = normalize p := by
  unfold normalize
  by_cases hne : normSegs p = []
  · rw [hne]; decide
  · have hc := normSegs_clean p
    congr 1
    rw [normSegs, split_join_clean _ hc hne, foldl_step_of_clean _ _ hc]
    simp

/-- A resolved path is already normalised (fixed point of `normalize`). -/
theorem normalize_resolve (base rel : List Char) : normalize (resolve base rel) = resolve base rel := by
  unfold normalize resolve
  by_cases hne : resolveSegs base rel = []
  · rw [hne]; decide
  · have hc := resolveSegs_clean base rel
    congr 1
    rw [normSegs, split_join_clean _ hc hne, foldl_step_of_clean _ _ hc]
    simp

/-- Relative references: resolution is normalisation of `dirname(base) "/" rel`, where
`dirname(base)` is the normalised base without its last segment (the file name).  When the
directory is empty (file at the root) the reference is normalised on its own. -/
theorem resolve_rel_spec (base rel : List Char) (hrel : rel.head? ≠ some '/') :
    resolve base rel =
      if (normSegs base).dropLast = [] then normalize rel
      else normalize (joinSlash (normSegs base).dropLast ++ '/' :: rel) := by
  have hres : resolveSegs base rel = (splitSlash rel).foldl step (normSegs base).dropLast := by
    unfold resolveSegs
    split
    · simp at hrel
    · rfl
  unfold resolve
  rw [hres]
  split
  · rename_i h; rw [h]; rfl
  · rename_i hne
    have hc := clean_dropLast (normSegs_clean base)
    have e : ∀ q, normSegs q = (splitSlash q).foldl step [] := fun _ => rfl
    rw [normalize, e (_ ++ _), splitSlash_append, split_join_clean _ hc hne, List.foldl_append,
      foldl_step_of_clean _ _ hc]
    simp

/-- The file-name segment of the referring path is irrelevant: only its directory matters. -/
theorem resolve_ignores_base_filename (dir : List (List Char)) (f g rel : List Char)
    (hd : Clean dir) (hf : Clean [f]) (hg : Clean [g]) (hrel : rel.head? ≠ some '/') :
    resolve (joinSlash (dir ++ [f])) rel = resolve (joinSlash (dir ++ [g])) rel := by
  have key : ∀ x, Clean [x] → (normSegs (joinSlash (dir ++ [x]))).dropLast = dir := by
    intro x hx
    have hcl : Clean (dir ++ [x]) := by
      intro p hp; simp at hp; rcases hp with hp | rfl
      · exact hd p hp
      · exact hx p (by simp)
    unfold normSegs
    rw [split_join_clean _ hcl (by simp), foldl_step_of_clean _ _ hcl]
    simp
  rw [resolve_rel_spec _ _ hrel, resolve_rel_spec _ _ hrel, key f hf, key g hg]

/-! ## non-vacuity -/
example : resolve "a/b/c.wxml".toList "../d".toList = "a/d".toList := by decide
example : resolve "a/b".toList "../../../c".toList = "c".toList := by decide
example : Clean ["a".toList, "b".toList] := by
  intro p hp; simp at hp; rcases hp with rfl | rfl <;> decide

end GE.Path
