import GE.Codec
import GE.Model.CssIO
import GE.Thm.C09Sheet
/-!
`lake env lean --run SpecRun.lean`: the fuel-free readings of a stylesheet (`go`: token kinds, `goI`: identifiers; the SPECIFICATIONS of
`sheet_partition` / `sheet_idents`) evaluated on token trees, one request per line (the fields of the driver's `css` request), so that they can
be compared with the implementation directly (`corr:sheet-spec`).  Not part of `gedriver`: the driver imports models only.
-/
open GE GE.Css GE.Codec

def shapeStr : Shape → String
  | .leaf t => "l:" ++ t
  | .open .fn => "o:fn" | .open .paren => "o:paren" | .open .square => "o:square" | .open .curly => "o:curly"
  | .close .fn => "c:paren" | .close .paren => "c:paren" | .close .square => "c:square" | .close .curly => "c:curly"

def optS (f : String) : Option String := if f.startsWith "=" then some (f.drop 1).toString else none

def answer (fs : List String) : String :=
  match fs with
  | [cp, sign, ratio, isign, host, hostIs, tree] =>
    match parseTree tree, ratio.toNat? with
    | some ts, some rb =>
      let opts : Opts := ⟨optS cp, optS sign, rb, optS isign, host == "1", optS hostIs⟩
      if opts.importSign.isSome then "skip" else
      let g := go opts [] .top ts
      let i := goI opts [] .top ts
      let sep := String.singleton (Char.ofNat 31)
      String.intercalate " " (g.1.map shapeStr) ++ "\t" ++ String.intercalate " " (g.2.map shapeStr) ++ "\t" ++
        esc (String.intercalate sep i.1) ++ "\t" ++ esc (String.intercalate sep i.2)
    | _, _ => "bad-tree"
  | _ => "bad-op"

partial def loop (h : IO.FS.Stream) (out : IO.FS.Stream) : IO Unit := do
  let line ← h.getLine
  if line.isEmpty then return ()
  let line := if line.endsWith "\n" then (line.dropEnd 1).toString else line
  out.putStrLn (answer (fields line))
  loop h out

def main : IO Unit := do loop (← IO.getStdin) (← IO.getStdout)
