/-
C08 — meaningful white space over the WHOLE stylesheet (companion of `GE/Thm/C17Sheet.lean` / `C09Sheet.lean`).

`GE/Thm/C08Ws.lean` shows for ONE rule that the white space written is the collapse of the input's (a descendant
combinator survives at every depth of selector functions, none is invented; in `calc()` the blanks next to
`+` / `-` are written).  Here this is lifted to `transform` without host conversion and without import sign:
`goM` reads the token tree token by token (structural recursion, no fuel) and gives the sequence of
"token" / "white space" marks of the output —

  * a qualified rule: `ruleMarks`' reading of its prelude (selector context), its block a value context;
  * an at-rule: NO white space between the loose tokens of its prelude (the separator table decides there, C08's
    `needsSep`), its parenthesised / functional / bracketed blocks are selector context, the `{}` block of a
    rule-bearing at-rule is a stylesheet again — so descendant combinators survive inside every rule-bearing
    at-rule at any nesting —, any other `{}` block is a value context.
-/
import GE.Thm.C08Ws
import GE.Thm.C17Sheet

namespace GE.Css
open GE.Extracted

inductive ModeM where
  | top
  | qual (start hw : Bool)
  | atPre (cr : Bool)

/-- marks of one token of a qualified rule's prelude and the flags after it -/
def qualTokM (start hw : Bool) : Tok → List Mark × Bool × Bool
  | .leaf .ws _ => ([], start, !start)
  | .leaf k _ => (flushMarks hw ++ markOfK (.leaf k), false, false)
  | .block .curly _ body _ => (.t :: (valMarks false body none ++ [.t]), false, false)
  | .block _ _ body _ => (flushMarks hw ++ .t :: (selMarks body true false ++ [.t]), false, false)

def goM : ModeM → List Tok → List Mark
  | _, [] => []
  | .top, t :: ts =>
    match t with
    | .leaf .ws _ => goM .top ts
    | .leaf (.at name) _ => .t :: goM (.atPre (containRuleList.contains (lower name))) ts
    | .block .curly _ _ _ => (qualTokM true false t).1 ++ goM .top ts
    | _ => (qualTokM true false t).1 ++ goM (.qual (qualTokM true false t).2.1 (qualTokM true false t).2.2) ts
  | .qual start hw, t :: ts =>
    match t with
    | .block .curly _ _ _ => (qualTokM start hw t).1 ++ goM .top ts
    | _ => (qualTokM start hw t).1 ++ goM (.qual (qualTokM start hw t).2.1 (qualTokM start hw t).2.2) ts
  | .atPre cr, t :: ts =>
    match t with
    | .leaf .ws _ => goM (.atPre cr) ts
    | .block .curly _ b _ => .t :: ((if cr then goM .top b else valMarks false b none) ++ .t :: goM .top ts)
    | .leaf .semi _ => .t :: goM .top ts
    | .leaf k _ => markOfK (.leaf k) ++ goM (.atPre cr) ts
    | .block _ _ b _ => .t :: (selMarks b true false ++ .t :: goM (.atPre cr) ts)

theorem goM_top_dropWs : ∀ ts : List Tok, goM .top (dropWs ts) = goM .top ts
  | [] => by simp [dropWs]
  | t :: ts => by
    unfold dropWs
    split
    · next h =>
      rw [goM_top_dropWs ts]
      cases t with
      | leaf k p => cases k <;> simp_all [Tok.isWs, goM]
      | block k n b p => simp [Tok.isWs] at h
    · rfl

theorem qualLoop_goM : ∀ (ts : List Tok) (st : St) (a b c : Bool),
    goM (.qual a b) ts = ruleMarks ts a b ++ goM .top (qualLoop st ts a b c).2
  | [], st, _, _, _ => by simp [qualLoop, goM, ruleMarks]
  | .block k name body pos :: ts, st, a, b, c => by
    cases k with
    | curly => simp [qualLoop, goM, ruleMarks, qualTokM]
    | fn =>
      have ih := qualLoop_goM ts (closeTok (convCls (openTok (flushWs st b pos) .fn name pos) body true false false) .fn pos) false false false
      simp only [qualLoop, goM, ruleMarks, qualTokM]
      rw [ih]; simp
    | paren =>
      have ih := qualLoop_goM ts (closeTok (convCls (openTok (flushWs st b pos) .paren name pos) body true false false) .paren pos) false false false
      simp only [qualLoop, goM, ruleMarks, qualTokM]
      rw [ih]; simp
    | square =>
      have ih := qualLoop_goM ts (closeTok (convCls (openTok (flushWs st b pos) .square name pos) body true false false) .square pos) false false false
      simp only [qualLoop, goM, ruleMarks, qualTokM]
      rw [ih]; simp
  | .leaf k pos :: ts, st, a, b, c => by
    have rec_ : ∀ (s1 : St) (c' : Bool),
        goM (.qual a b) (.leaf k pos :: ts) = ruleMarks (.leaf k pos :: ts) a b ++
          goM .top (qualLoop s1 ts (qualTokM a b (.leaf k pos)).2.1 (qualTokM a b (.leaf k pos)).2.2 c').2 := by
      intro s1 c'
      simp only [goM]
      rw [qualLoop_goM ts s1 _ _ c']
      cases k <;> simp [qualTokM, ruleMarks]
    cases k with
    | ws => simp only [qualLoop]; exact rec_ _ _
    | delim d => simp only [qualLoop]; exact rec_ _ _
    | ident x => simp only [qualLoop]; exact rec_ _ _
    | _ => simp only [qualLoop]; exact rec_ _ _

theorem goM_top_qual (t : Tok) (ts : List Tok) (ht : t.isWs = false) (hat : ∀ name p, t ≠ .leaf (.at name) p) :
    goM .top (t :: ts) = goM (.qual true false) (t :: ts) := by
  cases t with
  | leaf k p =>
    cases k with
    | ws => simp [Tok.isWs] at ht
    | «at» name => exact absurd rfl (hat name p)
    | _ => simp [goM]
  | block k n b p => cases k <;> simp [goM]

theorem sizeToks_atLoop (nested : St → List Tok → St) (cr : Bool) (n : Nat) : ∀ (ts : List Tok) (st : St),
    sizeToks (atLoop nested cr n st ts).2 ≤ sizeToks ts
  | [], st => by simp [atLoop]
  | .leaf k pos :: ts, st => by
    cases k <;> simp only [atLoop, sizeToks, sizeTok] <;>
      first
        | exact Nat.le_trans (sizeToks_atLoop nested cr n ts _) (by omega)
        | omega
  | .block k name body pos :: ts, st => by
    cases k <;> simp only [atLoop, sizeToks, sizeTok]
    · have := sizeToks_atLoop nested cr n ts (closeTok (convCls (openTok st .fn name pos) body true false false) .fn pos); omega
    · have := sizeToks_atLoop nested cr n ts (closeTok (convCls (openTok st .paren name pos) body true false false) .paren pos); omega
    · have := sizeToks_atLoop nested cr n ts (closeTok (convCls (openTok st .square name pos) body true false false) .square pos); omega
    · omega

theorem mark_leaf (k : Leaf) : markOfK (.leaf k) = markOfK (OutK.leaf k) := rfl

theorem atLoop_marks (nested : St → List Tok → St) (fuelB : Nat)
    (hn : ∀ (st : St) (body : List Tok), sizeToks body < fuelB → st.opts.importSign = none → st.opts.convertHost = false →
      WroteM st (nested st body) (goM .top body))
    (cr : Bool) (startLen : Nat) : ∀ (ts : List Tok) (st : St),
    sizeToks ts ≤ fuelB → st.opts.importSign = none → st.opts.convertHost = false →
    ∃ ms, WroteM st (atLoop nested cr startLen st ts).1 ms ∧
      goM (.atPre cr) ts = ms ++ goM .top (atLoop nested cr startLen st ts).2
  | [], st, _, _, _ => ⟨[], by simpa [atLoop] using WroteM.refl st, by simp [atLoop, goM]⟩
  | .block k name body pos :: ts, st, hsz, hi, hc => by
    have hszt : sizeToks ts ≤ fuelB := by simp only [sizeToks] at hsz; omega
    have other : k ≠ .curly →
        ∃ ms, WroteM st (atLoop nested cr startLen (closeTok (convCls (openTok st k name pos) body true false false) k pos) ts).1 ms ∧
          .t :: (selMarks body true false ++ .t :: goM (.atPre cr) ts) =
            ms ++ goM .top (atLoop nested cr startLen (closeTok (convCls (openTok st k name pos) body true false false) k pos) ts).2 := by
      intro _
      have w1 := wroteM_open st k name pos
      have w2 := convCls_marks body (openTok st k name pos) true false false
      have w3 := wroteM_close (convCls (openTok st k name pos) body true false false) k pos
      have w := (w1.trans w2).trans w3
      obtain ⟨ms, h1, h2⟩ := atLoop_marks nested fuelB hn cr startLen ts
        (closeTok (convCls (openTok st k name pos) body true false false) k pos) hszt (by rw [w.opts]; exact hi) (by rw [w.opts]; exact hc)
      exact ⟨_, w.trans h1, by rw [h2]; simp⟩
    cases k with
    | curly =>
      simp only [atLoop]
      -- the state with the chain extended differs from `st` in `stacks` only
      generalize hst1 : ({ st with stacks := st.stacks ++ [List.drop startLen st.cur.items] } : St) = st1
      have e1 : WroteM st st1 [] := by
        subst hst1
        exact ⟨rfl, rfl, by simp [St.cur]⟩
      have w1 := wroteM_open st1 .curly name pos
      have hbody : sizeToks body < fuelB := by simp only [sizeToks, sizeTok] at hsz; omega
      have ho : (openTok st1 .curly name pos).opts = st.opts := (e1.trans w1).opts
      have w2 : WroteM (openTok st1 .curly name pos)
          (if cr = true then nested (openTok st1 .curly name pos) body else convRpx (openTok st1 .curly name pos) false body none)
          (if cr then goM .top body else valMarks false body none) := by
        cases cr with
        | true => simpa using hn (openTok st1 .curly name pos) body hbody (by rw [ho]; exact hi) (by rw [ho]; exact hc)
        | false => simpa using convRpx_marks body (openTok st1 .curly name pos) false none
      generalize (if cr = true then nested (openTok st1 .curly name pos) body else convRpx (openTok st1 .curly name pos) false body none) = st3 at w2
      have w3 := wroteM_close st3 .curly pos
      have w := wroteM_congr (((e1.trans w1).trans w2).trans w3)
        (show _ = Mark.t :: ((if cr then goM .top body else valMarks false body none) ++ [Mark.t]) by simp)
      have wf : WroteM st ({ closeTok st3 .curly pos with stacks := (closeTok st3 .curly pos).stacks.dropLast } : St)
          (Mark.t :: ((if cr then goM .top body else valMarks false body none) ++ [Mark.t])) :=
        ⟨w.opts, w.ul, by simpa [St.cur] using w.ms⟩
      exact ⟨_, wf, by simp [goM]⟩
    | fn => simp only [atLoop, goM]; exact other (by simp)
    | paren => simp only [atLoop, goM]; exact other (by simp)
    | square => simp only [atLoop, goM]; exact other (by simp)
  | .leaf k pos :: ts, st, hsz, hi, hc => by
    have hszt : sizeToks ts ≤ fuelB := by simp only [sizeToks] at hsz; omega
    have generic : ∃ ms, WroteM st (atLoop nested cr startLen (st.tok (.leaf k) pos) ts).1 ms ∧
        markOfK (.leaf k) ++ goM (.atPre cr) ts = ms ++ goM .top (atLoop nested cr startLen (st.tok (.leaf k) pos) ts).2 := by
      have w := wroteM_tok st (.leaf k) pos none
      obtain ⟨ms, h1, h2⟩ := atLoop_marks nested fuelB hn cr startLen ts (st.tok (.leaf k) pos) hszt
        (by rw [w.opts]; exact hi) (by rw [w.opts]; exact hc)
      exact ⟨_, w.trans h1, by rw [h2]; simp⟩
    cases k with
    | ws => simp only [atLoop, goM]; exact atLoop_marks nested fuelB hn cr startLen ts st hszt hi hc
    | semi =>
      simp only [atLoop, goM]
      exact ⟨_, wroteM_tok st (.leaf .semi) pos none, by simp [markOfK]⟩
    | _ => simp only [atLoop, goM]; exact generic

theorem rules_marks : ∀ (fuel : Nat) (st : St) (ts : List Tok) (atStart : Bool),
    sizeToks ts < fuel → st.opts.importSign = none → st.opts.convertHost = false →
    WroteM st (rules fuel st ts atStart) (goM .top ts)
  | 0, _, _, _, h, _, _ => by omega
  | fuel + 1, st, ts, atStart, hsz, hi, hc => by
    have hds := sizeToks_dropWs ts
    rw [← goM_top_dropWs]
    unfold rules
    split
    · next hd => rw [hd]; simpa [goM] using WroteM.refl st
    · next name pos r hd =>
      rw [hd]
      rw [hd] at hds
      simp only [sizeToks, sizeTok] at hds
      have eat : atRule (fun st body => rules fuel st body true) st name pos atStart r =
          atLoop (fun st body => rules fuel st body true) (containRuleList.contains (lower name)) st.cur.items.length
            (st.tok (.leaf (.at name)) pos) r := by
        unfold atRule
        have : (if name = "import" then st.opts.importSign else none) = none := by split <;> simp [hi]
        simp only [this]
      rw [eat]
      have w0 := wroteM_tok st (.leaf (.at name)) pos none
      obtain ⟨ms, h1, h2⟩ := atLoop_marks (fun st body => rules fuel st body true) fuel
        (fun s body hb hi' hc' => rules_marks fuel s body true hb hi' hc')
        (containRuleList.contains (lower name)) st.cur.items.length r (st.tok (.leaf (.at name)) pos)
        (by omega) (by rw [w0.opts]; exact hi) (by rw [w0.opts]; exact hc)
      have hsz2 := sizeToks_atLoop (fun st body => rules fuel st body true) (containRuleList.contains (lower name)) st.cur.items.length r
        (st.tok (.leaf (.at name)) pos)
      have w1 := w0.trans h1
      have ih := rules_marks fuel _ (atLoop (fun st body => rules fuel st body true) (containRuleList.contains (lower name))
        st.cur.items.length (st.tok (.leaf (.at name)) pos) r).2 false (by omega) (by rw [w1.opts]; exact hi) (by rw [w1.opts]; exact hc)
      exact wroteM_congr (w1.trans ih) (by simp only [goM, h2]; simp [markOfK])
    · next ts' hne hnat =>
      cases hd : dropWs ts with
      | nil => exact absurd hd hne
      | cons t r =>
        have ht := dropWs_head_not_ws ts t r hd
        have hat : ∀ name p, t ≠ .leaf (.at name) p := by
          intro name p e; subst e; exact hnat name p r hd
        rw [hd] at hds
        have e : qualRule st (t :: r) = qualLoop st (t :: r) true false false := by
          rw [host_off_generic st (t :: r) hc, dropWs_cons_of_not_ws t r ht]
        rw [e]
        have w := qualLoop_marks (t :: r) st true false false
        have g := qualLoop_goM (t :: r) st true false false
        have gs := (qualLoop_go st.opts [] (t :: r) st true false false).2
        simp only [List.length_cons] at gs
        have ih := rules_marks fuel _ (qualLoop st (t :: r) true false false).2 false (by omega)
          (by rw [w.opts]; exact hi) (by rw [w.opts]; exact hc)
        exact wroteM_congr (w.trans ih) (by rw [goM_top_qual t r ht hat, g])

/-- **C08, white space of a whole stylesheet** (no host conversion, no import sign): the sequence of token / white-space marks of
the normal output of `transform` is the fuel-free reading `goM` of the input: in selectors — of top-level rules and of every rule
nested at any depth inside rule-bearing at-rules — exactly the collapse of the input's white space (`ruleMarks` / `selMarks`,
`GE/Thm/C08Ws.lean`: descendant combinators survive, none is invented), in `calc()` the blanks next to `+` / `-`, none elsewhere. -/
theorem sheet_marks (opts : Opts) (ts : List Tok) (hi : opts.importSign = none) (hc : opts.convertHost = false) :
    marks (transform opts ts).normal.items = goM .top ts := by
  have h := rules_marks (sizeToks ts + 1) ⟨opts, .empty, .empty, false, [], []⟩ ts true (by omega) hi hc
  have hu : (rules (sizeToks ts + 1) ⟨opts, .empty, .empty, false, [], []⟩ ts true).usingLow = false := h.ul
  have := h.ms
  simp only [St.cur, hu] at this
  simpa [transform, Sink.empty, marks] using this

/-! non-vacuity: `@media x{.a .b{c} :is(.d .e){f}}` — both descendant combinators are kept inside the at-rule -/
example : goM .top
    [.leaf (.at "media") ⟨0,0⟩, .leaf .ws ⟨0,6⟩, .leaf (.ident "x") ⟨0,7⟩,
     .block .curly "" [.leaf (.delim ".") ⟨0,9⟩, .leaf (.ident "a") ⟨0,10⟩, .leaf .ws ⟨0,11⟩, .leaf (.delim ".") ⟨0,12⟩, .leaf (.ident "b") ⟨0,13⟩,
       .block .curly "" [.leaf (.ident "c") ⟨0,15⟩] ⟨0,14⟩, .leaf .ws ⟨0,17⟩,
       .leaf .colon ⟨0,18⟩, .block .fn "is" [.leaf (.delim ".") ⟨0,22⟩, .leaf (.ident "d") ⟨0,23⟩, .leaf .ws ⟨0,24⟩, .leaf (.delim ".") ⟨0,25⟩,
         .leaf (.ident "e") ⟨0,26⟩] ⟨0,19⟩, .block .curly "" [.leaf (.ident "f") ⟨0,29⟩] ⟨0,28⟩] ⟨0,8⟩] =
    [.t, .t, .t, .t, .t, .w, .t, .t, .t, .t, .t, .t, .t, .t, .t, .w, .t, .t, .t, .t, .t, .t, .t] := by
  simp [goM, qualTokM, flushMarks, markOfK, selMarks, valMarks, containRuleList, lower]

end GE.Css
