"""C10 — rpx conversion is arithmetically right; other numbers keep their value (DESIGN.md §9 C10)."""
from . import csscheck

THEOREMS = ["GE.C10.rpx_error_bound", "GE.C10.rpx_sign_kept"]
THM_MODEL = ["GE.Css.block_numbers_exact", "GE.Css.convRpx_nums", "GE.Css.convCls_nums", "GE.Css.rpxLeaf_other", "GE.Css.rpxLeaf_rpx"]


def extra_cases(rng, quick):
    """rpx values whose converted value lies within one ulp of an integer or of a half, for many ratios"""
    out = []
    ratios = [750, 375, 420, 53, 7, 33, 100, 1, 0.5, 3, 640, 1080, 414, 0.1, 49, 999]
    for r in ratios:
        vals = []
        for k in (1, 2, 3, 5, 10, 17, 100, 0.5, 1.5, 2.5, 1000000):
            v = k * r / 100.0
            for txt in (repr(v), "%.6g" % v, "%.9g" % v, "-" + repr(v), "+" + repr(v)):
                vals.append(txt)
        o = {"class_prefix": None, "class_prefix_sign": None, "rpx_ratio": r, "import_sign": None, "convert_host": False, "host_is": None}
        for i in range(0, len(vals), 11):
            decls = ";".join("p%d:%srpx" % (j, v) for j, v in enumerate(vals[i:i + 11]))
            out.append((o, ".a{" + decls + ";w:calc(" + vals[i] + "rpx + 1px)}"))
    # fractional ratios x integer-written lengths that the TRUNCATED ratio divides evenly (round 12, C10-11: an integer fast path decided with `ratio as i64`)
    for r in (7.5, 3.5, 375.5, 0.5, 1.5, 2.25, 99.9):
        t = max(1, int(r))
        vals = [str(k * t) for k in (1, 2, 3, 21, 100, 750)] + ["-%d" % (3 * t), "+%d" % (6 * t), str(3 * t) + ".0"]
        o = {"class_prefix": None, "class_prefix_sign": None, "rpx_ratio": r, "import_sign": None, "convert_host": False, "host_is": None}
        decls = ";".join("p%d:%srpx" % (j, v) for j, v in enumerate(vals))
        out.append((o, ".a{" + decls + ";--gap:+%drpx;w:calc(1px - -%drpx)}@media (min-width:%drpx){.b{c:d}}" % (6 * t, 4 * t, 2 * t)))
    return out


def run(chk):
    chk.rule = ("generated stylesheets with numeric tokens over the whole i32 range, decimals, exponents, signed zero, leading + and . x rpx "
                "ratios; (1) model vs implementation including the Float32 conversion and the integer test; (2) oracle: |out-expected| <= "
                "eps_f32*|expected| for rpx and non-integers, out == n for integers, no other unit converted")
    chk.trusted = csscheck.TRUSTED + ["Mathlib (ordered-field lemmas) in GE/Thm/C10.lean only",
                                      "IEEE-754 single precision arithmetic of Lean's Float32 and of Rust f32 (round-to-nearest) — the theorem "
                                      "takes the rounding function as a parameter with |rnd x - x| <= ε|x|"]
    chk.assumptions = ["block_numbers_exact / convRpx_nums / convCls_nums: for every token tree the numeric tokens written are the input's, in order, bit for bit, "
                       "except that exactly the dimensions with unit rpx are replaced by a vw dimension carrying rpxConvert(value, ratio) (rpxLeaf_other, rpxLeaf_rpx); "
                       "rpx_error_bound is a theorem about value*100/ratio computed with two correctly rounded operations over an ordered field; "
                       "that the implementation performs exactly these two operations is tied by the model's executable Float32 definition "
                       "(rpxConvert) agreeing bit-for-bit with the implementation on every generated number; PARTIAL: the decimal printing of "
                       "the f32 (6 significant digits) is outside the model and judged by the oracle"]
    failed, log = chk.prove("GE.Thm.C10Model", THM_MODEL)
    for t in failed:
        chk.violation("proof", f"obligation {t} no longer checks", theorem=t, log=log[-3000:])
    csscheck.run_property(chk, "C10", "GE.Thm.C10", THEOREMS, 700, 12000, extra_cases=extra_cases,
                          nontrivial=lambda o, css, res: "rpx" in css)


def replay(chk, path):
    return csscheck.replay(chk, "C10", path)
