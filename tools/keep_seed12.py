#!/usr/bin/env python3
"""tools/keep_seed9.py <Cxx> <n> <commit> <caught-by> <detail…>  — copies /tmp/s12-<Cxx>/seeded.<n>.diff + demo into the next free /verif/seeded/<Cxx>-<k>/ (round 12)"""
import json, os, shutil, sys, glob
pid, n, commit, caught = sys.argv[1], int(sys.argv[2]), sys.argv[3], sys.argv[4]
detail = " ".join(sys.argv[5:])
src = f"/tmp/s12-{pid}"
k = 1
while os.path.exists(f"/verif/seeded/{pid}-{k}"):
    k += 1
dst = f"/verif/seeded/{pid}-{k}"
os.makedirs(dst)
shutil.copy(f"{src}/seeded.{n}.diff", f"{dst}/patch.diff")
if os.path.exists(f"{src}/seeded.{n}.rebased.diff"):
    shutil.copy(f"{src}/seeded.{n}.rebased.diff", f"{dst}/patch.rebased.diff")
shutil.copy(f"{src}/demo.{n}.md", f"{dst}/demonstration.md")
for f in glob.glob(f"{src}/demo{n}*"):
    if os.path.isfile(f) and os.path.getsize(f) < 60000:
        shutil.copy(f, dst)
files = [l[6:].strip() for l in open(f"{dst}/patch.diff") if l.startswith("+++ b/")]
json.dump({"property": pid, "source": "fresh sub-agent (round 12: steered towards code the models do not cover: JavaScript writers and statement skeleton, generation-time scope stack, dependency queries, recovery points, position-recording moments, import wrappers under an import sign, source-map bookkeeping, group emission) given only the property text and a scratch worktree",
           "applies_to_repo_commit": commit, "files": files, "compiles": True,
           "pinned_suite": "84 passed / 0 failed with the patch applied (tools/seed12.sh, scratch worktree)",
           "needs_to_manifest": open(f"{dst}/demonstration.md").read()[:0] or "see demonstration.md (what it needs in order to manifest)",
           "confirmed_by": "tools/seed12.sh: applied in a scratch worktree (/tmp/wtb<slot>), pinned suite run there, then a scratch copy of /verif run against it (GE_REPO); /repo untouched",
           "caught_by": caught, "detail": detail},
          open(f"{dst}/meta.json", "w"), indent=1, ensure_ascii=False)
print(dst)
