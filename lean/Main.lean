import GE.Driver
def main : IO Unit := do
  GE.Driver.loop (← IO.getStdin) (← IO.getStdout)
