#!/bin/sh
# usage: tools/thorough_some.sh <seed> <ids...>  — setup in this directory, then the thorough tier of the listed checks, one line each
S="$1"; shift
cd "$(dirname "$0")/.." || exit 2
./setup.sh >/dev/null 2>&1
for ID in "$@"; do
  START=$(date +%s)
  OUT=$(VERIF_SEED=$S ./check $ID --tier thorough 2>&1 | grep -E "^(OK|VIOLATION)|violation\[" | cut -c1-300 | head -4 | tr '\n' '|')
  echo "seed=$S $ID $(( $(date +%s) - START ))s $OUT"
done
