// Stub of glass-easel/src/element.ts
export { Element, StyleSegmentIndex } from './backend.mjs'
