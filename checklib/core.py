"""Shared machinery of the glass-easel verification checks (see DESIGN.md §6)."""
import fcntl, hashlib, json, os, re, subprocess, sys, time

VERIF = os.path.dirname(os.path.dirname(os.path.abspath(__file__)))
REPO = os.environ.get("GE_REPO", "/repo")
LEAN = os.path.join(VERIF, "lean")
HARNESS = os.path.join(VERIF, "harness")
HARNESS_BIN = os.path.join(HARNESS, "target", "debug", "geharness")
DRIVER_BIN = os.path.join(LEAN, ".lake", "build", "bin", "gedriver")
NODE22 = "/root/.nvm/versions/node/v22.22.2/bin/node"
ALLOWED_AXIOMS = {"propext", "Classical.choice", "Quot.sound"}
ENV = dict(os.environ, CARGO_NET_OFFLINE="true")


class SplitMix64:
    """The one PRNG every generator draws from (seeded by VERIF_SEED)."""

    def __init__(self, seed):
        self.s = seed & 0xFFFFFFFFFFFFFFFF

    def next(self):
        self.s = (self.s + 0x9E3779B97F4A7C15) & 0xFFFFFFFFFFFFFFFF
        z = self.s
        z = ((z ^ (z >> 30)) * 0xBF58476D1CE4E5B9) & 0xFFFFFFFFFFFFFFFF
        z = ((z ^ (z >> 27)) * 0x94D049BB133111EB) & 0xFFFFFFFFFFFFFFFF
        return z ^ (z >> 31)

    def below(self, n):
        return self.next() % n if n > 0 else 0

    def choice(self, xs):
        return xs[self.below(len(xs))]

    def chance(self, num, den):
        return self.below(den) < num

    def fork(self, tag):
        h = int.from_bytes(hashlib.sha256(f"{self.s}:{tag}".encode()).digest()[:8], "big")
        return SplitMix64(h)


def esc(s):
    o = []
    for c in s:
        if c == "\\":
            o.append("\\\\")
        elif c == "\t":
            o.append("\\t")
        elif c == "\n":
            o.append("\\n")
        elif c == "\r":
            o.append("\\r")
        elif " " <= c <= "~":
            o.append(c)
        else:
            o.append("\\u{%X}" % ord(c))
    return "".join(o)


_UNESC = re.compile(r"\\(\\|t|n|r|u\{([0-9A-Fa-f]+)\})")


def unesc(s):
    def f(m):
        g = m.group(1)
        if g == "\\":
            return "\\"
        if g == "t":
            return "\t"
        if g == "n":
            return "\n"
        if g == "r":
            return "\r"
        return chr(int(m.group(2), 16))

    return _UNESC.sub(f, s)


def req(op, *fields):
    return "\t".join([op] + [esc(f) for f in fields])


class Lock:
    def __enter__(self):
        self.f = open(os.path.join(VERIF, ".lock"), "w")
        fcntl.flock(self.f, fcntl.LOCK_EX)
        return self

    def __exit__(self, *a):
        fcntl.flock(self.f, fcntl.LOCK_UN)
        self.f.close()


def sh(cmd, cwd=None, timeout=None, input=None, env=None):
    p = subprocess.run(cmd, cwd=cwd, shell=isinstance(cmd, str), stdout=subprocess.PIPE,
                       stderr=subprocess.STDOUT, timeout=timeout, input=input,
                       env=env or ENV, text=True, errors="replace")
    return p.returncode, p.stdout


def write_if_changed(path, content):
    try:
        if open(path).read() == content:
            return False
    except FileNotFoundError:
        pass
    os.makedirs(os.path.dirname(path), exist_ok=True)
    with open(path, "w") as f:
        f.write(content)
    return True


# checks that use an extracted table without importing it through the theorem modules they hand to `model_tie`
TABLE_USERS = {"CssOutputShape": ("C08", "C19"), "CssTables": ("C01",)}


def depends_on_table(modules, table):
    """does one of these Lean modules import GE.Extracted.<table>, directly or not"""
    seen, todo = set(), list(modules)
    while todo:
        m = todo.pop()
        if m in seen:
            continue
        seen.add(m)
        if m == "GE.Extracted." + table:
            return True
        path = os.path.join(LEAN, *m.split(".")) + ".lean"
        if os.path.exists(path):
            todo += re.findall(r"^import\s+(GE\.[\w.]+)", open(path).read(), re.M)
    return False


class BrokenTie(Exception):
    """The model can no longer be tied to /repo (extractor pattern lost, build failure, …)."""

    def __init__(self, what, detail=""):
        super().__init__(what)
        self.what = what
        self.detail = detail


def build_harness():
    with Lock():
        rc, out = sh(["cargo", "build", "--offline"], cwd=HARNESS, timeout=1800)
    if rc != 0:
        raise BrokenTie("harness-build", out[-4000:])
    return out


def lake_build(targets):
    with Lock():
        rc, out = sh(["lake", "build"] + list(targets), cwd=LEAN, timeout=3600)
    return rc == 0, out


def run_lines(binary, args, lines, timeout=1800):
    data = "\n".join(lines) + "\n"
    p = subprocess.run([binary] + args, input=data.encode(), stdout=subprocess.PIPE,
                       stderr=subprocess.PIPE, timeout=timeout, env=ENV)
    out = p.stdout.decode("utf-8", "replace").split("\n")
    if out and out[-1] == "":
        out.pop()
    return p.returncode, out, p.stderr.decode("utf-8", "replace")


def run_harness(lines, timeout=1800):
    rc, out, err = run_lines(HARNESS_BIN, ["run"], lines, timeout)
    if rc != 0 or len(out) != len(lines):
        raise BrokenTie("harness-run", f"rc={rc} answers={len(out)}/{len(lines)} {err[-2000:]}")
    return out


MODEL_OK = True   # cleared by Check.model_tie when the model cannot be tied to /repo: the oracles still run


def run_driver(lines, timeout=1800):
    if not MODEL_OK:
        return [None] * len(lines)
    rc, out, err = run_lines(DRIVER_BIN, [], lines, timeout)
    if rc != 0 or len(out) != len(lines):
        raise BrokenTie("driver-run", f"rc={rc} answers={len(out)}/{len(lines)} {err[-2000:]}")
    return out


def audit_axioms(module, theorems):
    """#print axioms for each theorem; returns {name: set(axioms) | None if missing}."""
    src = f"import {module}\n" + "".join(f"#print axioms {t}\n" for t in theorems)
    tmpd = os.path.join(LEAN, ".lake", "audit")
    os.makedirs(tmpd, exist_ok=True)
    path = os.path.join(tmpd, module.replace(".", "_") + "_audit.lean")
    with open(path, "w") as f:
        f.write(src)
    rc, out = sh(["lake", "env", "lean", path], cwd=LEAN, timeout=1800)
    res = {t: None for t in theorems}
    for m in re.finditer(r"'([^']+)' depends on axioms: \[([^\]]*)\]", out):
        res[m.group(1)] = set(x.strip() for x in m.group(2).replace("\n", " ").split(",") if x.strip())
    for m in re.finditer(r"'([^']+)' does not depend on any axioms", out):
        res[m.group(1)] = set()
    return res, out


FORBIDDEN = re.compile(r"\bsorry\b|\badmit\b|^axiom |native_decide|bv_decide|implemented_by|\bunsafe |maxHeartbeats 0", re.M)


def grep_forbidden(files):
    hits = []
    for f in files:
        txt = open(f).read()
        # strip comments (block and line)
        txt2 = re.sub(r"/-.*?-/", lambda m: "\n" * m.group(0).count("\n"), txt, flags=re.S)
        txt2 = re.sub(r"--.*", "", txt2)
        for m in FORBIDDEN.finditer(txt2):
            hits.append((f, txt2.count("\n", 0, m.start()) + 1, m.group(0)))
    return hits


def lean_sources():
    res = []
    for root, _, fs in os.walk(os.path.join(LEAN, "GE")):
        for f in fs:
            if f.endswith(".lean"):
                res.append(os.path.join(root, f))
    res.append(os.path.join(LEAN, "Main.lean"))
    return sorted(res)


def load_known_findings(pid):
    res = []
    p = os.path.join(VERIF, "known_findings.jsonl")
    if os.path.exists(p):
        for line in open(p):
            line = line.strip()
            if not line or line.startswith("#"):
                continue
            o = json.loads(line)
            if o.get("property") == pid:
                res.append(o)
    return res


class Check:
    """One run of one property's check: collects obligations, cases, violations, evidence."""

    def __init__(self, pid, tier, seed):
        self.pid, self.tier, self.seed = pid, tier, seed
        self.t0 = time.time()
        self.rng = SplitMix64(seed)
        self.obligations = []       # (name, ok, note)
        self.evaluations = 0
        self.distinct = set()
        self.distinct_extra = 0
        self.samples = []
        self.violations = []        # dicts
        self.known_hits = {}        # key -> count
        self.cov = {}
        self.assumptions = []
        self.trusted = []
        self.programs = 0
        self.disagreements_checked = 0
        self.known = load_known_findings(pid)
        self.checker_cmd = ""
        self.rule = ""
        self.notes = []

    # ---- proof obligations -------------------------------------------------
    def prove(self, module, theorems, extra_targets=()):
        """Build `module` and audit `theorems`. Returns list of failed theorem names."""
        ok, log = lake_build([module] + list(extra_targets))
        self.checker_cmd = f"cd lean && lake build {module} && lake env lean <#print axioms of each obligation>"
        failed = []
        if not ok:
            # find which declarations errored
            self.notes.append("lake build failed: " + log[-3000:])
            for t in theorems:
                self.obligations.append((t, False, "module does not build"))
            return list(theorems), log
        res, out = audit_axioms(module, theorems)
        for t in theorems:
            ax = res.get(t)
            if ax is None:
                self.obligations.append((t, False, "theorem not found"))
                failed.append(t)
            elif not ax <= ALLOWED_AXIOMS:
                self.obligations.append((t, False, "axioms " + ",".join(sorted(ax))))
                failed.append(t)
            else:
                self.obligations.append((t, True, "axioms " + ",".join(sorted(ax))))
        hits = grep_forbidden(lean_sources())
        if hits:
            self.obligations.append(("no-sorry-axiom-native_decide", False, str(hits[:5])))
            failed.append("forbidden-token:" + str(hits[0]))
        else:
            self.obligations.append(("no-sorry-axiom-native_decide", True, "grep clean"))
        return failed, log

    def model_tie(self, provers, regen=True, driver=True):
        """Regenerate the extracted tables, re-check the obligations, rebuild the driver.  A broken tie is a
        violation (no failing input known yet) and switches the model comparisons off; the caller goes on
        with its model-independent oracle, which is what may find the concrete failing input."""
        global MODEL_OK
        try:
            lost = []
            if regen:
                from . import extractors
                extractors.regen_all()
                lost = [L for L in extractors.LOST if self.pid in TABLE_USERS.get(L["table"], ()) or depends_on_table([m for m, _ in provers], L["table"])]
            for module, theorems in provers:
                failed, log = self.prove(module, theorems)
                for t in failed:
                    self.violation("proof", f"obligation {t} no longer checks", theorem=t, log=log[-3000:])
            if driver:
                ok, log = lake_build(["gedriver"])
                if not ok:
                    raise BrokenTie("driver-build", log)
            for L in lost:
                # the regenerated half of the tie is lost for this table; the model that embeds it (as shipped) is run against the implementation
                # right now on a stream that exercises every entry — a difference is a correspondence violation like any other
                from . import fallback
                if not driver or not fallback.run(self, L["key"]):
                    raise BrokenTie("extract:" + L["key"], L["why"])
                line = (f"TIE-NOTE: property={self.pid} extractor {L['key']} no longer finds its pattern in the source ({L['why']}); "
                        f"table as shipped, tie re-established by the correspondence stream fallback:{L['key']}")
                self.notes.append(line)
                print(line)
            return True
        except BrokenTie as e:
            MODEL_OK = False
            self.notes.append(e.detail[-3000:])
            self.violation("correspondence", f"tie to /repo broken: {e.what}", detail=e.detail[-3000:])
            return False

    def leanchecker(self, modules):
        for m in modules:
            rc, out = sh(["lake", "env", "leanchecker", m], cwd=LEAN, timeout=3600)
            self.obligations.append((f"leanchecker:{m}", rc == 0, out[-300:]))

    # ---- cases -----------------------------------------------------------
    def case(self, key, nontrivial=True, sample=None):
        self.evaluations += 1
        if nontrivial:
            self.distinct.add(hashlib.blake2b(repr(key).encode(), digest_size=8).digest())
        if sample is not None and len(self.samples) < 8:
            self.samples.append(sample)

    def failed_obligations(self):
        return [n for (n, ok, _) in self.obligations if not ok]

    def bump(self, k, n=1):
        self.cov[k] = self.cov.get(k, 0) + n

    # ---- violations ---------------------------------------------------------
    def match_known(self, v):
        for k in self.known:
            if k.get("status") != "known":
                continue
            m = k.get("match", {})
            ok = True
            for field, pat in m.items():
                val = v.get(field)
                if val is None or not re.search(pat, val if isinstance(val, str) else json.dumps(val)):
                    ok = False
                    break
            if ok:
                return k
        return None

    def violation(self, kind, what, **data):
        """kind: input | proof | correspondence.  data: replay payload."""
        v = dict(property=self.pid, kind=kind, what=what, **data)
        k = self.match_known(v) if kind == "input" else None
        if k is not None:
            self.known_hits[k["key"]] = self.known_hits.get(k["key"], 0) + 1
            if self.known_hits[k["key"]] == 1:
                self.known_first = getattr(self, "known_first", {})
                self.known_first[k["key"]] = v
            return False
        self.violations.append(v)
        return True

    # ---- finish ----------------------------------------------------------
    def finish(self, level="proof"):
        os.makedirs(os.path.join(VERIF, "evidence"), exist_ok=True)
        os.makedirs(os.path.join(VERIF, "replays"), exist_ok=True)
        for k in self.known:
            if k.get("status") == "known" and k["key"] in self.known_hits:
                print(f"KNOWN-FINDING: property={self.pid} {k['what']} [{k['key']}; {self.known_hits[k['key']]} case(s) this run]")
        replay = None
        no_input = False
        if self.violations:
            # prefer a concrete failing input as the replay
            inputs = [v for v in self.violations if v["kind"] == "input"]
            first = inputs[0] if inputs else self.violations[0]
            no_input = not inputs
            h = hashlib.sha256(json.dumps(first, sort_keys=True, default=str).encode()).hexdigest()[:12]
            replay = os.path.join(VERIF, "replays", f"{self.pid}-{h}.json")
            with open(replay, "w") as f:
                json.dump(dict(first=first, all=self.violations[:50], seed=self.seed, tier=self.tier,
                               notes=self.notes[-5:]), f, indent=1, default=str)
        n_ob = len(self.obligations)
        n_ok = sum(1 for o in self.obligations if o[1])
        cov = dict(
            obligations=n_ob, discharged=n_ok,
            checker_cmd=self.checker_cmd or "lake build",
            trusted_base=self.trusted or ["Lean 4.33 kernel", "axioms propext/Classical.choice/Quot.sound only"],
            obligation_list=[dict(name=o[0], ok=o[1], note=o[2]) for o in self.obligations],
            evaluations=self.evaluations, distinct_nontrivial=len(self.distinct) + self.distinct_extra,
            rule=self.rule, samples=self.samples or ["(none)"],
            programs=self.programs, disagreements_checked=self.disagreements_checked,
            distribution=self.cov,
            known_findings_hit=self.known_hits,
        )
        ev = dict(property_id=self.pid, tier=self.tier, seed=self.seed, level=level, coverage=cov,
                  assumptions=self.assumptions, wall_s=round(time.time() - self.t0, 2),
                  violations=len(self.violations))
        with open(os.path.join(VERIF, "evidence", f"{self.pid}.json"), "w") as f:
            json.dump(ev, f, indent=1, default=str)
        if self.violations:
            for v in self.violations[:5]:
                print(f"  violation[{v['kind']}]: {v['what']}")
            tail = " no-failing-input-found" if no_input else ""
            print(f"VIOLATION property={self.pid} replay={replay}{tail}")
            return 1
        print(f"OK property={self.pid} tier={self.tier} obligations={n_ok}/{n_ob} cases={self.evaluations} "
              f"distinct={len(self.distinct) + self.distinct_extra} wall={ev['wall_s']}s")
        return 0


def diff_streams(chk, name, reqs, real, model, describe=None, on_diff=None, max_report=5):
    """Correspondence: compare model and implementation answers request by request."""
    if not MODEL_OK:
        chk.bump(f"corr:{name}:skipped-model-unavailable", len(reqs))
        return 0
    nd = 0
    for i, (r, a, b) in enumerate(zip(reqs, real, model)):
        chk.disagreements_checked += 1
        if a != b:
            nd += 1
            if on_diff is not None:
                on_diff(i, r, a, b)
            elif nd <= max_report:
                chk.violation("correspondence", f"stream {name}: model and implementation differ on case {i}",
                              stream=name, request=r, real=a, model=b)
    chk.bump(f"corr:{name}:cases", len(reqs))
    chk.bump(f"corr:{name}:diffs", nd)
    return nd


def run_node(reqs, timeout=3600):
    """reqs: list of JSON-able objects for js/runner.mjs; returns list of decoded answers."""
    for r in reqs:
        if isinstance(r, dict) and r.get("op") == "render":
            r.setdefault("slotValues", True)     # slot value n reads as the probe "SV:n" (see js/runner.mjs)
    data = "\n".join(json.dumps(r) for r in reqs) + "\n"
    p = subprocess.run([NODE22, os.path.join(VERIF, "js", "runner.mjs")], input=data.encode(),
                       stdout=subprocess.PIPE, stderr=subprocess.PIPE, timeout=timeout, env=ENV)
    out = [l for l in p.stdout.decode("utf-8", "replace").split("\n") if l.strip()]
    if p.returncode != 0 or len(out) != len(reqs):
        raise BrokenTie("node-runner", f"rc={p.returncode} answers={len(out)}/{len(reqs)} {p.stderr.decode('utf-8','replace')[-2000:]}")
    return [json.loads(l) for l in out]


_RUNTIME = None


def runtime_string():
    """the X/Y/Z/P/Q helper definitions as emitted by the real compiler"""
    global _RUNTIME
    if _RUNTIME is None:
        o = json.loads(run_harness([req("group", json.dumps({"files": []}))])[0])
        _RUNTIME = o["runtime"]
    return _RUNTIME
