/-
C14 — stringify is a faithful inverse of parse: the escaping part.
`decode_escBody` / `decode_escQuote`: for EVERY string, the text written by `escape_html_body` /
`escape_html_quote` is decoded by the entity scanner back to the original string, whatever other named or
numeric references the tables know (the escaped text contains no `&` other than the ones the escaper
wrote, and each of them starts `&lt;`, `&quot;` or `&amp;`).
-/
import GE.Model.Escape

namespace GE.Esc

/-- the three references the escapers write decode as they should -/
def TablesOk (t : Tables) : Prop :=
  t.named ['l', 't'] = some ['<'] ∧ t.named ['q', 'u', 'o', 't'] = some ['"'] ∧ t.named ['a', 'm', 'p'] = some ['&']

theorem entityAt_lt (t : Tables) (h : TablesOk t) (rest : List Char) :
    entityAt t ("lt;".toList ++ rest) = some (['<'], rest) := by
  simp [entityAt, isAlpha, scanName, isDigit, h.1]
theorem entityAt_quot (t : Tables) (h : TablesOk t) (rest : List Char) :
    entityAt t ("quot;".toList ++ rest) = some (['"'], rest) := by
  simp [entityAt, isAlpha, scanName, isDigit, h.2.1]
theorem entityAt_amp (t : Tables) (h : TablesOk t) (rest : List Char) :
    entityAt t ("amp;".toList ++ rest) = some (['&'], rest) := by
  simp [entityAt, isAlpha, scanName, isDigit, h.2.2]

theorem escBody_cons (c : Char) (s : List Char) : escBody (c :: s) = escBodyChar c ++ escBody s := by
  simp [escBody]
theorem escQuote_cons (c : Char) (s : List Char) : escQuote (c :: s) = escQuoteChar c ++ escQuote s := by
  simp [escQuote]

theorem escBodyChar_len (c : Char) : 1 ≤ (escBodyChar c).length := by
  unfold escBodyChar; split <;> (try split) <;> (try split) <;> simp
theorem escQuoteChar_len (c : Char) : 1 ≤ (escQuoteChar c).length := by
  unfold escQuoteChar; split <;> (try split) <;> simp

/-- **round trip of text escaping** (any fuel that covers the escaped text) -/
theorem decode_escBody (t : Tables) (h : TablesOk t) : ∀ (s : List Char) (n : Nat), (escBody s).length ≤ n →
    decode t n (escBody s) = s
  | [], n, _ => by cases n <;> simp [escBody, decode]
  | c :: s, n, hn => by
    rw [escBody_cons] at hn ⊢
    have hl := escBodyChar_len c
    cases n with
    | zero => simp only [List.length_append] at hn; omega
    | succ n =>
      have ih := fun m hm => decode_escBody t h s m hm
      by_cases h1 : c = '<'
      · subst h1
        have e : escBodyChar '<' ++ escBody s = '&' :: ("lt;".toList ++ escBody s) := by simp [escBodyChar]
        rw [e, decode]
        simp only [if_true, entityAt_lt t h]
        have : (escBody s).length ≤ n := by rw [e] at hn; simp at hn; omega
        simp [ih n this]
      · by_cases h2 : c = '"'
        · subst h2
          have e : escBodyChar '"' ++ escBody s = '&' :: ("quot;".toList ++ escBody s) := by simp [escBodyChar]
          rw [e, decode]
          simp only [if_true, entityAt_quot t h]
          have : (escBody s).length ≤ n := by rw [e] at hn; simp at hn; omega
          simp [ih n this]
        · by_cases h3 : c = '&'
          · subst h3
            have e : escBodyChar '&' ++ escBody s = '&' :: ("amp;".toList ++ escBody s) := by simp [escBodyChar]
            rw [e, decode]
            simp only [if_true, entityAt_amp t h]
            have : (escBody s).length ≤ n := by rw [e] at hn; simp at hn; omega
            simp [ih n this]
          · have e : escBodyChar c ++ escBody s = c :: escBody s := by simp [escBodyChar, h1, h2, h3]
            rw [e, decode]
            have : (escBody s).length ≤ n := by rw [e] at hn; simp at hn; omega
            simp [h3, ih n this]

theorem decode_escQuote (t : Tables) (h : TablesOk t) : ∀ (s : List Char) (n : Nat), (escQuote s).length ≤ n →
    decode t n (escQuote s) = s
  | [], n, _ => by cases n <;> simp [escQuote, decode]
  | c :: s, n, hn => by
    rw [escQuote_cons] at hn ⊢
    cases n with
    | zero => have := escQuoteChar_len c; simp only [List.length_append] at hn; omega
    | succ n =>
      have ih := fun m hm => decode_escQuote t h s m hm
      by_cases h2 : c = '"'
      · subst h2
        have e : escQuoteChar '"' ++ escQuote s = '&' :: ("quot;".toList ++ escQuote s) := by simp [escQuoteChar]
        rw [e, decode]
        simp only [if_true, entityAt_quot t h]
        have : (escQuote s).length ≤ n := by rw [e] at hn; simp at hn; omega
        simp [ih n this]
      · by_cases h3 : c = '&'
        · subst h3
          have e : escQuoteChar '&' ++ escQuote s = '&' :: ("amp;".toList ++ escQuote s) := by simp [escQuoteChar]
          rw [e, decode]
          simp only [if_true, entityAt_amp t h]
          have : (escQuote s).length ≤ n := by rw [e] at hn; simp at hn; omega
          simp [ih n this]
        · have e : escQuoteChar c ++ escQuote s = c :: escQuote s := by simp [escQuoteChar, h2, h3]
          rw [e, decode]
          have : (escQuote s).length ≤ n := by rw [e] at hn; simp at hn; omega
          simp [h3, ih n this]

/-- the escaped body text contains no `<` and no `"`: it cannot open a tag or close an attribute -/
theorem escBody_safe (s : List Char) : ∀ c ∈ escBody s, c ≠ '<' ∧ c ≠ '"' := by
  intro c hc
  simp only [escBody, List.mem_flatMap] at hc
  obtain ⟨d, _, hd⟩ := hc
  unfold escBodyChar at hd
  split at hd
  · simp at hd; rcases hd with h | h | h | h <;> subst h <;> decide
  · split at hd
    · simp at hd; rcases hd with h | h | h | h | h | h <;> subst h <;> decide
    · split at hd
      · simp at hd; rcases hd with h | h | h | h | h <;> subst h <;> decide
      · simp at hd; subst hd; constructor <;> assumption

theorem escQuote_safe (s : List Char) : ∀ c ∈ escQuote s, c ≠ '"' := by
  intro c hc
  simp only [escQuote, List.mem_flatMap] at hc
  obtain ⟨d, _, hd⟩ := hc
  unfold escQuoteChar at hd
  split at hd
  · simp at hd; rcases hd with h | h | h | h | h | h <;> subst h <;> decide
  · split at hd
    · simp at hd; rcases hd with h | h | h | h | h <;> subst h <;> decide
    · simp at hd; subst hd; assumption

/-! non-vacuity -/
def exTables : Tables := ⟨fun n => if n = "lt".toList then some ['<'] else if n = "quot".toList then some ['"']
  else if n = "amp".toList then some ['&'] else if n = "gt".toList then some ['>'] else none, fun _ _ => none⟩
example : TablesOk exTables := by simp [TablesOk, exTables]
example : decode exTables 100 (escBody "a<b & \"&lt;\"".toList) = "a<b & \"&lt;\"".toList := by decide

end GE.Esc
