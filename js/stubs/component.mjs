// Stub of glass-easel/src/component.ts: the static helpers ProcGenWrapper reaches for.
export { Component } from './backend.mjs'
