/-!
Model of the three integer scanners of `parse_number` (`parse/expr.rs`) at digit level:
octal / hexadecimal through `RadixIntAccumulator` (128-bit window, dropped-bit count, sticky flag),
decimal through checked `i64` arithmetic.  No arithmetic step can overflow or panic.
-/
namespace GE.Number

def i64Max : Nat := 2 ^ 63 - 1
def u128Bound : Nat := 2 ^ 128

/-- `RadixIntAccumulator` -/
structure Acc where
  bits : Nat          -- bits per digit (3 or 4)
  high : Nat          -- `u128`
  dropped : Nat       -- `dropped_bits`
  sticky : Bool       -- `dropped_nonzero`
deriving Repr, DecidableEq

def Acc.new (bits : Nat) : Acc := ⟨bits, 0, 0, false⟩

/-- `high.leading_zeros() >= bits_per_digit`, i.e. the shifted value still fits in 128 bits -/
def Acc.hasRoom (a : Acc) : Bool := a.high * 2 ^ a.bits < u128Bound

def Acc.push (a : Acc) (d : Nat) : Acc :=
  if a.dropped = 0 ∧ a.hasRoom then { a with high := a.high * 2 ^ a.bits + d }
  else { a with dropped := a.dropped + a.bits, sticky := a.sticky || d != 0 }

inductive Lit where
  | int (v : Nat)                              -- `LitInt` (non-negative)
  | float (high dropped : Nat) (sticky : Bool)  -- `LitFloat` of (high | sticky) · 2^dropped, correctly rounded
  | floatText                                   -- decimal overflow: the source slice goes to `str::parse::<f64>`
deriving Repr, DecidableEq

def Acc.finish (a : Acc) : Lit :=
  if a.dropped = 0 ∧ a.high ≤ i64Max then .int a.high else .float a.high a.dropped a.sticky

def scanRadix (bits : Nat) (digits : List Nat) : Lit := (digits.foldl Acc.push (Acc.new bits)).finish

/-- value of a digit string in radix `2^bits` -/
def radixValue (bits : Nat) (digits : List Nat) : Nat := digits.foldl (fun v d => v * 2 ^ bits + d) 0

/-- decimal: `int = x.checked_mul(10).and_then(|x| x.checked_add(d))` -/
def decStep (int : Option Nat) (d : Nat) : Option Nat :=
  match int with
  | some x => if x * 10 + d ≤ i64Max then some (x * 10 + d) else none
  | none => none

def scanDec (digits : List Nat) : Lit :=
  match digits.foldl decStep (some 0) with
  | some v => .int v
  | none => .floatText

def decValue (digits : List Nat) : Nat := digits.foldl (fun v d => v * 10 + d) 0

end GE.Number
