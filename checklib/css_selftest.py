"""Self-test of the stylesheet oracles: N generated stylesheets x options through the harness,
every check, and a table classification -> count with one example each.

  GE_CSS_HARNESS=/tmp/harness_css/target/debug/geharness python3 -m checklib.css_selftest [N] [seed]

(without GE_CSS_HARNESS the regular harness binary is used; it must know the `css` op)
"""
import json, os, sys, time

sys.path.insert(0, os.path.dirname(os.path.dirname(os.path.abspath(__file__))))
from checklib import core, cssgen, cssoracle  # noqa: E402


def harness_bin():
    return os.environ.get("GE_CSS_HARNESS") or core.HARNESS_BIN


def run_css(cases):
    """cases: [(opts dict, css text)] -> [decoded answer]"""
    lines = [core.req("css", json.dumps(o), s) for o, s in cases]
    b = harness_bin()
    args = ["run"] if os.path.basename(os.path.dirname(os.path.dirname(os.path.dirname(b)))) == "verif" or b == core.HARNESS_BIN else []
    rc, out, err = core.run_lines(b, args, lines)
    if rc != 0 or len(out) != len(lines):
        raise core.BrokenTie("harness-run", "rc=%s answers=%d/%d %s" % (rc, len(out), len(lines), err[-2000:]))
    return [json.loads(l) for l in out]


def main():
    n = int(sys.argv[1]) if len(sys.argv) > 1 else 2000
    seed = int(sys.argv[2]) if len(sys.argv) > 2 else 20260929
    rng = core.SplitMix64(seed)
    t0 = time.time()
    cases = []
    for i in range(n):
        r = rng.fork("css:%d" % i)
        css = cssgen.gen_stylesheet(r.fork("sheet"), 1 + r.below(6))
        cases.append((cssgen.gen_options(r.fork("opts")), css, i, "wf"))
    nm = max(1, n // 4)
    for i in range(nm):
        r = rng.fork("mut:%d" % i)
        base = cases[r.below(n)][1]
        cases.append((cssgen.gen_options(r.fork("opts")), cssgen.mutate(r.fork("m"), base), i, "mut"))
    t1 = time.time()
    answers = run_css([(o, s) for o, s, _, _ in cases])
    t2 = time.time()
    table = {}
    clean = 0
    for (o, s, i, kind), res in zip(cases, answers):
        if kind == "mut":
            probs = {"C01": cssoracle.check_c01(o, res)}
        else:
            probs = cssoracle.run_all(o, res)
        any_p = False
        for pid, ps in probs.items():
            for p in ps:
                any_p = True
                k = (pid, p["classification"])
                e = table.setdefault(k, dict(count=0, cases=set(), example=None))
                e["count"] += 1
                e["cases"].add((kind, i))
                if e["example"] is None or len(s) < len(e["example"][1]):
                    e["example"] = (o, s, p)
        if not any_p:
            clean += 1
    t3 = time.time()
    print("stylesheets: %d well-formed + %d mutated; clean cases: %d" % (n, nm, clean))
    print("generate %.2fs  harness %.2fs (%.0f sheets/s)  oracles %.2fs (%.0f sheets/s)  total %.0f sheets/s"
          % (t1 - t0, t2 - t1, len(cases) / max(1e-9, t2 - t1), t3 - t2, len(cases) / max(1e-9, t3 - t2),
             len(cases) / max(1e-9, t3 - t0)))
    print("%-5s %-78s %7s %6s" % ("prop", "classification", "count", "cases"))
    for (pid, cls), e in sorted(table.items()):
        print("%-5s %-78s %7d %6d" % (pid, cls, e["count"], len(e["cases"])))
    print()
    for (pid, cls), e in sorted(table.items()):
        o, s, p = e["example"]
        print("== %s %s" % (pid, cls))
        print("   what:    %s" % p["what"])
        for k in ("at", "expected", "got", "context", "excerpt"):
            if p.get(k) is not None:
                print("   %-8s %s" % (k + ":", json.dumps(p[k], ensure_ascii=False) if not isinstance(p[k], str) else p[k].replace("\n", "\\n")))
        print("   opts:    %s" % json.dumps(o, ensure_ascii=False))
        print("   css:     %s" % json.dumps(s if len(s) < 400 else s[:400] + "…", ensure_ascii=False))
    return 0


if __name__ == "__main__":
    sys.exit(main())
