"""C03 — binding expressions evaluate with JavaScript semantics (DESIGN.md §9 C03)."""
import json, re
from . import core, exprgen as eg

THEOREMS = [
    "GE.Gen.gen_derives",
    "GE.Gen.prepare_derives",
    "GE.Gen.binArm_ok",
    "GE.Gen.unArm_ok",
    "GE.Gen.lvl_member_kinds",
    "GE.Gen.lvl_cond_kinds",
    "GE.Gen.special_arms_ok",
    "GE.Gen.paren_rule_ok",
]

U = {"$": "undefined"}
POOL = [0, {"$": "-0"}, 1, 2, "", "s", "1", {"$": "nan"}, None, U, True, False, {"p": 1, "q": {"r": 2}}, [1, 2, 3], [], {},
        {"$": "fn", "name": "id"}, {"$": "fn", "name": "add"}, "ab", -1, 3.5, {"p": None, "q": 0}, [[1], {"p": "x"}], {"$": "fn", "name": "obj"}]
NAMES = ["a", "b", "c", "d", "f", "o", "l", "n", "x", "y", "z", "$x", "_y", "p", "q"]


def envs(k):
    res = []
    for j in range(k):
        D = {}
        for i, nm in enumerate(NAMES):
            D[nm] = POOL[(i * 7 + j * 5 + (i * j) % 3) % len(POOL)]
        s0 = POOL[(j * 11 + 3) % len(POOL)]
        res.append((D, s0))
    # one env where callables/objects sit where members and calls are likely
    D = {nm: POOL[(i * 5) % len(POOL)] for i, nm in enumerate(NAMES)}
    D.update({"f": {"$": "fn", "name": "add"}, "o": {"p": 1, "q": {"r": 2}}, "l": [1, 2, 3], "a": 2, "b": 3, "c": "4", "x": {"p": {"p": 7}}, "y": 1, "z": 0})
    res.append((D, {"p": [5, 6]}))
    # all-numeric environment: distinguishes every mis-association of arithmetic / bitwise / comparison operators
    D = {nm: v for nm, v in zip(NAMES, [6, 3, 5, 9, 7, 12, 10, 11, 1, 2, 4, 13, 14, 8, 15])}
    res.append((D, 3))
    D = {nm: v for nm, v in zip(NAMES, [-6, 3.5, 0, 2, 1, -1, 8, 0.5, -3, 2, 7, 1, 0, 5, 4])}
    res.append((D, -2))
    # falsy-but-not-nullish first operands with truthy, distinct later operands: separates `??` from `||` and from `?:`,
    # and X()'s null test from a truthiness test
    D = {nm: v for nm, v in zip(NAMES, [0, 1, 5, False, "", {"$": "nan"}, "", {"$": "-0"}, "", 2, 7, 0, False, "", 9])}
    res.append((D, 0))
    D = {nm: v for nm, v in zip(NAMES, [None, 0, 5, U, "", 1, None, 2, U, False, 7, None, "", 3, 0])}
    res.append((D, None))
    return res


def norm_floats(s):
    def f(m):
        try:
            return '(float "%r")' % float(m.group(1))
        except ValueError:
            return m.group(0)
    return re.sub(r'\(float "([^"]*)"\)', f, s)


def num_norm(s):
    """numeric literals by value: (int N) and (float "text") become (num value)"""
    from .c16 import js_number
    def f(m):
        v = js_number(m.group(1))
        return '(num %r)' % v if v is not None else m.group(0)
    s = re.sub(r'\(int (-?[0-9]+)\)', f, s)
    return re.sub(r'\(float "([^"]*)"\)', f, s)


def canon(v):
    """canonical comparison form of an encoded value (functions by name, objects keyed in order)"""
    return json.dumps(v, sort_keys=False)


def run(chk):
    quick = chk.tier != "thorough"
    chk.rule = ("expression trees: exhaustive (parent form x child form x operand position) to depth 2 (~3.8k trees) + random trees to depth 4/5; each "
                "printed with minimal / full / random parentheses+blanks+comments; each evaluated under several data environments from an edge-value pool; "
                "non-trivial = compound tree (not a bare leaf)")
    chk.trusted = ["Lean 4.33 kernel", "axioms ⊆ {propext, Classical.choice, Quot.sound}",
                   "GE/Spec/JsGrammar.lean: stratified ECMAScript expression grammar (hand-written from ECMA-262 §13)",
                   "tables extracted from proc_gen/expr.rs, stringify/expr.rs, parse/expr.rs by checklib/extractors.py",
                   "GE/Model/ExprGen.lean tied to to_proc_gen_rec by byte-equality of value + hoisted statements through a cfg hook",
                   "V8 as the meaning of JavaScript (oracle)", "node runner encode/decode", "lexing of the concatenated spellings back into the model's tokens is not proved"]
    chk.assumptions = ["parse_print (GE/Thm/C14Parse.lean): the token-level model of the expression parser (its precedence chain is the extracted parse_left_to_right! chain) reads "
                       "back every printed expression as the tree that was printed; the model parser is compared with the real parser on every generated source "
                       "(corr:wparse). gen_preserves (GE/Thm/C03Sem.lean): for every expression without a spread operand, after the hoisted var statements have run the emitted "
                       "value tree evaluates to the value of the WXML expression (null-safe reads through X, calls through P, ?? through its temporary, conditionals and "
                       "index expressions through their hoisted operands), for EVERY total, side-effect-free interpretation of the primitive operations; spread operands "
                       "(Object.assign / concat) and operations that throw (finding D26) are outside that theorem: V8 oracle",
                       "callee functions are pure; throwing cases (instanceof with a non-callable right operand) count as equal when both sides throw",
                       "float literals are carried as Rust-printed text; their value is compared through V8 only"]
    chk.model_tie([("GE.Thm.C02Expr", THEOREMS), ("GE.Thm.C14Parse", ["GE.Parse.parse_print", "GE.Parse.parse_print_id", "GE.Parse.bin_table", "GE.Parse.un_table"]),
                   ("GE.Thm.C03Sem", ["GE.Sem.gen_preserves", "GE.Sem.body_sem", "GE.Sem.args_sem", "GE.Sem.obj_sem", "GE.Sem.arr_sem", "GE.Sem.stable",
                                      "GE.Sem.fresh_of_scopes", "GE.Sem.evalJs_congr"])])

    trees = eg.enum_depth2()
    # member reads on every data field (the pool gives each of them a falsy non-nullish value in some environment:
    # '' / 0 / false / NaN have inherited properties, null / undefined read as undefined)
    for n in ["a", "b", "c", "d", "f", "o", "l", "n", "x", "y", "z", "p", "q"]:
        for m in ["length", "constructor", "p"]:
            trees.append(("smember", ("data", n), m))
            trees.append(("dmember", ("data", n), ("str", m, '"')))
            trees.append(("smember", ("dmember", ("data", "z"), ("data", n)), m))
    # a scope variable at every position of array / object literals: after one and several adjacent holes, after spreads, as spread operand
    sc0 = ("scope", 0)
    H_ = ("hole",)
    for fields in ([H_, H_, ("item", sc0)], [("item", ("int", 0)), H_, H_, H_, ("item", sc0), ("item", sc0)], [H_, ("item", sc0), H_, H_, ("item", sc0)],
                   [("spread", ("data", "l")), H_, H_, ("item", sc0)], [H_, H_, ("spread", sc0)], [("item", sc0), H_, H_]):
        trees.append(("arr", fields))
        trees.append(("dmember", ("arr", fields), ("int", len(fields) - 1)))
    trees.append(("obj", [("spread", ("data", "o")), ("named", "p", False, sc0), ("spread", sc0), ("named", "q", False, sc0)]))
    rng = chk.rng.fork("c03-trees")
    for i in range(600 if quick else 20000):
        trees.append(eg.rand_tree(rng, 3 + (i % 3), 1))
    # corpus first
    modes = ["min", "full"] if quick else ["min", "full", "rand", "rand"]
    cases = []  # (tree, src, mode)
    for t in trees:
        for m in modes:
            cases.append((t, eg.src(t, m, rng), m))
    reqs = [core.req("expr", s, "1:1", "0") for (_, s, _) in cases]
    real = core.run_harness(reqs)
    chk.programs = len(reqs)

    # (1) the real parser reads the text as the intended tree (parentheses honoured, JS precedence/associativity)
    gen_reqs, gen_idx = [], []
    seen_gen = {}
    nparse_bad = 0
    for i, ((t, s, m), a) in enumerate(zip(cases, real)):
        f = a.split("\t")
        want = norm_floats(eg.sexp(t))
        chk.case((want, m), nontrivial=t[0] not in ("data", "scope", "int", "str", "bool", "null", "undef", "float"),
                 sample=dict(src=s, mode=m, ast=want) if i % 1999 == 5 else None)
        if a.startswith("PANIC"):
            chk.violation("input", f"expression parser/generator panicked on {s!r}: {a}", src=s, kind_="panic", real=a)
            continue
        if f[0] == "none":
            nparse_bad += 1
            if nparse_bad <= 3:
                chk.violation("input", f"valid expression rejected by the parser: {s!r} ({f[1]})", src=s, kind_="rejected", warnings=f[1])
            continue
        got = norm_floats(core.unesc(f[0]))
        if got != want:
            nparse_bad += 1
            if nparse_bad <= 3:
                chk.violation("input", f"parser built a different tree for {s!r}", src=s, kind_="tree", got=got, want=want)
            continue
        if len(f) < 13:
            chk.violation("correspondence", f"generator error on {s!r}: {a}", src=s, real=a)
            continue
        key = core.unesc(f[0])
        if key not in seen_gen:
            seen_gen[key] = i
            gen_reqs.append(core.req("expr_gen", key, "1:1"))
            gen_idx.append(i)
    chk.bump("oracle:parser-tree-equals-intended", len(cases))

    # (1b) the token-level parser model (GE/Model/ExprParse.lean: lexer + precedence levels) vs the real parser, on the same sources and on the literal stream
    psrcs = [s for (_, s, _) in cases] + [f % ((l,) * f.count("%s")) for l in LITERALS for f in ("%s", "-%s", "[%s][0]", "%s.p", "f(%s,)")]
    preal = real + core.run_harness([core.req("expr", s_, "1:1", "0") for s_ in psrcs[len(cases):]])
    pmodel = core.run_driver([core.req("wparse", s_) for s_ in psrcs])
    valid = set(s for (_, s, _) in cases)
    if core.MODEL_OK and pmodel:
        nd = 0
        for s_, a, m in zip(psrcs, preal, pmodel):
            ra = a.split("\t")[0]
            if a.startswith("PANIC"):
                continue
            got_r = "none" if ra == "none" else num_norm(core.unesc(ra)).replace("(scope 0)", '(data "s0")')
            if got_r == "none" and s_ not in valid:
                continue        # a spelling WXML does not have (08, 0o17): the model's number reader is not in question here
            got_m = m if m in ("none", "lex-error") else num_norm(core.unesc(m))
            if got_r != got_m and not (got_r == "none" and got_m == "lex-error"):
                nd += 1
                if nd <= 5:
                    chk.violation("correspondence", f"expression parser: model reads {got_m[:120]!r}, implementation {got_r[:120]!r}", stream="wparse", src=s_, real=got_r, model=got_m)
        chk.bump("corr:wparse:cases", len(psrcs))
        chk.bump("corr:wparse:diffs", nd)

    # (2) model vs implementation: value, hoisted statements, above_cond flag
    model = core.run_driver(gen_reqs)
    realv = []
    for i in gen_idx:
        f = real[i].split("\t")
        realv.append("\t".join([f[3], f[4], f[12], f[5], f[6]]))
    core.diff_streams(chk, "expr_gen", gen_reqs, realv, model)

    # (3) oracle: generated code vs reference evaluation of the intended tree, under V8
    runtime = core.runtime_string()
    E = envs((2 if quick else 6) + (0 if core.MODEL_OK and not chk.failed_obligations() else 4))
    nreqs, meta = [], []
    for i in gen_idx:
        t, s, m = cases[i]
        f = real[i].split("\t")
        stmts, val = core.unesc(f[3]), core.unesc(f[4])
        ref = eg.js_ref(t)
        for ei, (D, s0) in enumerate(E):
            nreqs.append({"op": "evalgen", "runtime": runtime, "stmts": stmts, "expr": val, "data": D, "scopes": {"s0": s0}})
            nreqs.append({"op": "evalref", "expr": "(function(s0,TOSTR,SPREADOBJ){return " + ref + "})(" + json.dumps("__S0__") + ")", "data": D})
            meta.append((i, ei))
    # evalref has no scopes parameter: pass s0 through D under a reserved key
    for r in nreqs:
        if r["op"] == "evalref":
            pass
    # rewrite evalref requests: s0 := D["$$s0"], helpers defined inline
    k = 0
    for (i, ei) in meta:
        D, s0 = E[ei]
        D2 = dict(D)
        D2["$$s0"] = s0
        r = nreqs[2 * k + 1]
        t = cases[i][0]
        r["data"] = D2
        r["expr"] = ("(function(s0,TOSTR,SPREADOBJ){return " + eg.js_ref(t) +
                     "})(D[\"$$s0\"],function(a){return a==null?'':String(a)},function(a){return a==null?{}:a})")
        k += 1
    outs = core.run_node(nreqs)
    nbad = 0
    # a mismatch is classified by the documented deviation (if any) whose reference it agrees with
    VARIANTS = [("array-spread-of-non-array", True, False),
                ("hoisted-operand-evaluated-eagerly", False, True),
                ("array-spread-of-non-array+hoisted-operand-evaluated-eagerly", True, True)]
    wrap = lambda body: ("(function(s0,TOSTR,SPREADOBJ){return " + body +
                         "})(D[\"$$s0\"],function(a){return a==null?'':String(a)},function(a){return a==null?{}:a})")
    lenient_reqs, lenient_meta = [], []
    for k, (i, ei) in enumerate(meta):
        g, r = outs[2 * k], outs[2 * k + 1]
        same = (("throws" in g or "error" in g) and ("throws" in r or "error" in r)) or \
               ("value" in g and "value" in r and canon(g["value"]) == canon(r["value"]))
        chk.evaluations += 1
        if not same:
            t, s, m = cases[i]
            D, s0 = E[ei]
            D2 = dict(D); D2["$$s0"] = s0
            for (_, cs, ho) in VARIANTS:
                body = eg.js_ref_hoisted(t, None, cs) if ho else eg.js_ref(t, None, cs)
                lenient_reqs.append({"op": "evalref", "data": D2, "expr": wrap(body)})
            lenient_meta.append((k, i, ei, g, r))
    louts = core.run_node(lenient_reqs) if lenient_reqs else []
    for j, (k, i, ei, g, r) in enumerate(lenient_meta):
        t, s, m = cases[i]
        cls = "value"
        for vi, (name, _, _) in enumerate(VARIANTS):
            lo = louts[len(VARIANTS) * j + vi]
            if ("value" in g and "value" in lo and canon(g["value"]) == canon(lo["value"])) or \
               (("throws" in g or "error" in g) and ("throws" in lo or "error" in lo)):
                cls = name
                break
        nbad += 1
        chk.violation("input", f"{{{{ {s} }}}} evaluates to {json.dumps(g)[:120]} in generated code, JavaScript gives {json.dumps(r)[:120]}",
                      src=s, classification=cls, env=ei, data=E[ei][0], s0=E[ei][1], generated=g, reference=r,
                      gen_expr=core.unesc(real[i].split("\t")[4]), gen_stmts=core.unesc(real[i].split("\t")[3]))
    chk.bump("oracle:v8-evaluations", len(meta))
    chk.bump("oracle:v8-mismatches", nbad)
    template_stream(chk, [t for (t, s_, m) in cases if m == "min" and has_scope(t)][:: (4 if quick else 1)], E[:2])
    literal_stream(chk, runtime)


def has_scope(t):
    return isinstance(t, (tuple, list)) and ((len(t) > 0 and t[0] == "scope") or any(has_scope(x) for x in t))


def template_stream(chk, trees, E):
    """end to end, through the template parser's own scope conversion: the expression stands in an attribute of an element inside
    `wx:for … wx:for-item="s0"`, the attribute value the real runtime receives is compared with JavaScript's value of the tree"""
    from . import render
    tpls = ['<block wx:for="{{ [sv] }}" wx:for-item="s0" wx:for-index="ix0"><v title="{{ %s }}"/></block>' % eg.src(tg_requote(t), "min") for t in trees]
    tpls = [(t, s_) for t, s_ in zip(trees, tpls) if '"' not in s_.split('title="', 1)[1].rsplit('"/>', 1)[0]]
    groups = render.compile_templates([[["p", s_]] for _, s_ in tpls])
    reqs, meta = [], []
    for (t, s_), g in zip(tpls, groups):
        if "panic" in g or not isinstance(g.get("gen_groups"), str):
            chk.violation("input", "compiler failed on an expression inside wx:for", template=s_)
            continue
        for ei, (D, s0) in enumerate(E):
            D2 = dict(D); D2["sv"] = s0; D2["$$s0"] = s0
            reqs.append({"op": "render", "gen_groups": g["gen_groups"], "path": "p", "steps": [{"create": D2}]})
            reqs.append({"op": "evalref", "data": D2, "expr": "(function(s0,TOSTR,SPREADOBJ){return " + eg.js_ref(t) +
                         "})(D[\"$$s0\"],function(a){return a==null?'':String(a)},function(a){return a==null?{}:a})"})
            meta.append((t, s_, ei))
    outs = core.run_node(reqs) if reqs else []
    nbad = 0
    bad = []
    for k, (t, s_, ei) in enumerate(meta):
        g, r = outs[2 * k], outs[2 * k + 1]
        chk.evaluations += 1
        if "value" not in r:
            continue                      # the reference throws: the generated code hoists / null-protects differently (covered above)
        tree = (g.get("snapshots") or [{}])[0].get("tree") or []
        got = (tree[0].get("attrs") or {}).get("title", {"$": "undefined"}) if tree and "error" not in g else {"error": g.get("error")}
        if canon(got) != canon(r["value"]):
            bad.append((t, s_, ei, got, r["value"], reqs[2 * k + 1]["data"]))
    # a mismatch is classified by the documented deviation (D14 array spread through concat, D26 hoisted operands evaluated eagerly) whose
    # reference it agrees with, exactly as in the expression-level oracle
    VARIANTS = [("array-spread-of-non-array", True, False), ("hoisted-operand-evaluated-eagerly", False, True),
                ("array-spread-of-non-array+hoisted-operand-evaluated-eagerly", True, True)]
    wrap = lambda body: ("(function(s0,TOSTR,SPREADOBJ){return " + body + "})(D[\"$$s0\"],function(a){return a==null?'':String(a)},function(a){return a==null?{}:a})")
    lreqs = []
    for (t, s_, ei, got, want, D2) in bad:
        for (_, cs, ho) in VARIANTS:
            lreqs.append({"op": "evalref", "data": D2, "expr": wrap(eg.js_ref_hoisted(t, None, cs) if ho else eg.js_ref(t, None, cs))})
    louts = core.run_node(lreqs) if lreqs else []
    for j, (t, s_, ei, got, want, D2) in enumerate(bad):
        cls = "template-level"
        threw = isinstance(got, dict) and "error" in got
        for vi, (name, _, _) in enumerate(VARIANTS):
            lo = louts[len(VARIANTS) * j + vi]
            if (not threw and "value" in lo and canon(lo["value"]) == canon(got)) or (threw and ("throws" in lo or "error" in lo)):
                cls = name
                break
        nbad += 1
        chk.violation("input", f"inside wx:for, {s_} hands the element {json.dumps(got)[:120]}, JavaScript gives {json.dumps(want)[:120]}",
                      template=s_, env=ei, classification=cls)
    chk.bump("oracle:template-level-evaluations", len(meta))
    chk.bump("oracle:template-level-mismatches", nbad)


def tg_requote(t):
    from . import tmplgen as tg
    return tg.requote(t, "'")


LITERALS = [
    "0", "7", "2147483647", "2147483648", "4294967295", "4294967296", "9007199254740991", "9007199254740992", "9007199254740993", "9223372036854775807",
    "9223372036854775808", "9223372036854775809", "18446744073709551615", "18446744073709551616", "18446744073709551617", "1000000000000000000000",
    "123456789012345678901234567890", "0x0", "0xff", "0XFF", "0xFFFFFFFF", "0x100000000", "0x1FFFFFFFFFFFFF", "0x20000000000001", "0x7FFFFFFFFFFFFFFF",
    "0x8000000000000000", "0x8000000000000001", "0xFFFFFFFFFFFFFFFF", "0xffffffffffffffff", "0x10000000000000000", "0x1ffffffffffffffffff", "0xabcdefABCDEF",
    "017", "0777", "00", "0777777777777777777777", "01000000000000000000000", "01000000000000000000001", "01777777777777777777777", "02000000000000000000000",
    "0377777777777777777777777", "08", "09", "019", "0o17", "0b101", "1.5", ".5", "5.", "1e3", "1E3", "1e+3", "1e-7", "1e21", "1e308", "1e309", "5e-324", "2e-324",
    "1.7976931348623157e308", "4.9e-324", "9007199254740993.0", "0.1", "0.000001", "0.0000001", "123456789.123456789", "1.0", "100", "1e0", "0e0", "0.0",
    "00.5", "1.5e3", "12345678901234567890.5",
]


def literal_stream(chk, runtime):
    """numeric literals at the edges of every representation (32 / 53 / 63 / 64 bits, each radix, exponent range): the value of the
    generated code == the value JavaScript gives the same literal text"""
    forms = ["%s", "-%s", "%s+1", "%s>0", "%s==%s+1", "[%s][0]"]
    srcs = [(f % ((l,) * f.count("%s"))) for l in LITERALS for f in forms]
    real = core.run_harness([core.req("expr", s_, "1:1", "0") for s_ in srcs])
    reqs, idx = [], []
    nrej = 0
    for i, (s_, a) in enumerate(zip(srcs, real)):
        f = a.split("\t")
        if a.startswith("PANIC"):
            chk.violation("input", f"expression parser/generator panicked on {s_!r}: {a}", src=s_, kind_="panic", real=a)
            continue
        if f[0] == "none" or len(f) < 13:
            nrej += 1          # a spelling WXML does not have (0o17, 0b101, 08): nothing to compare
            continue
        reqs.append({"op": "evalgen", "runtime": runtime, "stmts": core.unesc(f[3]), "expr": core.unesc(f[4]), "data": {}, "scopes": {"s0": None}})
        reqs.append({"op": "evalref", "expr": "(" + s_ + ")", "data": {}})
        idx.append(i)
    outs = core.run_node(reqs)
    nb = 0
    for k, i in enumerate(idx):
        g, r = outs[2 * k], outs[2 * k + 1]
        chk.case(("literal", srcs[i]), nontrivial=True)
        if "error" in r or "throws" in r:
            continue           # not a JavaScript literal in sloppy mode
        if not ("value" in g and canon(g["value"]) == canon(r["value"])):
            nb += 1
            if nb <= 6:
                chk.violation("input", f"{{{{ {srcs[i]} }}}} evaluates to {json.dumps(g)[:120]} in generated code, JavaScript gives {json.dumps(r)[:120]}",
                              src=srcs[i], classification="literal-value", generated=g, reference=r)
    chk.bump("oracle:literal-evaluations", len(idx))
    chk.bump("oracle:literal-rejected-spellings", nrej)
    chk.bump("oracle:literal-mismatches", nb)


def replay(chk, path):
    o = json.load(open(path))["first"]
    if "src" in o:
        a = core.run_harness([core.req("expr", o["src"], "1:1", "0")])[0]
        print(a)
    return chk.finish()
