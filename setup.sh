#!/bin/sh
# Build the framework from files on disk only (offline).
set -e
cd "$(dirname "$0")"
export CARGO_NET_OFFLINE=true
(cd harness && cargo build --offline 2>&1 | tail -3)
python3 -m checklib.extract || true
(cd lean && lake build GE gedriver 2>&1 | tail -3)
