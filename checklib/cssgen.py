"""Grammar-based stylesheet generator for the stylesheet-compiler properties (C01 C08 C09 C10 C17
C18 C19).  python3 stdlib only; every random choice is drawn from the passed `core.SplitMix64`.

  gen_stylesheet(rng, size) -> well-formed CSS text (the quantifier domain of C08..C19)
  gen_options(rng)          -> StyleSheetOptions as a JSON-able dict
  mutate(rng, css)          -> malformed variant (domain of C01 only)

The generator is a *grammar*, not a model of the compiler: it knows nothing about what the
transformer does with its input.
"""

# ---------------------------------------------------------------------------------------------
# pools
# ---------------------------------------------------------------------------------------------

IDENTS = ["a", "b", "c", "d", "x", "foo", "bar", "item", "box", "nav-item", "_u", "a1", "B", "is-active",
          "é", "café", "中", "中文", "\U0001F600", "x\U0001F600y", "-v", "--w"]
ESCAPED_IDENTS = ["\\31 23", "a\\.b", "\\e9 x", "sm\\:flex", "w-1\\/2", "\\--x", "a\\ b", "\\1F600 z"]
TYPES = ["div", "span", "a", "view", "text", "li", "p", "h1", "button", "my-comp", "svg|rect", "*|a"]
ATTRS = ["href", "data-x", "title", "lang", "type", "aria-label", "dé"]
PSEUDO_CLASSES = ["hover", "focus", "active", "first-child", "last-child", "empty", "root", "checked", "disabled",
                  "focus-within", "only-of-type"]
PSEUDO_ELEMENTS = ["before", "after", "placeholder", "first-line", "selection", "marker"]
PROPS = ["color", "background", "margin", "padding", "width", "height", "font-size", "line-height", "z-index", "border",
         "transform", "transition", "content", "grid-area", "flex", "top", "left", "font-family", "box-shadow", "order",
         "opacity", "inset", "gap"]
UNITS = ["px", "em", "rem", "vh", "vw", "vmin", "deg", "rad", "s", "ms", "dppx", "fr", "pt", "cm", "in", "ch", "x", "Q",
         "dpi", "turn"]
KEYWORDS = ["auto", "none", "inherit", "red", "blue", "solid", "bold", "block", "flex", "center", "transparent", "both",
            "ease-in-out", "infinite", "normal", "currentColor", "sans-serif", "宋体"]
HEX = ["#fff", "#000", "#1e3", "#00ff00", "#123456", "#abcdef80", "#FFF", "#e5e5e5", "#0a0", "#12e4", "#f0f8"]
BIG_INTS = [16777215, 16777216, 16777217, 2147483647, -2147483648, -2147483647, 999999, 1000000, 1000001, 1234567,
            9999999, 10000000, 123456789, 33554433, 2000000001, -16777217, 99999999, 100000]
DECIMALS = ["1.5", "0.25", ".5", "12.345678", "0.1234567", "3.14159265", "0.333333333", "100.001", "1.0", "2.50",
            "0.000123456789", "99999.99", "1234.5678", "7.0000001", "0.1", "1.000005", "16777216.5", "65536.75"]
EXPONENTS = ["1e3", "1.5e-2", "2E+2", "1e-7", "5e0", "1.25e2", "3e-3", "1E1", "2.5e5", "12e-1"]
ZEROS = ["0", "-0", "+0", "0.0", "-0.0", "+0.0", "00", "0e0"]
STR_BODIES = ["", "x", "hello world", "é中\U0001F600", "a\\\"b", "it\\'s", "a\\\\b", "line\\A next", "\\e9 t",
              "*/", "/*", "</style>", "\\\n cont", "semi;colon", "{brace}", "tab\\9 x", "U+26", "  spaced  ", "1rpx", ".cls"]
URLS_UNQUOTED = ["a.png", "./img/b.jpg", "http://example.com/x.css", "data:image/png;base64,iVBORw0KGgo=", "//cdn/x",
                 "a%20b.png", "é.png", "x\\)y.png", "img/中.png", "a*/b.png", "#frag", "x?y=1&z=2"]
URLS_QUOTED = ["a.png", "img/b c.jpg", "http://example.com/(x).css", "é\U0001F600.png", "a\\\"b.png", "x)y", "*/"]
IMPORT_PATHS_STR = ["a.css", "./a/b.wxss", "../common/x y.css", "a*/b.css", "100%.css", "é中\U0001F600.css",
                    "a\\\\b.css", "/*x*/.css", "a%20b.css", "a+b.css", "it\\'s.css", "q\\\"uote.css", "a?b=1&c=2#d",
                    "tab\\9 .css", "~/x.css", "semi;colon.css", "%", "%zz", "%E9", "a b+c"]
IMPORT_PATHS_URL = ["a.css", "./a/b.wxss", "a*/b.css", "é.css", "a%20b.css", "x\\)y.css", "http://h/p.css?q=1",
                    "100%.css", "a+b.css"]
MEDIA_TYPES = ["screen", "print", "all"]
LAYER_NAMES = ["base", "theme", "utils", "a", "reset", "\U0001F600ui", "é中", "x\U00010000"]   # (astral and multi-byte names: the wrappers replayed into the low-priority output count in UTF-16 units)
COMMENT_BODIES = ["", "c", " comment ", "*", "**", "/", " a { b: c } ", "é中\U0001F600", "multi\nline",
                  " .cls 1rpx @import ", "/*", " ; ", "}", "\\", "'", '"']
WS = [" ", " ", " ", "  ", "\n", "\n  ", "\t", "\r\n", "\n\n", " \n\t", "\f", "\r"]


class Gen:
    def __init__(self, rng, plain=False):
        self.r = rng
        self.plain = plain     # plain: no comments, single spaces (readable examples)
        self.host_budget = 3

    # -- low level ---------------------------------------------------------------------------------
    def pick(self, xs):
        return self.r.choice(xs)

    def chance(self, a, b):
        return self.r.chance(a, b)

    def comment(self):
        return "/*" + self.pick(COMMENT_BODIES).replace("*/", "* /") + "*/"

    def sws(self):
        """whitespace that contains at least one whitespace character (may carry comments)"""
        if self.plain:
            return " "
        s = self.pick(WS)
        if self.chance(1, 12):
            s = s + self.comment() + self.pick(WS)
        elif self.chance(1, 25):
            s = self.comment() + s
        elif self.chance(1, 25):
            s = s + self.comment()
        return s

    def ows(self):
        """filler where whitespace carries no meaning: nothing, whitespace, comments"""
        if self.plain:
            return ""
        k = self.r.below(12)
        if k < 5:
            return ""
        if k < 9:
            return self.pick(WS)
        if k < 10:
            return self.comment()
        if k < 11:
            return self.pick(WS) + self.comment() + self.pick(WS)
        return self.comment() + self.pick(WS)

    def gap(self):
        """between rules / declarations: usually some whitespace"""
        if self.plain:
            return " "
        k = self.r.below(10)
        if k < 2:
            return ""
        if k < 8:
            return self.pick(WS)
        return self.pick(WS) + self.comment() + self.pick(WS)

    def ident(self):
        if self.chance(1, 14):
            return self.pick(ESCAPED_IDENTS)
        return self.pick(IDENTS)

    def cls(self):
        i = self.ident()
        while i.startswith("--") and self.chance(3, 4):
            i = self.ident()
        return "." + i

    # -- numbers ---------------------------------------------------------------------------------
    def integer(self):
        k = self.r.below(10)
        if k < 4:
            return str(self.r.below(101))
        if k < 5:
            return str(-self.r.below(1000))
        if k < 6:
            return "+" + str(self.r.below(1000))
        if k < 8:
            return str(self.pick(BIG_INTS))
        if k < 9:
            # uniform-ish over the whole i32 range
            return str(self.r.below(1 << 32) - (1 << 31))
        return str(self.r.below(10 ** (1 + self.r.below(9))))

    def non_integer(self):
        k = self.r.below(10)
        if k < 5:
            s = self.pick(DECIMALS)
        elif k < 7:
            s = self.pick(EXPONENTS)
        elif k < 9:
            s = "%d.%s" % (self.r.below(1000), "".join(str(self.r.below(10)) for _ in range(1 + self.r.below(8))))
        else:
            s = "." + "".join(str(self.r.below(10)) for _ in range(1 + self.r.below(7)))
        if self.chance(1, 6):
            s = "-" + s
        elif self.chance(1, 10):
            s = "+" + s
        return s

    def number(self):
        k = self.r.below(12)
        if k < 6:
            return self.integer()
        if k < 11:
            return self.non_integer()
        return self.pick(ZEROS)

    def percentage(self):
        k = self.r.below(8)
        if k < 4:
            return str(self.r.below(101)) + "%"
        if k < 5:
            return self.pick(["-10%", "+5%", "-0%", "150%", "1000000%", "1234567%"])
        return self.non_integer() + "%"

    def dimension(self):
        return self.number() + self.pick(UNITS)

    def rpx(self):
        k = self.r.below(12)
        if k < 4:
            return str(self.r.below(751)) + "rpx"
        if k < 5:
            return "-" + str(self.r.below(400)) + "rpx"
        if k < 6:
            return self.pick(["0rpx", "-0rpx", "+3rpx", "750rpx", "375rpx", "1rpx", "7.5rpx", ".5rpx", "1e2rpx", "-.25rpx",
                              "100000rpx", "0.001rpx", "16777217rpx", "1234567rpx", "33.333333rpx"])
        if k < 9:
            return "%d.%d" % (self.r.below(800), self.r.below(100)) + "rpx"
        if k < 10:
            return "-%d.%d" % (self.r.below(100), self.r.below(1000)) + "rpx"
        return str(self.r.below(100000)) + "rpx"

    def string(self, body=None):
        # every body escapes its own quotes, so either quote character delimits it
        b = self.pick(STR_BODIES) if body is None else body
        q = self.pick(['"', "'"])
        return q + b + q

    def url(self):
        if self.chance(1, 2):
            return "url(" + self.pick(["", " "]) + self.pick(URLS_UNQUOTED) + self.pick(["", " "]) + ")"
        return "url(" + self.pick(["", " "]) + self.string(self.pick(URLS_QUOTED)) + self.pick(["", " "]) + ")"

    # -- calc ------------------------------------------------------------------------------------
    def calc_term(self, depth):
        k = self.r.below(14)
        if k < 3:
            return self.pick(["1px", "2em", "100%", "50%", "10px", "3", "2", "0.5", "1.5rem", "100vh", "-1", "1e1px"])
        if k < 6:
            return self.rpx()
        if k < 7:
            return self.dimension()
        if k < 8:
            return "var(--" + self.pick(["x", "gap", "é"]) + ")"
        if depth >= 3:
            return self.pick(["4px", "20rpx", "7%"])
        if k < 10:
            return "(" + self.ows() + self.calc_sum(depth + 1) + self.ows() + ")"
        if k < 11:
            return "calc(" + self.ows() + self.calc_sum(depth + 1) + self.ows() + ")"
        if k < 12:
            return self.pick(["min", "max"]) + "(" + self.calc_sum(depth + 1) + self.ows() + "," + self.ows() + self.calc_sum(depth + 1) + ")"
        if k < 13:
            return "var(--x," + self.ows() + self.calc_sum(depth + 1) + ")"
        return "clamp(" + self.calc_term(depth + 1) + ", " + self.calc_sum(depth + 1) + ", " + self.calc_term(depth + 1) + ")"

    def calc_product(self, depth):
        s = self.calc_term(depth)
        n = self.r.below(3) if depth < 3 else 0
        for _ in range(n if self.chance(1, 2) else 0):
            op = self.pick(["*", "/"])
            sp = self.pick(["", " ", "  "])
            rhs = self.calc_term(depth) if op == "*" else self.pick(["2", "3", "1.5", "(1 + 1)", "4"])
            s += sp + op + self.pick(["", " "]) + rhs
        return s

    def calc_sum(self, depth):
        s = self.calc_product(depth)
        for _ in range(self.r.below(3)):
            s += self.sws() + self.pick(["+", "-"]) + self.sws() + self.calc_product(depth)
        return s

    def calc(self):
        return "calc(" + self.ows() + self.calc_sum(1) + self.ows() + ")"

    # -- values ------------------------------------------------------------------------------------
    def component(self, depth=0):
        k = self.r.below(40)
        if k < 5:
            return self.pick(KEYWORDS)
        if k < 9:
            return self.number()
        if k < 12:
            return self.percentage()
        if k < 16:
            return self.dimension()
        if k < 21:
            return self.rpx()
        if k < 23:
            return self.string()
        if k < 25:
            return self.url()
        if k < 27:
            return self.pick(HEX)
        if k < 30:
            return self.calc()
        if k < 31:
            return self.ident()
        if k < 32:
            return self.pick(["a.b", ".5", ".v", "d.e", "x.y.z", "-.5em", "+.5"])
        if depth >= 2:
            return self.pick(KEYWORDS)
        if k < 34:
            return "var(--" + self.pick(["x", "main-color", "中"]) + self.pick(["", "," + self.ows() + self.component(depth + 1)]) + ")"
        if k < 35:
            return self.pick(["min", "max"]) + "(" + self.component(2) + "," + self.ows() + self.component(2) + ")"
        if k < 36:
            return "rgb(" + ", ".join(str(self.r.below(256)) for _ in range(3)) + ")"
        if k < 37:
            return "rgba(0 0 0 / " + self.percentage() + ")"
        if k < 38:
            return self.pick(["translate", "f", "scale", "rotate", "drop-shadow"]) + "(" + self.ows() + self.value(depth + 1, 3) + self.ows() + ")"
        if k < 39:
            return "linear-gradient(to right, " + self.pick(HEX) + " 0%, " + self.pick(HEX) + " " + self.rpx() + ")"
        return "attr(" + self.pick(ATTRS[:5]) + ")"

    def value(self, depth=0, maxn=4):
        n = 1 + self.r.below(maxn)
        s = self.component(depth)
        for _ in range(n - 1):
            k = self.r.below(10)
            if k < 7:
                s += self.sws()
            elif k < 9:
                s += self.ows() + "," + self.ows()
            else:
                s += self.pick([" / ", "/"])
            s += self.component(depth)
        return s

    def urange(self):
        return self.pick(["U+26", "U+0-7F", "U+4??", "u+0025-00FF", "U+A5", "U+1F600", "U+0-10FFFF", "U+??", "U+100-1ff",
                          "U+1e3", "U+2B"])

    def custom_value(self):
        k = self.r.below(8)
        if k < 2:
            return "{" + self.ows() + self.ident() + ":" + self.ows() + self.component() + self.ows() + "}"
        if k < 3:
            return "[" + self.number() + "," + self.ows() + self.number() + "]"
        if k < 4:
            return self.pick(["  foo  bar ", "1rpx", " {a:b;c:d}", "(1 + 2)", "a.b", ".x .y", "10rpx 20rpx"])
        return self.value()

    def declaration(self, props=None):
        k = self.r.below(24)
        if k < 3:
            name = "--" + self.pick(["x", "main-color", "中", "A", "gap-1"])
            val = self.custom_value()
        elif k < 4:
            name, val = "unicode-range", self.urange() + ("" if self.chance(1, 2) else "," + self.ows() + self.urange())
        else:
            name = self.pick(props or PROPS)
            val = self.value()
        imp = ""
        if self.chance(1, 10):
            imp = self.ows() + "!" + self.pick(["", " "]) + self.pick(["important", "IMPORTANT"])
        return name + self.ows() + ":" + self.ows() + val + imp

    def declarations(self, maxn=4, props=None):
        n = self.r.below(maxn + 1)
        s = self.ows()
        for i in range(n):
            s += self.declaration(props)
            if i < n - 1 or self.chance(2, 3):
                s += self.ows() + ";" + self.gap()
            else:
                s += self.ows()
        if n and self.chance(1, 15):
            s += ";" + self.ows()
        return s

    def block(self, maxn=4, props=None):
        return "{" + self.declarations(maxn, props) + "}"

    # -- selectors ---------------------------------------------------------------------------------
    def attr(self):
        a = self.pick(ATTRS)
        k = self.r.below(9)
        i = self.pick(["", "", "", " i", " s"])
        if k < 2:
            return "[" + self.ows() + a + self.ows() + "]"
        if k < 4:
            return "[" + a + "=" + self.pick(["b", "x-y", "中", "_1"]) + "]"
        if k < 5:
            return "[" + a + '~="x y"' + i + "]"
        op = self.pick(["=", "~=", "|=", "^=", "$=", "*="])
        return "[" + self.ows() + a + self.ows() + op + self.ows() + self.string(self.pick(["x", "x y", ".cls", "1rpx", "é", "a]b", "en"])) + i + self.ows() + "]"

    def anb(self):
        return self.pick(["2n+1", "2n + 1", "-n+3", "odd", "even", "5", "n", "+n", "-2n-1", "3n", "n+1", "+3n - 2", "2n- 1",
                          "-n + 2", "1", "0n+0", "+5", "-n- 1", "10n-1", "n + 10"])

    def functional_pseudo(self, depth):
        k = self.r.below(16)
        o = self.ows
        if k < 3:
            return ":not(" + o() + self.selector_list(depth + 1, 2) + o() + ")"
        if k < 6:
            return ":is(" + o() + self.selector_list(depth + 1, 3) + o() + ")"
        if k < 8:
            return ":where(" + o() + self.selector_list(depth + 1, 2) + o() + ")"
        if k < 10:
            rel = self.pick(["", "", "> ", ">", "+ ", "~ "])
            return ":has(" + o() + rel + self.complex(depth + 1) + o() + ")"
        if k < 12:
            fn = self.pick(["nth-child", "nth-last-child"])
            of = ""
            if self.chance(1, 2):
                of = self.sws() + "of" + self.sws() + self.selector_list(depth + 1, 2)
            return ":" + fn + "(" + o() + self.anb() + of + o() + ")"
        if k < 13:
            return ":" + self.pick(["nth-of-type", "nth-last-of-type"]) + "(" + self.anb() + ")"
        if k < 14:
            return "::slotted(" + o() + self.compound(depth + 1) + o() + ")"
        if k < 15:
            return self.pick([":lang(en)", ":dir(rtl)", "::part(label)", "::part(a b)", ":lang(\"zh\", en)"])
        return ":" + self.pick(["host-context", "-webkit-any", "matches"]) + "(" + self.selector_list(depth + 1, 2) + ")"

    def compound(self, depth):
        parts = []
        if self.chance(2, 5):
            parts.append(self.pick(TYPES) if self.chance(4, 5) else "*")
        n = (self.r.below(3) if depth == 0 else self.r.below(2)) + (0 if parts else 1)
        for _ in range(n):
            k = self.r.below(20)
            if k < 9:
                parts.append(self.cls())
            elif k < 11:
                parts.append("#" + self.pick(["id", "main", "x1", "é", "a\\.b", "-a"]))
            elif k < 13:
                parts.append(self.attr())
            elif k < 15:
                parts.append(":" + self.pick(PSEUDO_CLASSES))
            elif k < 19 and depth < 3:
                parts.append(self.functional_pseudo(depth))
            else:
                parts.append(self.cls())
        if self.chance(1, 12):
            parts.append("::" + self.pick(PSEUDO_ELEMENTS))
        s = parts[0]
        for p in parts[1:]:
            if self.chance(1, 40) and not self.plain:
                s += self.comment()    # a comment inside a compound selector does not split it
            s += p
        return s

    def combinator(self):
        k = self.r.below(10)
        if k < 5:
            return self.sws()
        c = self.pick([">", ">", "+", "~"])
        sp = self.r.below(4)
        if sp == 0:
            return c
        if sp == 1:
            return self.sws() + c + self.sws()
        if sp == 2:
            return c + self.sws()
        return self.sws() + c

    def complex(self, depth):
        s = self.compound(depth)
        n = self.r.below(3) if depth < 1 else self.r.below(2)
        if depth >= 1 and self.chance(1, 3):
            n = 1
        for _ in range(n):
            s += self.combinator() + self.compound(depth)
        return s

    def selector_list(self, depth, maxn=3):
        s = self.complex(depth)
        for _ in range(self.r.below(maxn) if self.chance(1, 2) else 0):
            s += self.ows() + "," + self.ows() + self.complex(depth)
        return s

    # -- rules ---------------------------------------------------------------------------------
    def style_rule(self):
        return self.selector_list(0) + self.ows() + self.block()

    def host_rule(self):
        k = self.r.below(10)
        if k < 5:
            pre = ":host"
        elif k < 6:
            pre = ":host(" + self.cls() + ")"
        elif k < 7:
            pre = ":host" + self.sws() + self.cls()
        elif k < 8:
            pre = ":host" + self.ows() + "," + self.ows() + self.cls()
        elif k < 9:
            pre = ":host" + self.pick([":hover", "::before", ".x", "[a]", " > .y"])
        else:
            pre = ":host(" + self.compound(1) + ")" + self.sws() + self.compound(0)
        return pre + self.ows() + self.block()

    def media_query(self):
        k = self.r.below(12)
        feat = self.pick(["min-width", "max-width", "width", "min-height", "max-device-width"])
        length = self.pick([self.rpx(), self.rpx(), "600px", "40em", self.calc(), "100.5px"])
        f = "(" + self.ows() + feat + self.ows() + ":" + self.ows() + length + self.ows() + ")"
        if k < 3:
            return f
        if k < 5:
            return self.pick(MEDIA_TYPES) + " and " + f
        if k < 6:
            return self.pick(["not ", "only "]) + self.pick(MEDIA_TYPES) + " and " + f
        if k < 7:
            return self.pick(MEDIA_TYPES)
        if k < 8:
            return "(" + self.pick(["400px", self.rpx()]) + " <= width <= " + self.pick(["700px", self.rpx()]) + ")"
        if k < 9:
            return "(min-resolution: " + self.pick([".5dppx", "2dppx", "192dpi", "1.5x"]) + ")"
        if k < 10:
            return f + " and (orientation: landscape)"
        if k < 11:
            return "(" + self.pick(["monochrome", "color", "hover"]) + ")"
        return f + self.pick([" or ", " and "]) + "(not (hover: none))"

    def media_query_list(self):
        s = self.media_query()
        for _ in range(self.r.below(3) if self.chance(1, 3) else 0):
            s += self.ows() + "," + self.ows() + self.media_query()
        return s

    def supports_cond(self):
        k = self.r.below(9)
        d = "(" + self.pick(["display: grid", "display:flex", "--x: 1", "width: 10rpx", "gap: calc(1px + 2rpx)", "color: #fff"]) + ")"
        if k < 3:
            return d
        if k < 4:
            return "not " + d
        if k < 6:
            return d + self.pick([" and ", " or "]) + "(" + self.pick(["position: sticky", "not (display: inline-grid)"]) + ")"
        if k < 8:
            return "selector(" + self.complex(1) + ")"
        return "(" + d + " and " + d + ")"

    def layer_name(self):
        n = self.pick(LAYER_NAMES)
        if self.chance(1, 4):
            n += "." + self.pick(LAYER_NAMES)
        return n

    def rule_block(self, depth):
        return "{" + self.gap() + self.rule_list(depth, 3) + "}"

    def at_rule(self, depth):
        k = self.r.below(34)
        o, s = self.ows, self.sws
        nest = depth < 3
        kw = lambda w: ("@" + w.upper()) if self.chance(1, 60) else ("@" + w)
        if k < 6 and nest:
            return kw("media") + s() + self.media_query_list() + o() + self.rule_block(depth + 1)
        if k < 9 and nest:
            return kw("supports") + s() + self.supports_cond() + o() + self.rule_block(depth + 1)
        if k < 12 and nest:
            name = self.pick(["", s() + self.layer_name()])
            return kw("layer") + name + o() + self.rule_block(depth + 1)
        if k < 14 and nest:
            cond = self.pick(["(min-width: 400px)", "(min-width: " + self.rpx() + ")", "card (inline-size > 30em)", "style(--x: y)",
                              "sidebar (width >= " + self.rpx() + ")", "(width > 1px) and (height > 1px)", "\U0001F600c (min-width: 1px)", "é (width > 2px)"])
            return kw("container") + s() + cond + o() + self.rule_block(depth + 1)
        if k < 16 and nest:
            k2 = self.r.below(4)
            if k2 == 0:
                pre = ""
            elif k2 == 1:
                pre = s() + "(" + o() + self.selector_list(1, 2) + o() + ")"
            else:
                pre = s() + "(" + self.selector_list(1, 2) + ")" + s() + "to" + s() + "(" + self.selector_list(1, 2) + ")"
            return kw("scope") + pre + o() + self.rule_block(depth + 1)
        if k < 17 and nest:
            if self.chance(1, 2):
                return "@starting-style" + o() + self.rule_block(depth + 1)
            return "@document" + s() + self.pick(["url(http://x/)", "url-prefix(\"http://x\")", "domain(x.com)"]) + o() + self.rule_block(depth + 1)
        if k < 20:
            name = self.pick(["spin", "fade-in", "é", "k1", "\"quoted\""])
            body = self.gap()
            for _ in range(self.r.below(4)):
                sel = self.pick(["from", "to", "0%", "50%", "100%", "33.3%", "12.5%", "0%, 50%", "from, to", "66.666667%"])
                body += sel + o() + self.block(3) + self.gap()
            return self.pick(["@keyframes", "@keyframes", "@-webkit-keyframes"]) + s() + name + o() + "{" + body + "}"
        if k < 22:
            decls = [self.declaration(["font-family", "src", "font-weight", "font-display"]) for _ in range(self.r.below(3))]
            if self.chance(2, 3):
                decls.insert(self.r.below(len(decls) + 1), "unicode-range:" + o() + self.urange() + self.pick(["", ", " + self.urange()]))
            body = o() + (o() + ";" + self.gap()).join(decls) + self.pick([";", ""]) + o()
            return "@font-face" + o() + "{" + body + "}"
        if k < 24:
            pre = self.pick(["", " :first", " :left", " a4", " toc:right"])
            decls = [self.declaration(["margin", "size", "padding"]) + o() + ";" + self.gap() for _ in range(self.r.below(3))]
            body = o() + "".join(decls)
            if self.chance(1, 2):
                body += "@top-left" + o() + self.block(2, ["content", "font-size"]) + o()
            return "@page" + pre + o() + "{" + body + "}"
        if k < 25:
            return "@layer" + s() + self.layer_name() + "".join(o() + "," + o() + self.layer_name() for _ in range(self.r.below(3))) + o() + ";"
        if k < 26:
            return "@namespace" + s() + self.pick(["svg ", ""]) + self.pick(["url(http://www.w3.org/2000/svg)", '"http://www.w3.org/1999/xhtml"',
                                                                         "url(\"http://x/\")"]) + o() + ";"
        if k < 27:
            return "@property" + s() + "--" + self.pick(["x", "my-len"]) + o() + "{" + o() + "syntax:" + o() + "'<length>';" + o() + \
                "inherits:" + o() + "false;" + o() + "initial-value:" + o() + self.pick(["0px", self.rpx()]) + o() + "}"
        if k < 28:
            return "@counter-style" + s() + self.pick(["thumbs", "x"]) + o() + "{" + o() + "system: cyclic;" + o() + \
                "symbols:" + o() + self.string("★") + ";" + o() + "suffix:" + o() + "\" \"" + o() + "}"
        if k < 29:
            return "@font-feature-values" + s() + "Font One" + o() + "{" + o() + "@styleset" + o() + "{" + o() + "nice-style:" + o() + "12;" + o() + "}" + o() + "}"
        if k < 30 and depth == 0:
            return "@import" + s() + self.import_tail()      # an import that does not stand first
        return self.style_rule()

    def import_tail(self):
        o, s = self.ows, self.sws
        k = self.r.below(10)
        if k < 5:
            src = self.string(self.pick(IMPORT_PATHS_STR))
        elif k < 8:
            src = self.pick(["url(", "url(", "URL(", "Url("]) + self.pick(IMPORT_PATHS_URL) + ")"
        else:
            # (the name of the url function is ASCII case-insensitive, with an unquoted and with a quoted path)
            src = self.pick(["url(", "url(", "URL(", "Url(", "uRL( "]) + self.string(self.pick(IMPORT_PATHS_STR)) + ")"
        t = src
        if self.chance(1, 3):
            # (the `layer` keyword and the names of the `layer(` / `supports(` functions are ASCII case-insensitive)
            t += s() + self.pick(["layer", "layer(" + self.pick(LAYER_NAMES) + ")", "layer(" + self.pick(LAYER_NAMES) + ")",
                                  "layer(a.b)", "layer( base )", "LAYER", "Layer(" + self.pick(LAYER_NAMES) + ")", "LAYER(" + self.pick(LAYER_NAMES) + ")"])
        if self.chance(1, 4):
            t += s() + self.pick(["supports(", "supports(", "supports(", "Supports(", "SUPPORTS("]) + \
                self.pick(["display: grid", "not (display: grid)", "(a: b) and (c: d)", "width: 1rpx", "display:flex"]) + ")"
        if self.chance(1, 3):
            t += s() + self.media_query_list()
        return t + o() + ";"

    def rule_list(self, depth, maxn):
        out = ""
        for _ in range(1 + self.r.below(maxn)):
            k = self.r.below(12)
            if k < 7:
                out += self.style_rule()
            elif k < 9 and self.host_budget > 0:
                self.host_budget -= 0 if self.chance(1, 2) else 1
                out += self.host_rule()
            else:
                out += self.at_rule(depth)
            out += self.gap()
        return out

    def stylesheet(self, size):
        self.host_budget = 2 + self.r.below(3)
        out = self.gap() if self.chance(1, 2) else ""
        if self.chance(1, 8):
            out += "@charset \"utf-8\";" + self.gap()
        if self.chance(1, 3):
            if self.chance(1, 6):
                out += "@layer " + self.layer_name() + ";" + self.gap()
            for _ in range(1 + self.r.below(2)):
                out += "@import" + self.sws() + self.import_tail() + self.gap()
        n = 1 + self.r.below(max(1, size))
        out += self.rule_list(0, n)
        if self.chance(1, 10):
            # no trailing newline / unterminated last declaration is still well-formed
            out = out.rstrip()
        return out


def gen_stylesheet(rng, size=6):
    """Well-formed stylesheet with about 1..size top-level rules."""
    return Gen(rng).stylesheet(size)


def gen_plain(rng, size=3):
    """Same grammar without comments and with single spaces (for readable examples)."""
    return Gen(rng, plain=True).stylesheet(size)


PREFIXES = [None, None, "", "p", "p", "pre-fix", "é中", "\U0001F600", "A1"]
SIGNS = [None, None, None, "SIGN", "s", "é sign"]
RATIOS = [750, 750, 375, 100, 1, 0.5, 3]
HOST_IS = [None, None, "comp", "a/b-c", "é\"x"]


def gen_options(rng):
    return {
        "class_prefix": rng.choice(PREFIXES),
        "class_prefix_sign": rng.choice(SIGNS),
        "rpx_ratio": rng.choice(RATIOS),
        "import_sign": rng.choice([None, "IMPORT", "IMPORT"]),
        "convert_host": rng.chance(1, 2),
        "host_is": rng.choice(HOST_IS),
    }


# ---------------------------------------------------------------------------------------------
# malformed variants (C01)
# ---------------------------------------------------------------------------------------------

STRAY = ["}", ")", "]", ";", "@", "\\", "{", "(", "[", "\"", "'", "/*", "*/", "\x00", "\U0001F600", "\U00010000", "\U0010FFFF",
         "<!--", "-->", "url(", "url( a b )", "\n", "\\\n", "!", "#", ".", ":", "::", "@import", "@media", ":host", "rpx", "1e999",
         "99999999999999999999", "-", "--", "+", "U+", "\\0", "\\110000 ", "\\D800 ", "�", " ", " ", "\x0b", "\x7f"]


def mutate(rng, css):
    """Malformed variant: delete / insert / duplicate / swap spans, unbalanced brackets and quotes,
    stray tokens, NUL, astral characters, very long identifiers.  Nesting stays shallow (< 64)."""
    s = css
    for _ in range(1 + rng.below(3)):
        n = len(s)
        k = rng.below(12)
        i = rng.below(n + 1)
        j = min(n, i + rng.below(20))
        if k == 0:
            s = s[:i] + s[j:]                                  # delete a span
        elif k == 1:
            s = s[:i] + rng.choice(STRAY) + s[i:]              # insert a stray token
        elif k == 2:
            s = s[:j] + s[i:j] + s[i:]                         # duplicate a span
        elif k == 3:
            a = min(n, j + rng.below(20))                      # swap two neighbouring spans
            s = s[:i] + s[j:a] + s[i:j] + s[a:]
        elif k == 4:
            opens = [p for p, c in enumerate(s) if c in "{([\"'"]
            if opens:
                p = opens[rng.below(len(opens))]
                s = s[:p] + s[p + 1:]                          # drop an opening bracket / quote
        elif k == 5:
            closes = [p for p, c in enumerate(s) if c in "})]\"'"]
            if closes:
                p = closes[rng.below(len(closes))]
                s = s[:p] + s[p + 1:]                          # drop a closing bracket / quote
        elif k == 6:
            s = s[:i] + rng.choice(["a", "-", "é", "\\31 ", "_"]) * (200 + rng.below(3000)) + s[i:]   # very long ident
        elif k == 7:
            s = s[:i]                                          # truncate
        elif k == 8:
            s = s[:i] + rng.choice(["(", "[", "{", "f("]) * (1 + rng.below(20)) + s[i:]                     # unclosed nesting
        elif k == 9:
            s = s[:i] + rng.choice(STRAY) + s[i:j] + rng.choice(STRAY) + s[j:]
        elif k == 10:
            s = s.replace(rng.choice([";", "{", "}", ":", " ", ")"]), rng.choice(STRAY), 1 + rng.below(3))
        else:
            s = s[:i] + s[i:j][::-1] + s[j:]                   # reverse a span
    return s
