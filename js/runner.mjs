// Line-protocol server executing glass-easel generated template code under the REAL template runtime
// (type-stripped proc_gen_wrapper.ts / range_list_diff.ts / index.ts of /repo) over a stub backend.
// One JSON request per stdin line -> exactly one JSON response line on stdout. See README.md.
import vm from 'node:vm'
import { build } from './build.mjs'
import { decode, encode } from './codec.mjs'

const DEFAULT_TIMEOUT_MS = 2000

// ---- load the real runtime (rebuilt from /repo on every start) ----------------------------------------

const built = build()
const backend = await import('./stubs/backend.mjs')
const realIndex = await import(built.files.index)
const realPgw = await import(built.files.proc_gen_wrapper)
const { ShadowRoot, SlotMode, TextNode, StubComponent, setDiagSink, setSlotEpoch } = backend
const engine = new realIndex.GlassEaselTemplateEngine()
if (typeof realPgw.ProcGenWrapper !== 'function') throw new Error('ProcGenWrapper not exported by the real runtime')

const errMsg = (e) => {
  try {
    if (e && typeof e === 'object' && typeof e.message === 'string') return `${e.name || 'Error'}: ${e.message}`
    return `thrown: ${String(e)}`
  } catch {
    return 'thrown: <unprintable>'
  }
}

// ---- guarded execution ------------------------------------------------------------------------------
// vm's watchdog terminates the whole isolate, so running a main-realm closure through a vm script
// also bounds loops inside the real runtime and inside generated code called from it.

const trampolineCtx = vm.createContext(Object.create(null))
const trampoline = new vm.Script('__f()', { filename: 'trampoline' })
const guarded = (f, timeoutMs) => {
  trampolineCtx.__f = f
  try {
    return trampoline.runInContext(trampolineCtx, { timeout: timeoutMs })
  } finally {
    trampolineCtx.__f = undefined
  }
}
const timeoutOf = (req) => {
  const t = req.timeout
  return typeof t === 'number' && t >= 1 && t <= 600000 ? Math.floor(t) : DEFAULT_TIMEOUT_MS
}

// compiled-script cache (compilation only; every request still runs in a fresh context)
const scriptCache = new Map()
const SCRIPT_CACHE_MAX = 256
const compile = (src, filename) => {
  const key = `${filename}\u0000${src}`
  let s = scriptCache.get(key)
  if (s) {
    scriptCache.delete(key)
    scriptCache.set(key, s)
    return s
  }
  s = new vm.Script(src, { filename })
  scriptCache.set(key, s)
  if (scriptCache.size > SCRIPT_CACHE_MAX) scriptCache.delete(scriptCache.keys().next().value)
  return s
}
const freshContext = () => vm.createContext(Object.create(null))
const strictPrefix = (strict) => (strict ? '"use strict";\n' : '')

// ---- tree dump ------------------------------------------------------------------------------------------

const mapToObj = (m) => {
  const o = Object.create(null)
  for (const [k, v] of m) o[k] = encode(v)
  return o
}
const nonEmpty = (o) => {
  // eslint-disable-next-line no-unreachable-loop
  for (const _ in o) return true
  return false
}
const takeLog = (node, out) => {
  if (node.log.length) {
    out.log = node.log.map((entry) => [entry[0], ...entry.slice(1).map(encode)])
    node.log = []
  }
}

const dumpChildren = (elem, opts) => {
  const out = []
  const kids = elem.childNodes
  for (let i = 0; i < kids.length; i += 1) dumpNode(kids[i], opts, out)
  return out
}

const dumpNode = (node, opts, out) => {
  if (node instanceof TextNode) {
    const o = { text: node.textContent }
    if (opts.ids) o.n = node.serial
    takeLog(node, o)
    out.push(o)
    return
  }
  const isSlot = node._$slotName !== null
  if (node._$virtual && !isSlot) {
    if (opts.flatten) {
      node.log = [] // nothing is ever set on pure virtual nodes except "=slot"
      const kids = node.childNodes
      for (let i = 0; i < kids.length; i += 1) dumpNode(kids[i], opts, out)
      return
    }
    const o = { virtual: node.is }
    if (opts.ids) o.n = node.serial
    const args = node._$wxTmplArgs
    if (args && args.key !== undefined) o.key = encode(args.key)
    if (args && args.keyList) o.keys = args.keyList.rawKeys.slice()
    if (args && args.keyList && args.keyList.indexes) o.idx = args.keyList.indexes.slice() // field names of an object list (null for arrays)
    if (node._$nodeSlot !== '') o.slotAttr = node._$nodeSlot
    takeLog(node, o)
    o.children = dumpChildren(node, opts)
    out.push(o)
    return
  }
  const o = isSlot ? { slot: node._$slotName } : { tag: node.is }
  if (opts.ids) o.n = node.serial
  if (isSlot) {
    o.values = node._$slotValues ? encode(node._$slotValues) : {}
    if (node.slotValueApplies) o.applied = node.slotValueApplies
  }
  if (node.attrs.size) o.attrs = mapToObj(node.attrs)
  if (node.classNames !== undefined) o.class = node.classNames.join(' ')
  if (node.styleSegments.length) o.style = encode(node.styleSegments[0])
  if (node._$nodeId !== '') o.id = node._$nodeId
  if (node._$nodeSlot !== '') o.slotAttr = node._$nodeSlot
  if (node.dataset.size) o.dataset = mapToObj(node.dataset)
  if (node.marks.size) o.marks = mapToObj(node.marks)
  if (node.listeners.length) {
    o.events = node.listeners.map((l) => {
      const e = [l.name, encode(l.handler), l.final, l.mutated, l.capture, l.isDynamic === undefined ? null : l.isDynamic]
      if (l.lvaluePath !== undefined && l.lvaluePath !== null) e.push(encode(l.lvaluePath))
      return e
    })
  }
  if (node.modelPaths.size) o.modelPaths = mapToObj(node.modelPaths)
  if (node instanceof StubComponent) {
    o.comp = true
    if (node.props.size) o.props = mapToObj(node.props)
    // a property change still queued after a step was never applied to the component
    if (node.pending.length) o.pending = node.pending.map(([k, v]) => [k, encode(v)])
    if (node.externalClasses.size) o.extClasses = mapToObj(node.externalClasses)
  }
  const args = node._$wxTmplArgs
  if (args && args.changeProp && nonEmpty(args.changeProp)) {
    const cp = Object.create(null)
    for (const k of Object.keys(args.changeProp)) {
      cp[k] = { listener: encode(args.changeProp[k].listener), oldValue: encode(args.changeProp[k].oldValue) }
    }
    o.changeProps = cp
  }
  if (node.worklets.size) o.worklets = mapToObj(node.worklets)
  if (node.extraAttrs.size) o.extra = mapToObj(node.extraAttrs)
  if (node.generics && nonEmpty(node.generics)) o.generics = encode(node.generics)
  const dev = node._$wxTmplDevArgs
  if (dev && nonEmpty(dev)) o.devArgs = encode(dev)
  takeLog(node, o)
  if (node.childNodes.length) o.children = dumpChildren(node, opts)
  out.push(o)
}

// ---- logging wrappers around the setter methods of the real ProcGenWrapper -----------------------------------
// ProcGenWrapper defines its setters (s l i c y d m v r a wl p ...) as own arrow-function members,
// the generated code fetches them as R.x: every own function member except the three below is wrapped.

const NOT_SETTERS = new Set(['procGen', 'changePropFilter', 'eventListenerWrapper'])
const wrapSetters = (pgw) => {
  for (const name of Object.keys(pgw)) {
    const orig = pgw[name]
    if (typeof orig !== 'function' || NOT_SETTERS.has(name)) continue
    pgw[name] = function wrapped(elem, ...args) {
      if (elem && Array.isArray(elem.log)) {
        elem.log.push([name, ...args])
        if (name === 'v') elem.pendingEv = { value: args[1], isDynamic: args[5], lvaluePath: args[6] }
        else if (name === 'wl') elem.worklets.set(args[0], args[1])
        else if (name === 'a') elem.extraAttrs.set(args[0], args[1])
      }
      try {
        return orig(elem, ...args)
      } finally {
        if (name === 'v' && elem && elem.pendingEv) elem.pendingEv = null
      }
    }
  }
}

// ---- ops ------------------------------------------------------------------------------------------------

const decodeChanges = (changes) => {
  if (!Array.isArray(changes)) throw new Error('"changes" must be an array of [path, value, spliceIndex?, spliceDel?]')
  return changes.map((c) => {
    if (!Array.isArray(c) || !Array.isArray(c[0])) throw new Error('each change must be [pathArray, value, ...]')
    const out = [c[0].slice(), decode(c[1])]
    if (c.length > 2) out.push(c[2] === null ? undefined : c[2], c[3] === null ? undefined : c[3])
    return out
  })
}

const makeInstance = (content, groupList, updateMode, fallbackListener, shadowRoot) => {
  const behavior = {
    is: 'verif',
    _$template: { content, groupList, updateMode, fallbackListenerOnNativeNode: !!fallbackListener },
  }
  const template = engine.create(behavior, { externalComponent: false })
  return template.createInstance(shadowRoot.getHostNode(), () => shadowRoot)
}

const opSyntax = (req) => {
  const src = String(req.src)
  const out = { sloppy: true, strict: true }
  try {
    // eslint-disable-next-line no-new
    new vm.Script(src, { filename: 'syntax' })
  } catch (e) {
    out.sloppy = false
    out.err = errMsg(e)
  }
  try {
    // eslint-disable-next-line no-new
    new vm.Script(`"use strict";\n${src}`, { filename: 'syntax' })
  } catch (e) {
    out.strict = false
    out.errStrict = errMsg(e)
    if (out.err === undefined) out.err = out.errStrict
  }
  return out
}

const UPDATE_MODES = new Set(['', 'virtualTree', 'bindingMap'])

const doRender = (req, snapshots) => {
  if (typeof req.gen_groups !== 'string') throw new Error('"gen_groups" must be a string')
  if (!Array.isArray(req.steps)) throw new Error('"steps" must be an array')
  const path = String(req.path)
  const name = req.name === undefined || req.name === null ? '' : String(req.name)
  const updateMode = req.updateMode === undefined ? 'virtualTree' : req.updateMode
  if (!UPDATE_MODES.has(updateMode)) throw new Error('"updateMode" must be "", "virtualTree" or "bindingMap"')
  const opts = { flatten: req.flatten !== false, ids: !!req.ids }

  // Slot values come from a component's dynamic slots, which the stub backend does not have.  With
  // "slotValues" the parameters V (slot values) and W (their update trees) of every children function
  // default to probes: the value of slot value `n` is the string "SV:n", its update tree is `false`.
  // Only the two places where the generator reads V and W are rewritten.
  let genSrc = req.gen_groups
  if (req.slotValues) {
    genSrc = genSrc.split('X(V)[').join('X(V||$$SV)[').split('?!0:X(W)[').join('?!0:X(W||$$SW)[')
    genSrc = `(()=>{var $$SV=new Proxy({},{get:(t,k)=>typeof k==='string'?'SV:'+k:undefined}),$$SW=new Proxy({},{get:()=>false});return ${genSrc}})()`
  }
  const script = compile(`${strictPrefix(req.strict)}${genSrc}`, 'gen_groups')
  const G = script.runInContext(freshContext())
  if (G === null || (typeof G !== 'object' && typeof G !== 'function')) throw new Error('gen_groups did not evaluate to an object')
  const group = G[path]
  if (typeof group !== 'function') throw new Error(`no template group for path ${JSON.stringify(path)}`)
  if (typeof group(name) !== 'function') throw new Error(`no template named ${JSON.stringify(name)} in ${JSON.stringify(path)}`)

  // `cmp-…` tags are stub components unless "components": false; "epoch" selects the slot values their dynamic slots hand out
  setSlotEpoch(0)
  const sr = new ShadowRoot(req.dynamicSlots ? SlotMode.Dynamic : SlotMode.Single, req.components !== false)
  const eachComponent = (elem, f) => {
    for (const c of elem.childNodes.slice()) {
      if (c instanceof TextNode) continue
      if (c instanceof StubComponent) f(c)
      eachComponent(c, f)
    }
  }
  const content = name === '' ? group : (n) => group(n === '' ? name : n)
  const instance = makeInstance(content, G, updateMode, req.fallbackListener, sr)
  const pgw = instance.procGenWrapper
  wrapSetters(pgw)

  let B
  let created = false
  for (let i = 0; i < req.steps.length; i += 1) {
    const step = req.steps[i]
    if (step === null || typeof step !== 'object') throw new Error(`step ${i}: not an object`)
    const diag = []
    setDiagSink(diag)
    let ret = null
    try {
      if ('create' in step) {
        if (created) throw new Error(`step ${i}: "create" must be the first step and appear once`)
        created = true
        if (typeof step.epoch === 'number') setSlotEpoch(step.epoch)
        instance.initValues(decode(step.create))
        B = instance.bindingMapGen
      } else if (!created) {
        throw new Error(`step ${i}: the first step must be "create"`)
      } else if ('update' in step) {
        pgw.update(decode(step.update), decode(step.U, { nullProto: true }))
      } else if ('changes' in step) {
        if (!('D' in step)) throw new Error(`step ${i}: "changes" needs the new data "D"`)
        const changes = decodeChanges(step.changes)
        let seen = false
        let tree
        const origUpdate = pgw.update
        pgw.update = function captureUpdate(data, t) {
          seen = true
          tree = t
          return origUpdate.call(this, data, t)
        }
        try {
          instance.updateValues(decode(step.D), changes)
        } finally {
          delete pgw.update
        }
        ret = seen ? { via: 'tree', U: encode(tree) } : { via: 'bindingMap' }
      } else if ('slotEpoch' in step) {
        // the components' own templates change the values they hand to their slots
        setSlotEpoch(step.slotEpoch)
        eachComponent(sr, (c) => c.getShadowRoot().moveToEpoch(step.slotEpoch))
      } else if ('bindmap' in step) {
        ret = pgw.bindingMapUpdate(String(step.bindmap), decode(step.D), B)
      } else {
        throw new Error(`step ${i}: expected one of "create", "update", "changes", "bindmap", "slotEpoch"`)
      }
    } finally {
      setDiagSink(null)
    }
    const snap = { tree: dumpChildren(sr, opts), B: B ? Object.keys(B).sort() : null, ret }
    if (diag.length) snap.diag = diag
    snapshots.push(snap)
  }
}

const opRender = (req) => {
  const snapshots = []
  try {
    guarded(() => doRender(req, snapshots), timeoutOf(req))
  } catch (e) {
    setDiagSink(null)
    return { error: errMsg(e), snapshots }
  }
  return { snapshots }
}

const M = (o, k) => (o == null ? undefined : o[k])
const CALL = (f, ...a) => (typeof f === 'function' ? f(...a) : undefined)

const evalAnswer = (req, makeFn, args) => {
  let fn
  try {
    fn = makeFn()
  } catch (e) {
    return { error: `compile: ${errMsg(e)}` }
  }
  try {
    return { value: encode(guarded(() => fn(...args()), timeoutOf(req))) }
  } catch (e) {
    return { throws: errMsg(e) }
  }
}

const opEvalRef = (req) => {
  if (typeof req.expr !== 'string') throw new Error('"expr" must be a string')
  const src = `(function(D,M,CALL){${strictPrefix(req.strict)}return (${req.expr}\n)})`
  return evalAnswer(
    req,
    () => compile(src, 'evalref').runInContext(freshContext()),
    () => [decode(req.data), M, CALL],
  )
}

const IDENT = /^[A-Za-z_$][A-Za-z0-9_$]*$/
const opEvalGen = (req) => {
  if (typeof req.expr !== 'string') throw new Error('"expr" must be a string')
  const scopes = req.scopes || {}
  const names = Object.keys(scopes)
  for (const n of names) if (!IDENT.test(n) || n === 'D') throw new Error(`bad scope name ${JSON.stringify(n)}`)
  // the runtime may itself define a variable D (the wxs module loader): keep it in an outer function,
  // exactly like gen_groups does, so that the data parameter D shadows it
  const src =
    `(function(){${strictPrefix(req.strict)}${req.runtime || ''}\n;return function(${['D', ...names].join(',')}){` +
    `${req.stmts || ''}\n;return (${req.expr}\n)}})()`
  return evalAnswer(
    req,
    () => compile(src, 'evalgen').runInContext(freshContext()),
    () => [decode(req.data), ...names.map((n) => decode(scopes[n], { nullProto: n === 'U' }))],
  )
}

// the real update-path-tree builder: GlassEaselTemplateInstance#updateValues of index.ts, driven with
// updateMode "virtualTree" and a procGenWrapper that only captures the tree it is handed
const pathTreeInstance = (() => {
  const sr = new ShadowRoot()
  const inst = makeInstance(realIndex.DEFAULT_PROC_GEN_GROUP, undefined, 'virtualTree', false, sr)
  return inst
})()
const buildPathTree = (changes) => {
  let tree
  let seen = false
  const saved = pathTreeInstance.procGenWrapper
  pathTreeInstance.procGenWrapper = {
    update(_data, t) {
      seen = true
      tree = t
    },
  }
  try {
    pathTreeInstance.updateValues(undefined, changes)
  } finally {
    pathTreeInstance.procGenWrapper = saved
  }
  if (!seen) throw new Error('the real updateValues did not reach procGenWrapper.update')
  return tree
}
const opPathTree = (req) => {
  const changes = decodeChanges(req.changes)
  return { U: encode(guarded(() => buildPathTree(changes), timeoutOf(req))) }
}

// ---- the real RangeListManager on its own: which node each new item gets and what it is told -----------------
const realRld = await import(built.files.range_list_diff)
const opRlm = (req) => {
  const keyName = req.keyName === undefined ? null : req.keyName
  const sr = new ShadowRoot(SlotMode.Single)
  const elem = sr.createVirtualNode('virtual')
  let created = 0
  const ids = new Map()
  const mk = () => {
    const n = sr.createVirtualNode('virtual')
    ids.set(n, created)
    created += 1
    return n
  }
  const oldList = decode(req.old)
  const newList = decode(req.new)
  const rlm = new realRld.RangeListManager(keyName, oldList, elem, sr, () => mk())
  const oldCount = created
  const calls = []
  const tree = decode(req.tree, { nullProto: true })
  rlm.diff(
    newList,
    tree,
    elem,
    () => mk(),
    (item, index, u, indexChanged, node) => {
      calls.push({ index, mark: u === true ? 'all' : u === undefined ? 'none' : 'sub', sub: u === true || u === undefined ? null : encode(u), indexChanged, node: node ? ids.get(node) : null })
    },
  )
  // final children: the creation number of each node (numbers below oldCount are nodes of the old list, by old position)
  return { oldCount, children: elem.childNodes.map((n) => ids.get(n)), calls }
}

const handle = (req) => {
  if (req === null || typeof req !== 'object' || Array.isArray(req)) throw new Error('request must be a JSON object')
  switch (req.op) {
    case 'ping':
      return { ok: true, node: process.version, rebuilt: built.changed, rssMB: Math.round(process.memoryUsage().rss / 1048576) }
    case 'syntax':
      return opSyntax(req)
    case 'render':
      return opRender(req)
    case 'evalref':
      return opEvalRef(req)
    case 'evalgen':
      return opEvalGen(req)
    case 'pathtree':
      return opPathTree(req)
    case 'rlm':
      return opRlm(req)
    default:
      throw new Error(`unknown op ${JSON.stringify(req.op)}`)
  }
}

const answerLine = (line) => {
  let res
  try {
    res = handle(JSON.parse(line))
  } catch (e) {
    res = { error: errMsg(e) }
  }
  let text
  try {
    text = JSON.stringify(res)
  } catch (e) {
    text = JSON.stringify({ error: `response not serialisable: ${errMsg(e)}` })
  }
  return text
}

// ---- main loop ------------------------------------------------------------------------------------------

process.on('uncaughtException', (e) => process.stderr.write(`runner: uncaught ${errMsg(e)}\n`))
process.on('unhandledRejection', (e) => process.stderr.write(`runner: unhandled rejection ${errMsg(e)}\n`))

let pending = ''
process.stdin.setEncoding('utf8')
process.stdin.on('data', (chunk) => {
  pending += chunk
  let start = 0
  let out = ''
  for (;;) {
    const nl = pending.indexOf('\n', start)
    if (nl < 0) break
    const line = pending.slice(start, nl)
    start = nl + 1
    out += `${answerLine(line)}\n`
  }
  pending = pending.slice(start)
  if (out) process.stdout.write(out)
})
process.stdin.on('end', () => {
  if (pending.trim() !== '') process.stdout.write(`${answerLine(pending)}\n`)
  process.exitCode = 0
})
